"""Rules shared between properties (each caller registers the rule under its own id)."""

from __future__ import annotations

import ast
import copy

from sa.cfg import CFG
from sa.cfg import forward
from sa.report import AnalysisError
from sa.report import Result
from sa.report import norm
from sa.srcmodel import Program
from sa.srcmodel import dotted
from sa.util import callee_name


def check_trim_carry_ownership(prog: Program, res: Result, rule: str, exit_rule: str | None = None) -> None:
    """In every Tag.parse each parse_block is entered with the trim carry of the tag immediately before that block."""
    tag_base = prog.cls("liquid2.tag.Tag")
    n_pb = 0
    for tc in prog.subclasses(tag_base, strict=True):
        m = tc.methods.get("parse")
        if m is None:
            continue
        calls = [c for c in ast.walk(m.node) if isinstance(c, ast.Call) and callee_name(m.node, c) == "parse_block"]
        if not calls:
            continue
        res.analysed_functions.add(m.fid)
        cfg = CFG(m.node, may_raise=lambda st: False)
        stream_name = next((p for p in m.params() if p == "stream"), None)
        if stream_name is None:
            continue

        def effects(node_ast: ast.AST) -> list[str]:
            """Ordered carry events of one statement/test: 'consume', 'block', 'set'."""
            ev: list[tuple[int, int, str]] = []
            for c in ast.walk(node_ast):
                if isinstance(c, ast.Call):
                    f = c.func
                    if isinstance(f, ast.Attribute) and isinstance(f.value, ast.Name) and f.value.id == stream_name and f.attr in ("next", "into_inner"):  # noqa: B023
                        ev.append((c.lineno, c.col_offset, "consume"))
                    elif callee_name(m.node, c) == "parse_block":  # noqa: B023
                        ev.append((c.end_lineno or c.lineno, c.end_col_offset or 0, "block"))
            if isinstance(node_ast, ast.Assign) and any(isinstance(t, ast.Attribute) and t.attr == "trim_carry" and isinstance(t.value, ast.Name) and t.value.id == stream_name for t in node_ast.targets):  # noqa: B023
                ev.append((10**9, 0, "set"))
            ev.sort()
            # a consume nested inside the arguments of parse_block happens before the block
            return [e[2] for e in ev]

        stale_sites: dict[int, int] = {}

        def transfer(n, st, label):  # noqa: ANN001, ANN202
            if n.node is None or n.kind in ("entry", "exit", "raise"):
                return st
            if n.kind not in ("stmt", "test"):
                return st
            cur = st
            for e in effects(n.node):
                if e == "consume":
                    cur = min(cur + 1, 2)
                elif e == "block":
                    stale_sites[n.id] = max(stale_sites.get(n.id, 0), cur)
                    cur = 0
                elif e == "set":
                    cur = 0
            return cur

        IN = forward(cfg, 0, transfer, max)
        # what a tag stores into the carry is the right-hand marker of a token: `<token>.wc[-1]`
        for st_ in ast.walk(m.node):
            if isinstance(st_, ast.Assign) and any(isinstance(t, ast.Attribute) and t.attr == "trim_carry" and isinstance(t.value, ast.Name) and t.value.id == stream_name for t in st_.targets):
                v_ = st_.value
                idx_ = v_.slice if isinstance(v_, ast.Subscript) and isinstance(v_.value, ast.Attribute) and v_.value.attr == "wc" else None
                is_last = isinstance(idx_, ast.UnaryOp) and isinstance(idx_.op, ast.USub) and isinstance(idx_.operand, ast.Constant) and idx_.operand.value == 1
                site_ = f"{m.file}:{st_.lineno} {m.qualname}"
                what_ = f"{tc.name}.parse stores a token's right-hand marker in the trim carry"
                if is_last:
                    res.ok(rule, site_, what_, norm(v_))
                else:
                    res.fail(rule, file=m.file, line=st_.lineno, qualname=m.qualname, construct=f"{tc.name}.parse: trim carry set from `{norm(v_, 40)}`", message=f"{tc.name}.parse stores `{norm(v_, 40)}` in stream.trim_carry: the carry must be the right-hand marker (`<token>.wc[-1]`) of the tag just consumed, otherwise the text after that tag is trimmed by its *left* marker (or some other marker)", what=what_)
        if exit_rule is not None:
            # the carry handed back to the parser must be the marker of the tag the stream is left on (the end tag):
            # the last carry event on every path to a return is a parse_block (it stops on that tag and records its marker)
            # or an explicit store, with no tag consumed since
            for n in cfg.nodes:
                if n.kind == "stmt" and isinstance(n.node, ast.Return) and n.id in IN:
                    cur = transfer(n, IN[n.id], "")
                    site = f"{m.file}:{n.node.lineno} {m.qualname}"
                    what = f"{tc.name}.parse returns with the trim carry of the tag the stream is left on"
                    if cur == 0:
                        res.ok(exit_rule, site, what, "last carry event on every path is the closing parse_block or an explicit store")
                    else:
                        res.fail(exit_rule, file=m.file, line=n.node.lineno, qualname=m.qualname, construct=f"{tc.name}.parse: return with a stale carry", message=f"{tc.name}.parse can return after consuming a tag token without refreshing stream.trim_carry (a path with no parse_block after it): the text after the closing tag is trimmed by an earlier tag's marker and the closing tag's own marker is ignored", what=what)
        for c in calls:
            n_pb += 1
            node = next((n for n in cfg.nodes if n.node is not None and n.kind in ("stmt", "test") and any(x is c for x in ast.walk(n.node))), None)
            site = f"{m.file}:{c.lineno} {m.qualname}"
            what = f"`{norm(c, 50)}` entered with a fresh trim carry"
            worst = stale_sites.get(node.id, 0) if node is not None else 2
            if worst <= 1:
                res.ok(rule, site, what, "carry belongs to the tag just consumed" if worst else "carry belongs to the current tag")
            else:
                res.fail(
                    rule,
                    file=m.file,
                    line=c.lineno,
                    qualname=m.qualname,
                    construct=f"{tc.name}.parse: {norm(c, 50)} with a stale carry",
                    message=f"{tc.name}.parse can reach `{norm(c, 40)}` after consuming two tag tokens without refreshing stream.trim_carry: the block is trimmed by an earlier tag's marker instead of the tag right before it",
                    what=what,
                )
    res.floor(rule, "parse_block call sites in tags", n_pb, 15)


def check_context_manager_pairing(prog: Program, res: Result, rule: str) -> None:
    """In RenderContext's context managers every acquisition is released on all exits (may-hold typestate over the CFG)."""
    from checks.C07 import _acquire_release

    ctx = prog.cls("liquid2.context.RenderContext")
    cms = [m for m in ctx.methods.values() if any((dotted(d) or "") == "contextmanager" for d in m.node.decorator_list)]
    res.floor(rule, "context-manager methods of RenderContext", len(cms), 2)
    for m in cms:
        res.analysed_functions.add(m.fid)
        from sa.cfg import _default_may_raise

        # the primitive stack operations themselves (deque.appendleft/popleft, list.append/pop on a stack the
        # pairing keeps non-empty) are total; everything else that calls or subscripts may raise
        cfg = CFG(m.node, may_raise=lambda st: _default_may_raise(st) and _acquire_release(st) is None)
        guards: dict[str, str] = {}
        # guard under which each acquire statement sits (for correlated release tests)
        for n in ast.walk(m.node):
            ar = _acquire_release(n)
            if ar and ar[0] == "acquire":
                for a in m.module.ancestors(n):
                    if isinstance(a, ast.If) and any(n is x for b in a.body for x in ast.walk(b)):
                        guards[ar[1]] = norm(a.test)
                        break
                    if a is m.node:
                        break

        def transfer(n, st, label):  # noqa: ANN001, ANN202
            if label == "exc":
                return st
            if n.kind == "test" and label == "false" and n.node is not None:
                t = norm(n.node)
                st = frozenset(r for r in st if guards.get(r) != t)
                return st
            if n.kind == "stmt" and n.node is not None:
                ar = _acquire_release(n.node)
                if ar:
                    return st | {ar[1]} if ar[0] == "acquire" else st - {ar[1]}
            return st

        IN = forward(cfg, frozenset(), transfer, lambda a, b: a | b)
        acquires = [n for n in cfg.nodes if n.kind == "stmt" and n.node is not None and (_acquire_release(n.node) or ("", ""))[0] == "acquire"]
        res.floor(rule, f"acquisitions in {m.name}", len(acquires), 1)
        leaks: dict[str, str] = {}
        for exit_node, kind in ((cfg.raise_exit, "an exception"), (cfg.exit, "normal return")):
            for src, label in exit_node.pred:
                if src.id not in IN:
                    continue
                out = transfer(src, IN[src.id], label)
                for r in out:
                    leaks.setdefault(r, f"{kind} via `{norm(src.node, 50)}` (line {src.line})")
        for a in acquires:
            r = _acquire_release(a.node)[1]
            site = f"{m.file}:{a.line} RenderContext.{m.name}"
            what = f"`{norm(a.node, 50)}` released on every exit"
            if r in leaks:
                res.fail(
                    rule,
                    file=m.file,
                    line=a.line,
                    qualname=f"RenderContext.{m.name}",
                    construct=f"{norm(a.node, 50)} not released",
                    message=f"`{norm(a.node, 50)}` is still in effect when {m.name}() exits by {leaks[r]}: the {r} stack/field stays modified after the block",
                    what=what,
                )
            else:
                res.ok(rule, site, what, "no exit (normal or exceptional) is reachable with the resource held")



def check_cache_hit_rebinds(prog: Program, res: Result, rule: str) -> None:
    """Every path of CachingLoaderMixin._check_cache* that returns the cached object first rebinds its global_data
    from the caller's `globals` (must-pass-through on the CFG), so a hit never carries an earlier caller's globals."""
    from sa.report import AnalysisError
    from sa.util import is_self_attr

    rel = "liquid2/builtin/loaders/mixins.py"
    mixin = prog.mod(rel).classes.get("CachingLoaderMixin")
    if mixin is None:
        raise AnalysisError("CachingLoaderMixin vanished")
    for fname in ("_check_cache", "_check_cache_async"):
        f = mixin.methods.get(fname)
        if f is None:
            raise AnalysisError(f"CachingLoaderMixin.{fname} vanished")
        cfg = CFG(f.node)
        cached_names = {t.id for n in ast.walk(f.node) if isinstance(n, ast.Assign) and isinstance(n.value, ast.Subscript) and is_self_attr(n.value.value, "cache") for t in n.targets if isinstance(t, ast.Name)}
        if len(cached_names) != 1:
            res.fail(rule, file=rel, line=f.node.lineno, qualname=f"CachingLoaderMixin.{fname}", construct=f"cached-template variable not bound from self.cache[key]: {sorted(cached_names)}", message="the cache lookup is not a single `x = self.cache[key]`: the rebinding obligation cannot be established", what="lookup shape")
            continue
        cached = next(iter(cached_names))
        if "globals" not in f.params():
            raise AnalysisError(f"{fname}: no `globals` parameter")
        hit_returns = [n for n in cfg.nodes if n.kind == "stmt" and isinstance(n.node, ast.Return) and isinstance(n.node.value, ast.Name) and n.node.value.id == cached]
        res.floor(rule, f"hit returns in {fname}", len(hit_returns), 1)

        def is_rebind(n: object) -> bool:
            nd = getattr(n, "node", None)
            if getattr(n, "kind", "") != "stmt" or not isinstance(nd, ast.Assign):
                return False
            for t in nd.targets:
                if isinstance(t, ast.Attribute) and t.attr == "global_data" and isinstance(t.value, ast.Name) and t.value.id == cached:  # noqa: B023
                    names = {x.id for x in ast.walk(nd.value) if isinstance(x, ast.Name)}
                    # from the caller's globals alone: a fallback to what the cached object already holds keeps an earlier caller's globals
                    return "globals" in names and cached not in names  # noqa: B023
            return False

        for r in hit_returns:
            site = f"{rel}:{r.line} CachingLoaderMixin.{fname}"
            what = f"`return {cached}` preceded by `{cached}.global_data = …globals…` on every path"
            if cfg.all_paths_pass(r, is_rebind):
                res.ok(rule, site, what, "rebinding statement on every path to the hit return")
            else:
                res.fail(rule, file=rel, line=r.line, qualname=f"CachingLoaderMixin.{fname}", construct=f"return {cached} reachable without rebinding {cached}.global_data", message="a cache hit can be returned without rebinding the caller's globals: the previous caller's globals are served (e.g. when the new caller passes none)", what=what)


def check_scope_stack_ownership(prog: Program, res: Result, rule: str) -> None:
    """The render scope stack (context.scope) is pushed / popped only inside RenderContext.extend."""
    from sa.srcmodel import root_name

    ctx = prog.cls("liquid2.context.RenderContext")
    # scope stack: pushed/popped only by RenderContext.extend
    n_sp = 0
    for mod in prog.modules.values():
        for c in ast.walk(mod.tree):
            if isinstance(c, ast.Call) and isinstance(c.func, ast.Attribute) and c.func.attr in ("push", "pop") and isinstance(c.func.value, ast.Attribute) and c.func.value.attr == "scope" and root_name(c.func.value) in ("self", "context", "ctx", "macro_context"):
                fi = prog.enclosing_function(mod, c)
                if root_name(c.func.value) == "self" and (fi is None or fi.cls is not ctx):
                    continue
                n_sp += 1
                what = f"`{norm(c)}` inside RenderContext.extend"
                if fi is not None and fi.cls is ctx and fi.name == "extend":
                    res.ok(rule, f"{mod.relpath}:{c.lineno} {fi.qualname}", what, "paired in try/finally by extend() (C07.R1)")
                else:
                    res.fail(rule, file=mod.relpath, line=c.lineno, qualname=fi.qualname if fi else "", construct=c, message="the render scope stack is pushed/popped by hand outside RenderContext.extend: an early exit (break, error, abandoned generator) leaves the scope pushed and block-bound names leak", what=what)
    res.floor(rule, "scope push/pop sites", n_sp, 2)


def check_newline_transparency(prog: Program, res: Result, rule: str) -> None:
    """Output buffers never translate line endings: LimitedStringIO forwards newline='\\n' (StringIO()'s own default) and no
    buffer construction in liquid2 passes another newline mode."""
    lim = prog.cls("liquid2.output.LimitedStringIO")
    init = lim.methods.get("__init__")
    if init is None:
        res.ok(rule, f"{lim.file}:{lim.node.lineno} LimitedStringIO", "no __init__ override", "inherits StringIO defaults")
    else:
        a = init.node.args
        defaults = dict(zip([p.arg for p in a.args][len(a.args) - len(a.defaults) :], a.defaults))
        sc = [c for c in ast.walk(init.node) if isinstance(c, ast.Call) and isinstance(c.func, ast.Attribute) and c.func.attr == "__init__" and norm(c.func.value) == "super()"]
        what = "super().__init__ receives newline='\\n' by default"
        ok = False
        why = "no super().__init__ call"
        for c in sc:
            nl = c.args[1] if len(c.args) > 1 else next((k.value for k in c.keywords if k.arg == "newline"), None)
            if nl is None:
                ok, why = True, "newline not forwarded: StringIO's own default applies"
            elif isinstance(nl, ast.Constant):
                ok, why = nl.value == "\n", f"newline={nl.value!r}"
            elif isinstance(nl, ast.Name) and nl.id in defaults:
                dv = defaults[nl.id]
                ok = isinstance(dv, ast.Constant) and dv.value == "\n"
                why = f"parameter {nl.id} defaults to {norm(dv)}"
            else:
                why = f"newline={norm(nl)}"
        if ok:
            res.ok(rule, f"{init.file}:{init.node.lineno} LimitedStringIO.__init__", what, why)
        else:
            res.fail(rule, file=init.file, line=init.node.lineno, qualname="LimitedStringIO.__init__", construct=f"newline forwarded to StringIO: {why}", message=f"configuring an output limit changes write semantics: {why} turns on universal-newline translation (CR/CRLF rewritten to LF); StringIO() itself uses newline='\\n'", what=what)
    n_ctor = 0
    for mod in prog.modules.values():
        for c in ast.walk(mod.tree):
            if not (isinstance(c, ast.Call) and (dotted(c.func) or "").split(".")[-1] in ("StringIO", "LimitedStringIO")):
                continue
            n_ctor += 1
            pos = 2 if (dotted(c.func) or "").endswith("LimitedStringIO") else 1
            nl = c.args[pos] if len(c.args) > pos else next((k.value for k in c.keywords if k.arg == "newline"), None)
            q = prog.qual_at(mod, c)
            what = f"`{norm(c, 60)}` keeps line endings as written"
            if nl is None or (isinstance(nl, ast.Constant) and nl.value in ("\n", "")):
                res.ok(rule, f"{mod.relpath}:{c.lineno} {q}", what, "no newline argument" if nl is None else f"newline={nl.value!r}")
            else:
                res.fail(rule, file=mod.relpath, line=c.lineno, qualname=q, construct=f"{norm(c, 60)} with newline={norm(nl)}", message=f"the output buffer is built with newline={norm(nl)}: CR / CRLF written by the template are rewritten", what=what)
    res.floor(rule, "output buffer constructions", n_ctor, 3)
    # ... and neither do the loaders when they read a template file
    n_read = 0
    for mod in prog.modules.values():
        if not mod.relpath.startswith("liquid2/builtin/loaders/") and mod.relpath != "liquid2/loader.py":
            continue
        for c in ast.walk(mod.tree):
            if not isinstance(c, ast.Call):
                continue
            fname = c.func.attr if isinstance(c.func, ast.Attribute) else (c.func.id if isinstance(c.func, ast.Name) else "")
            if fname not in ("open", "read_text"):
                continue
            n_read += 1
            q = prog.qual_at(mod, c)
            what = f"`{norm(c, 60)}` reads the template without translating line endings"
            nl = next((k.value for k in c.keywords if k.arg == "newline"), None)
            mode = next((a for a in c.args if isinstance(a, ast.Constant) and isinstance(a.value, str) and set(a.value) <= set("rwabt+x")), None)
            binary = mode is not None and "b" in mode.value
            if fname == "open" and (binary or (isinstance(nl, ast.Constant) and nl.value == "")):
                res.ok(rule, f"{mod.relpath}:{c.lineno} {q}", what, "newline=''" if not binary else "binary mode")
            else:
                res.fail(rule, file=mod.relpath, line=c.lineno, qualname=q, construct=f"{norm(c, 60)} with universal newlines", message=f"`{norm(c, 60)}` reads a template file with universal-newline translation: CR and CRLF in literal text and inside string literals become LF, unlike the same source given to from_string()", what=what)
    res.floor(rule, "template file reads in the loaders", n_read, 2)


def check_buffer_factories_fresh(prog: Program, res: Result, rule: str) -> None:
    """The capture-buffer factory (RenderContext.get_output_buffer) returns a newly constructed buffer on every path -
    never its parent, a parameter or a stored object - so captured text is never written into the discarding NullIO of a
    suppressed block (or into the caller's stream)."""
    from sa.report import AnalysisError

    ctx = prog.cls("liquid2.context.RenderContext")
    f = ctx.methods.get("get_output_buffer")
    if f is None:
        raise AnalysisError("RenderContext.get_output_buffer vanished")
    rets = [r for r in ast.walk(f.node) if isinstance(r, ast.Return)]
    res.floor(rule, "returns of get_output_buffer", len(rets), 2)
    for r in rets:
        v = r.value
        site = f"{f.file}:{r.lineno} RenderContext.get_output_buffer"
        what = f"`{norm(r, 60)}` hands out a newly constructed buffer"
        fresh = isinstance(v, ast.Call) and (dotted(v.func) or "").split(".")[-1] in ("StringIO", "LimitedStringIO")
        if fresh:
            res.ok(rule, site, what, "constructor call")
        else:
            res.fail(rule, file=f.file, line=r.lineno, qualname="RenderContext.get_output_buffer", construct=f"{norm(r, 60)} is not a fresh buffer", message=f"get_output_buffer can return `{norm(v, 40) if v is not None else None}` instead of a new buffer: a capture (or macro/block render) then writes into the buffer it was given - inside a suppressed blank block that is the discarding NullIO, so the captured text is lost with the whitespace", what=what)
    # NullIO is constructed only by BlockNode's suppression path
    n_null = 0
    for mod in prog.modules.values():
        for c in ast.walk(mod.tree):
            if isinstance(c, ast.Call) and (dotted(c.func) or "").split(".")[-1] == "NullIO":
                n_null += 1
                fi = prog.enclosing_function(mod, c)
                q = fi.qualname if fi else "<module>"
                what = f"`{norm(c)}` built only by BlockNode.render_to_output[_async]"
                if fi is not None and fi.cls is not None and fi.cls.full == "liquid2.ast.BlockNode":
                    res.ok(rule, f"{mod.relpath}:{c.lineno} {q}", what, "the suppression path")
                else:
                    res.fail(rule, file=mod.relpath, line=c.lineno, qualname=q, construct=f"NullIO() in {q}", message=f"{q} builds a discarding buffer outside BlockNode's blank-block suppression: whatever is rendered into it is lost", what=what)
    res.floor(rule, "NullIO constructions", n_null, 2)


def check_cache_hit_environment(prog: Program, res: Result, rule: str) -> None:
    """A cached template is returned as a hit only to the Environment it was parsed for - unconditionally (C14.R5 = C04.S5).

    `RenderContext.auto_escape`, the filter and tag registries and the undefined policy are all read from `template.env`, so a template
    handed to another environment renders with the first one's settings. The hit return must lie on the false edge of a test one of whose
    *top-level* disjuncts is `<cached>.env is not env` (a disjunct nested under `auto_reload and (...)` is skipped when auto_reload is off)."""
    from sa.util import guarded_by_test

    mixin = prog.cls("liquid2.builtin.loaders.mixins.CachingLoaderMixin")
    for fname in ("_check_cache", "_check_cache_async"):
        f = mixin.methods.get(fname)
        if f is None:
            raise AnalysisError(f"CachingLoaderMixin.{fname} vanished")
        cfg = CFG(f.node)
        cached_names = {t.id for n in ast.walk(f.node) if isinstance(n, ast.Assign) and isinstance(n.value, ast.Subscript) and norm(n.value.value) == "self.cache" for t in n.targets if isinstance(t, ast.Name)}
        if len(cached_names) != 1:
            raise AnalysisError(f"{fname}: the cache lookup is not a single `x = self.cache[key]`")
        cached = next(iter(cached_names))
        hits = [n for n in cfg.nodes if n.kind == "stmt" and isinstance(n.node, ast.Return) and isinstance(n.node.value, ast.Name) and n.node.value.id == cached]
        res.floor(rule, f"hit returns in {fname}", len(hits), 1)

        def env_guard(test: ast.AST, cached: str = cached) -> bool | None:
            disj = test.values if isinstance(test, ast.BoolOp) and isinstance(test.op, ast.Or) else [test]
            for d in disj:
                if norm(d) in (f"{cached}.env is not env", f"{cached}.env != env", f"env is not {cached}.env"):
                    return True  # another environment on the true edge
            if norm(test) in (f"{cached}.env is env", f"{cached}.env == env"):
                return False
            return None

        for r in hits:
            site = f"{f.file}:{r.line} CachingLoaderMixin.{fname}"
            what = f"`return {cached}` only when the cached template is bound to the requesting environment"
            if guarded_by_test(cfg, r, env_guard) is not None:
                res.ok(rule, site, what, f"hit only on the false edge of a test with the top-level disjunct `{cached}.env is not env`")
            else:
                res.fail(rule, file=f.file, line=r.line, qualname=f"CachingLoaderMixin.{fname}", construct=f"return {cached} without an unconditional comparison of its environment", message="a cache hit can be returned to an Environment other than the one the template was parsed for (the comparison is missing or sits under another condition such as auto_reload): the template then renders with the first environment's auto_escape setting, filters, tags and undefined type", what=what)


def check_presence_by_key(prog: Program, res: Result, rule: str) -> None:
    """Variable lookup decides 'missing' from the failed key lookup, never from the looked-up value (C16.R6 = C01.R8): a name bound to
    nil/false/0/'' exists - it shadows an outer binding of the same name and is not undefined."""
    ctx = prog.cls("liquid2.context.RenderContext")
    look_fns = []
    cm = prog.cls("liquid2.utils.chainmap.ReadOnlyChainMap")
    for nm in ("__getitem__", "get"):
        if nm in cm.methods:
            look_fns.append(cm.methods[nm])
    for nm in ("get", "get_async", "resolve", "get_item", "get_item_async"):
        if nm in ctx.methods:
            look_fns.append(ctx.methods[nm])
    res.floor(rule, "lookup functions", len(look_fns), 6)
    n_lk = 0
    for f in look_fns:
        # names bound from a lookup expression
        looked: dict[str, ast.AST] = {}
        for n in ast.walk(f.node):
            if isinstance(n, ast.Assign) and len(n.targets) == 1 and isinstance(n.targets[0], ast.Name):
                v = n.value.value if isinstance(n.value, ast.Await) else n.value
                is_lookup = (isinstance(v, ast.Subscript) and not isinstance(v.slice, ast.Slice)) or (isinstance(v, ast.Call) and isinstance(v.func, ast.Attribute) and v.func.attr in ("get", "get_item", "get_item_async", "pop")) or (isinstance(v, ast.Call) and isinstance(v.func, ast.Name) and v.func.id in ("getitem", "getattr"))
                if is_lookup:
                    looked[n.targets[0].id] = v
                    n_lk += 1
        for v, src in looked.items():
            sentinel = None
            if isinstance(src, ast.Call) and len(src.args) >= 2 and not (isinstance(src.args[1], ast.Constant) and src.args[1].value is None):
                sentinel = norm(src.args[1])
            for t in ast.walk(f.node):
                test = t.test if isinstance(t, (ast.If, ast.IfExp, ast.While)) else None
                if test is None:
                    continue
                bad = None
                for x in ast.walk(test):
                    if isinstance(x, ast.Compare) and isinstance(x.left, ast.Name) and x.left.id == v and isinstance(x.ops[0], (ast.Is, ast.IsNot, ast.Eq, ast.NotEq)):
                        rhs = x.comparators[0]
                        if sentinel is not None and norm(rhs) == sentinel:
                            continue
                        if isinstance(rhs, ast.Constant) and (rhs.value is None or rhs.value in (False, 0, "")):
                            bad = norm(x)
                if bad is None and ((isinstance(test, ast.Name) and test.id == v) or (isinstance(test, ast.UnaryOp) and isinstance(test.op, ast.Not) and isinstance(test.operand, ast.Name) and test.operand.id == v)):
                    bad = norm(test)
                if bad:
                    res.fail(rule, file=f.file, line=t.lineno, qualname=f.qualname, construct=f"{f.qualname}: `{bad}` on the looked-up value {v}", message=f"{f.qualname} tests the looked-up value (`{bad}`) to decide whether the key exists: a variable whose value is nil/false/0/'' is treated as missing and strict undefined raises for data that is present", what=f"{f.qualname}: existence of `{v}` decided by the lookup, not its value")
        res.ok(rule, f"{f.file}:{f.node.lineno} {f.qualname}", f"{f.qualname}: no existence test on a looked-up value", f"{len(looked)} looked-up names")
    res.floor(rule, "lookup results bound to names", n_lk, 2)


def check_unconditional_contributions(prog: Program, res: Result, rule: str) -> None:
    """In children()/expressions() a child is handed to the traversals under no condition other than its own presence: a contribution of
    `self.A` may sit under tests that mention `self.A` (or only parameters such as include_partials), never under a test on another
    attribute `self.B` - otherwise the child is rendered at run time but skipped by analysis/extraction whenever B is absent."""
    bases = [prog.cls("liquid2.ast.Node"), prog.cls("liquid2.expression.Expression")]
    n = 0
    for fi in sorted(prog.all_functions(), key=lambda f: (f.file, f.node.lineno)):
        if fi.cls is None or fi.name not in ("children", "children_async", "expressions") or not any(prog.is_subclass(fi.cls, b) for b in bases):
            continue
        for node in ast.walk(fi.node):
            contributed: list[ast.AST] = []
            if isinstance(node, (ast.Yield, ast.YieldFrom)) and node.value is not None:
                contributed = [node.value]
            elif isinstance(node, ast.Call) and isinstance(node.func, ast.Attribute) and node.func.attr in ("append", "extend") and node.args:
                contributed = [node.args[0]]
            elif isinstance(node, ast.Return) and node.value is not None and not any(isinstance(y, (ast.Yield, ast.YieldFrom)) for y in ast.walk(fi.node)):
                contributed = [node.value]  # children() written as `return [...]`
            for v in contributed:
                attrs = {x.attr for x in ast.walk(v) if isinstance(x, ast.Attribute) and isinstance(x.value, ast.Name) and x.value.id == "self"}
                if not attrs:
                    continue
                n += 1
                foreign = None
                child: ast.AST = node
                for a in fi.module.ancestors(node):
                    if a is fi.node:
                        break
                    if isinstance(a, ast.If) and (any(child is x for b in a.body for x in ast.walk(b)) or any(child is x for b in a.orelse for x in ast.walk(b))):
                        tested = {x.attr for x in ast.walk(a.test) if isinstance(x, ast.Attribute) and isinstance(x.value, ast.Name) and x.value.id == "self"}
                        if tested and not (tested & attrs):
                            foreign = (a, tested)
                            break
                    child = a
                what = f"{fi.qualname}: contribution of self.{sorted(attrs)[0]} is not conditional on another attribute"
                # a comprehension that filters what it hands out: the elements dropped are still evaluated at run time
                filt = [g for c in ast.walk(v) if isinstance(c, (ast.GeneratorExp, ast.ListComp, ast.SetComp)) for g in c.generators if g.ifs and not all(norm(t) == norm(c.elt) or (isinstance(t, ast.Compare) and len(t.ops) == 1 and isinstance(t.ops[0], ast.IsNot) and norm(t.left) == norm(c.elt) and isinstance(t.comparators[0], ast.Constant) and t.comparators[0].value is None) for t in g.ifs)]  # `x for … if x` / `if x is not None`: the element's own presence
                # a type filter that keeps every expression-typed member of the declared element type is no filter: `[p for p in self.path
                # if isinstance(p, Path)]` over `self.path: list[Path | int | str]` drops the plain words and indexes only
                if filt and fi.cls is not None:
                    kept = []
                    for g in filt:
                        t0 = g.ifs[0] if len(g.ifs) == 1 else None
                        attr = g.iter.attr if isinstance(g.iter, ast.Attribute) and isinstance(g.iter.value, ast.Name) and g.iter.value.id == "self" else None
                        declared = next((norm(a.annotation, 200) for m_ in fi.cls.methods.values() for a in ast.walk(m_.node) if isinstance(a, ast.AnnAssign) and isinstance(a.target, ast.Attribute) and a.target.attr == attr and isinstance(a.target.value, ast.Name) and a.target.value.id == "self"), None) if attr else None
                        if isinstance(t0, ast.Call) and isinstance(t0.func, ast.Name) and t0.func.id == "isinstance" and len(t0.args) == 2 and declared:
                            import re as _re

                            members = set(_re.findall(r"[A-Za-z_][A-Za-z_0-9]*", declared)) - {"list", "List", "tuple", "Sequence", "Union", "Optional", "None"}
                            plain = {"str", "int", "float", "bool", "bytes"}
                            tested = set(_re.findall(r"[A-Za-z_][A-Za-z_0-9]*", norm(t0.args[1])))
                            if members - plain and (members - plain) <= tested:
                                continue
                        kept.append(g)
                    filt = kept
                if filt:
                    res.fail(rule, file=fi.file, line=getattr(node, "lineno", fi.node.lineno), qualname=fi.qualname, construct=f"{fi.qualname}: self.{sorted(attrs)[0]} contributed through a filter `if {norm(filt[0].ifs[0], 40)}`", message=f"{fi.qualname} hands out `{norm(v, 70)}`: elements of self.{sorted(attrs)[0]} that fail `{norm(filt[0].ifs[0], 50)}` are evaluated when the tag runs but never reach analysis or extraction (a range with variable bounds, a template string with `${{…}}`, a filtered literal)", what=what)
                    continue
                if foreign is None:
                    res.ok(rule, f"{fi.file}:{getattr(node, 'lineno', 0)} {fi.qualname}", what, "under its own presence test at most")
                else:
                    a, tested = foreign
                    res.fail(rule, file=fi.file, line=getattr(node, "lineno", a.lineno), qualname=fi.qualname, construct=f"{fi.qualname}: self.{sorted(attrs)[0]} contributed only under a test of self.{sorted(tested)[0]}", message=f"{fi.qualname} hands `{norm(v, 40)}` to the traversals only when `{norm(a.test, 40)}` holds - a condition on a different attribute: when it is false the child is still rendered at run time but static analysis and message extraction never see it", what=what)
    res.floor(rule, "child contributions in children()/expressions()", n, 40)


def check_arguments_before_bindings(prog: Program, res: Result, rule: str) -> None:
    """A tag evaluates its own argument expressions in the scope it was written in: no `<expr>.evaluate[_async](context)` inside the
    `with context.extend(…)` / `with context.loop(…)` block that pushes the tag's own bindings (C10.R5 = C07.R10)."""
    node = prog.cls("liquid2.ast.Node")
    n_with = 0
    for fi in sorted(prog.all_functions(), key=lambda f: (f.file, f.node.lineno)):
        if fi.cls is None or not prog.is_subclass(fi.cls, node) or fi.name not in ("render_to_output", "render_to_output_async"):
            continue
        for w in ast.walk(fi.node):
            if not (isinstance(w, (ast.With, ast.AsyncWith)) and any(isinstance(it.context_expr, ast.Call) and isinstance(it.context_expr.func, ast.Attribute) and it.context_expr.func.attr in ("extend", "loop") and norm(it.context_expr.func.value) == "context" for it in w.items)):
                continue
            n_with += 1
            inside = [c for b in w.body for c in ast.walk(b) if isinstance(c, ast.Call) and isinstance(c.func, ast.Attribute) and c.func.attr in ("evaluate", "evaluate_async") and c.args and norm(c.args[0]) == "context"]
            site = f"{fi.file}:{w.lineno} {fi.qualname}"
            what = f"{fi.qualname}: no argument expression is evaluated inside `with {norm(w.items[0].context_expr, 40)}`"
            if not inside:
                res.ok(rule, site, what, "arguments are evaluated before the bindings are pushed")
            for c in inside:
                res.fail(rule, file=fi.file, line=c.lineno, qualname=fi.qualname, construct=f"{fi.qualname}: `{norm(c, 40)}` inside `with {norm(w.items[0].context_expr, 30)}`", message=f"{fi.qualname} evaluates `{norm(c, 40)}` after pushing its own bindings: a name the tag binds (a keyword argument, the loop variable) shadows the caller's variable of that name inside the tag's own argument list - `{{% include 'p' with x as y, x: 'kw' %}}` binds y to 'kw', not to the caller's x", what=what)
    res.floor(rule, "with context.extend/loop blocks in render methods", n_with, 8)


_DEFASSIGN_POSITIVE = """
def f(args):
    if args:
        name = args[0]
    elif len(args) > 1:
        other = 1
    return name
"""


def check_definite_assignment(prog: Program, res: Result, rule: str, *, scope: str = "all") -> None:
    """No local variable is read on a path that has not bound it (UnboundLocalError is not a LiquidError and not an extraction
    result). scope = 'all' (every function of liquid2) or 'extraction' (messages.py and the message()/messages() methods)."""
    from sa.defassign import possibly_unbound

    pos = possibly_unbound(ast.parse(_DEFASSIGN_POSITIVE).body[0])  # type: ignore[arg-type]
    if len(pos) != 1 or pos[0][0].id != "name":
        raise AnalysisError(f"{rule}: definite-assignment positive example no longer yields exactly one finding")
    n_fn = 0
    for fi in sorted(prog.all_functions(), key=lambda f: (f.file, f.node.lineno)):
        if scope == "extraction" and not (fi.file == "liquid2/messages.py" or fi.name in ("message", "messages")):
            continue
        n_fn += 1
        for x, why in possibly_unbound(fi.node):
            res.fail(rule, file=fi.file, line=getattr(x, "lineno", fi.node.lineno), qualname=fi.qualname, construct=f"{fi.qualname}: `{x.id}` may be unbound", message=f"{fi.qualname} reads the local `{x.id}` on a path that never assigned it ({why}): UnboundLocalError, which is not a LiquidError, escapes", what=f"{fi.qualname}: every local is bound before it is read")
    res.ok(rule, "liquid2/**" if scope == "all" else "liquid2/messages.py + message()/messages()", f"{n_fn} functions: every read of a local is reached only through a binding of it", "forward must-analysis over the statement CFG (sa/defassign.py); positive example matched once")
    res.floor(rule, "functions analysed for definite assignment", n_fn, 900 if scope == "all" else 10)


def check_content_right_trim(prog: Program, res: Result, rule: str) -> None:
    """Literal text takes its right trim from the left marker of whatever markup follows it - for every kind of markup token (C18.R3 = C01.R10).

    The token classes that carry markers are read off liquid2/token.py (a `wc` field). Content.parse may tell them apart with
    isinstance(peeked, (…)) or with the type guards of token.py (is_tag_token, … - each declared `TypeGuard[<class>]`); either way
    every marker-carrying class must be covered, and the branch must assign the marker: `right_trim = peeked.wc[0]`."""
    tokmod = prog.mod("liquid2/token.py")
    markup_classes = {c.name for c in tokmod.classes.values() if any(isinstance(s, ast.AnnAssign) and isinstance(s.target, ast.Name) and s.target.id == "wc" for s in c.node.body)}
    res.floor(rule, "token classes with wc", len(markup_classes), 5)
    guards: dict[str, str] = {}
    for name, f in tokmod.functions.items():
        r = f.node.returns
        if r is not None and isinstance(r, ast.Subscript) and (dotted(r.value) or "").endswith("TypeGuard"):
            guards[name] = dotted(r.slice) or ""
    cp = prog.cls("liquid2.builtin.content.Content").methods.get("parse")
    if cp is None:
        raise AnalysisError("Content.parse vanished")
    covered: set[str] = set()
    for n in ast.walk(cp.node):
        if isinstance(n, ast.Call) and isinstance(n.func, ast.Name) and n.func.id == "isinstance" and len(n.args) == 2 and norm(n.args[0]) == "peeked":
            covered |= {dotted(x) or "" for x in (n.args[1].elts if isinstance(n.args[1], ast.Tuple) else [n.args[1]])}
        if isinstance(n, ast.Call) and isinstance(n.func, ast.Name) and n.func.id in guards and len(n.args) == 1 and norm(n.args[0]) == "peeked":
            covered.add(guards[n.func.id])

    def base_covered(name: str) -> bool:
        c = tokmod.classes.get(name)
        return c is not None and any(k.name in covered for k in prog.mro(c))

    # text followed by text (the lexer splits literal text at `{#` that opens no comment): no trimming between the two
    text_next = any(
        isinstance(i, ast.If) and (("isinstance(peeked, ContentToken)" in norm(i.test)) or ("is_content_token(peeked)" in norm(i.test))) and any(norm(b) == "right_trim = WhitespaceControl.PLUS" for b in i.body)
        for i in ast.walk(cp.node)
    )
    what_t = "Content.parse: text followed by more text keeps its trailing whitespace (right_trim = PLUS), whatever the default trim mode"
    if text_next:
        res.ok(rule, f"{cp.file}:{cp.node.lineno} Content.parse", what_t, "ContentToken branch sets PLUS")
    else:
        res.fail(rule, file=cp.file, line=cp.node.lineno, qualname="Content.parse", construct="text followed by text takes the default trim", message="when literal text is followed by more literal text (the lexer splits at a `{#` that opens no comment) its right side takes the environment's default trim: with default_trim='-' whitespace in the middle of plain text disappears, next to no markup at all", what=what_t)
    missing = sorted(m for m in markup_classes if not base_covered(m))
    what = "Content.parse takes right_trim = peeked.wc[0] for every markup token class"
    if not missing and "right_trim = peeked.wc[0]" in norm(cp.node, 3000) and "stream.peek()" in norm(cp.node, 3000):
        res.ok(rule, f"{cp.file}:{cp.node.lineno} Content.parse", what, f"covers {sorted(covered)}")
    else:
        res.fail(rule, file=cp.file, line=cp.node.lineno, qualname="Content.parse", construct=f"uncovered markup classes {missing}", message=f"text followed by {missing or 'markup'} does not take that markup's left marker as its right trim", what=what)


def check_freshness_equality(prog: Program, res: Result, rule: str) -> None:
    """A file-backed template is fresh iff the modification time recorded when it was loaded EQUALS the file's current one
    (C14.R3 = C09.R9): `>=` treats a source replaced by an older file (rollback, cp -p, rsync -t) as unchanged."""
    # freshness of file-backed templates: equality of the recorded and the current mtime
    n_up = 0
    for cinfo in prog.subclasses("liquid2.loader.BaseLoader"):
        for nm, m in cinfo.methods.items():
            if not nm.startswith("_uptodate"):
                continue
            n_up += 1
            cmps = [c for c in ast.walk(m.node) if isinstance(c, ast.Compare)]
            what = f"{cinfo.name}.{nm}: fresh iff recorded mtime == current st_mtime"
            from sa import twins as _tw

            sync_nm = _tw.strip_async_name(nm)
            if sync_nm != nm and sync_nm in cinfo.methods and _tw.is_default_delegation(m.node, sync_nm):
                res.ok(rule, f"{m.file}:{m.node.lineno} {cinfo.name}.{nm}", what, f"runs {cinfo.name}.{sync_nm} in an executor with the same arguments")
                continue
            # a missing file is stale (the reload then reports it): the only other exit allowed is `return False` in an OSError handler
            handlers = [h for h in ast.walk(m.node) if isinstance(h, ast.ExceptHandler)]
            if any(not (h.type is not None and len(h.body) == 1 and isinstance(h.body[0], ast.Return) and isinstance(h.body[0].value, ast.Constant) and h.body[0].value.value is False) for h in handlers):
                res.fail(rule, file=m.file, line=m.node.lineno, qualname=f"{cinfo.name}.{nm}", construct=f"{nm} swallows an error as fresh", message="the freshness test handles an error by reporting anything other than 'stale': a vanished or unreadable source keeps being served from the cache", what=what)
                continue
            cmps = [c for c in cmps if "st_mtime" in norm(c, 200)]  # other comparisons (is the file found still the first match?) can only add `return False` exits
            other_true = [r for r in ast.walk(m.node) if isinstance(r, ast.Return) and isinstance(r.value, ast.Constant) and r.value.value is True]
            if len(cmps) == 1 and not other_true and len(cmps[0].ops) == 1 and isinstance(cmps[0].ops[0], ast.Eq) and "st_mtime" in norm(cmps[0]) and "mtime" in norm(cmps[0].left):
                res.ok(rule, f"{m.file}:{m.node.lineno} {cinfo.name}.{nm}", what, norm(cmps[0]))
            else:
                res.fail(rule, file=m.file, line=m.node.lineno, qualname=f"{cinfo.name}.{nm}", construct=f"{nm} comparison {[norm(c) for c in cmps]}", message="the freshness test is not an equality of modification times: a source replaced by an older file (rollback, cp -p, rsync -t) is treated as unchanged and the stale template keeps being served", what=what)
    res.floor(rule, "_uptodate implementations", n_up, 2)


def check_parser_trim_threading(prog: Program, res: Result, rule: str) -> None:
    """Parser.parse and Parser.parse_block thread the trim carry identically (C18.R3 = C01.R10): same arms; a markup arm takes
    left_trim from the LAST marker of the token (`wc[-1]`: a raw token has four); text resets it; the tag arm stores the carry
    before dispatch and reads it after."""
    parser = prog.cls("liquid2.parser.Parser")
    pa, pb = parser.methods.get("parse"), parser.methods.get("parse_block")
    if pa is None or pb is None:
        raise AnalysisError("Parser.parse / parse_block vanished")

    def arms(fn: ast.FunctionDef) -> dict[str, list[str]]:
        loop = next((n for n in ast.walk(fn) if isinstance(n, ast.While)), None)
        if loop is None:
            raise AnalysisError(f"no loop in {fn.name}")
        out: dict[str, list[str]] = {}
        node: ast.AST | None = next((s for s in loop.body if isinstance(s, ast.If)), None)
        while isinstance(node, ast.If):
            body = [norm(s, 300) for s in node.body if not (isinstance(s, ast.If) and "in end" in norm(s.test))]
            out[norm(node.test)] = body
            node = node.orelse[0] if len(node.orelse) == 1 and isinstance(node.orelse[0], ast.If) else None
        tail = [norm(s, 300) for s in loop.body if not isinstance(s, ast.If)]
        out["<loop tail>"] = tail
        return out

    aa, ab = arms(pa.node), arms(pb.node)
    for key in sorted(set(aa) | set(ab)):
        what = f"arm `{key}` identical in parse and parse_block"
        if aa.get(key) == ab.get(key):
            res.ok(rule, f"{parser.file}:{pa.node.lineno} Parser.parse/parse_block", what, "; ".join(aa[key])[:120])
        else:
            res.fail(rule, file=parser.file, line=pb.node.lineno, qualname="Parser.parse_block", construct=f"arm {key}: parse={aa.get(key)} parse_block={ab.get(key)}", message=f"the two parser loops disagree in arm `{key}`: text inside a block is trimmed differently from top-level text", what=what)
    # arm contents
    for fn, arm in ((pa, aa), (pb, ab)):
        for key, body in arm.items():
            if key == "<loop tail>" or "EOI" in key:
                continue
            what = f"{fn.name}: arm `{key}` threads the carry"
            if "is_content_token" in key:
                # after text only more text can follow without setting the carry: nothing is trimmed between two pieces of text
                ok = any("left_trim=left_trim" in s for s in body) and "left_trim = WhitespaceControl.PLUS" in body
            elif "is_tag_token" in key:
                ok = body and body[0] == "stream.trim_carry = token.wc[-1]" and body[-1] == "left_trim = stream.trim_carry"
            elif key.startswith("is_"):
                ok = "left_trim = token.wc[-1]" in body
            else:
                continue
            if ok:
                res.ok(rule, f"{parser.file}:{fn.node.lineno} Parser.{fn.name}", what, "; ".join(body)[:100])
            else:
                res.fail(rule, file=parser.file, line=fn.node.lineno, qualname=f"Parser.{fn.name}", construct=f"{fn.name} arm {key}: {body}", message=f"arm `{key}` does not hand the right-hand marker of this markup to the next text", what=what)
    # initial left trim
    what = "parse starts from env.default_trim, parse_block from stream.trim_carry"
    ia = [norm(s) for s in pa.node.body if isinstance(s, ast.Assign) and norm(s.targets[0]) == "left_trim"]
    ib = [norm(s) for s in pb.node.body if isinstance(s, ast.Assign) and norm(s.targets[0]) == "left_trim"]
    if len(ia) == 1 and ia[0].endswith("default_trim") and ib == ["left_trim = stream.trim_carry"]:
        res.ok(rule, f"{parser.file}:{pa.node.lineno} Parser", what, "declared difference only")
    else:
        res.fail(rule, file=parser.file, line=pb.node.lineno, qualname="Parser.parse_block", construct=f"initial left_trim parse={ia} parse_block={ib}", message="the first text of a block does not take its left trim from the tag that opened the block", what=what)


def check_render_for_item_isolation(prog: Program, res: Result, rule: str) -> None:
    """`render … for`: the isolated context is re-created for every item (C07.R8 = C01.R14)."""
    from sa.report import AnalysisError
    from sa.srcmodel import root_name

    rn = prog.cls("liquid2.builtin.tags.render_tag.RenderNode")
    n_loop_renders = 0
    for nm in ("render_to_output", "render_to_output_async"):
        m = rn.methods.get(nm)
        if m is None:
            raise AnalysisError(f"RenderNode.{nm} vanished")
        for loop in [x for x in ast.walk(m.node) if isinstance(x, (ast.For, ast.AsyncFor, ast.While))]:
            calls = [c for c in ast.walk(loop) if isinstance(c, ast.Call) and isinstance(c.func, ast.Attribute) and c.func.attr in ("render_with_context", "render_with_context_async")]
            for c in calls:
                n_loop_renders += 1
                ctx_arg = c.args[0] if c.args else None
                what = f"RenderNode.{nm}: `{norm(c, 60)}` in the item loop renders with a context created in that iteration"
                fresh = False
                if isinstance(ctx_arg, ast.Name):
                    # last statement-level assignment to the name that precedes the call inside the loop body
                    for st in loop.body:
                        if st.lineno > c.lineno:
                            break
                        if isinstance(st, ast.Assign) and any(isinstance(t, ast.Name) and t.id == ctx_arg.id for t in st.targets):
                            v = st.value
                            fresh = isinstance(v, ast.Call) and isinstance(v.func, ast.Attribute) and v.func.attr == "copy" and root_name(v.func.value) == "context"
                elif isinstance(ctx_arg, ast.Call) and isinstance(ctx_arg.func, ast.Attribute) and ctx_arg.func.attr == "copy":
                    fresh = True
                if fresh:
                    res.ok(rule, f"{m.file}:{c.lineno} RenderNode.{nm}", what, "context.copy(...) at the top level of the loop body")
                else:
                    res.fail(rule, file=m.file, line=c.lineno, qualname=f"RenderNode.{nm}", construct=f"{nm}: item loop reuses `{norm(ctx_arg) if ctx_arg is not None else '?'}`", message=f"the item loop of `render … for` renders every item with the same copied context `{norm(ctx_arg) if ctx_arg is not None else '?'}`: locals, counters and macros the partial creates for one item are visible to the next", what=what)
    res.floor(rule, "render_with_context calls inside item loops", n_loop_renders, 2)


def check_uptodate_is_bool(prog: Program, res: Result, rule: str) -> None:
    """Template.is_up_to_date treats anything but a real bool from uptodate() as stale (C14.R3 = C09.R11): the coroutine of an async uptodate called from the sync path is truthy."""
    from sa.report import AnalysisError
    from sa.util import guarded_by_test

    # Template.is_up_to_date: anything but a real bool from uptodate() counts as stale (an async uptodate called from the sync path returns a coroutine object)
    tm = prog.cls("liquid2.template.Template").methods.get("is_up_to_date")
    if tm is None:
        raise AnalysisError("Template.is_up_to_date vanished")
    tcfg = CFG(tm.node)
    what = "Template.is_up_to_date returns the uptodate() result only after checking it is a bool; otherwise stale"
    rets = [n for n in tcfg.nodes if n.kind == "stmt" and isinstance(n.node, ast.Return) and isinstance(n.node.value, ast.Name)]

    ok = bool(rets)
    for r in rets:
        v = r.node.value.id
        g = guarded_by_test(tcfg, r, lambda e, v=v: (True if norm(e) == f"not isinstance({v}, bool)" else (False if norm(e) == f"isinstance({v}, bool)" else None)))
        if g is None:
            ok = False
    if any(isinstance(n.node, ast.Return) and isinstance(n.node.value, ast.Call) and norm(n.node.value.func) in ("bool",) for n in tcfg.nodes if n.kind == "stmt"):
        ok = False
    if ok:
        res.ok(rule, f"{tm.file}:{tm.node.lineno} Template.is_up_to_date", what, "isinstance(_, bool) guard dominates the return")
    else:
        res.fail(rule, file=tm.file, line=tm.node.lineno, qualname="Template.is_up_to_date", construct="is_up_to_date returns a non-bool-checked value", message="a non-bool uptodate() result (e.g. the coroutine of an async uptodate called from the sync path) is treated as fresh: a template loaded asynchronously is never reloaded by the sync path", what=what)


def check_globals_merged(prog: Program, res: Result, rule: str) -> None:
    """Environment.from_string / get_template[_async] hand the loader self.make_globals(globals): the environment globals are part of the data of every template, cached or not (C10.R2 = C16.R11)."""
    from sa.report import AnalysisError

    env = prog.cls("liquid2.environment.Environment")
    # from_string / get_template route globals through make_globals; Template.__init__ stores them
    for name in ("from_string", "get_template", "get_template_async"):
        m = env.methods.get(name)
        if m is None:
            raise AnalysisError(f"Environment.{name} vanished")
        what = f"Environment.{name} passes self.make_globals(globals)"
        if "self.make_globals(globals)" in norm(m.node, 5000):
            res.ok(rule, f"{m.file}:{m.node.lineno} Environment.{name}", what, "globals merged with environment globals")
        else:
            res.fail(rule, file=m.file, line=m.node.lineno, qualname=f"Environment.{name}", construct=f"{name} does not call make_globals", message="template globals bypass the environment-globals merge", what=what)


def check_no_text_normalisation(prog: Program, res: Result, rule: str) -> None:
    """Template text is taken as written: no Unicode normalisation or case folding of names, paths or literals anywhere in liquid2
    (C10.R7 = C17.R13 = C20.R8). `unicodedata.normalize` at a binding site makes `assign é` (decomposed) bind a name the
    lookup, which reads the token as written, never finds; in the lexer it makes a token's value shorter than the text it spans;
    on a path segment it makes `a["e\\u0301"]` read another key than the one written. Expected count: zero (who-may-call rule)."""
    probe = ast.parse("import unicodedata\nx = unicodedata.normalize('NFC', name)\ny = name.casefold()")
    def hits(tree: ast.AST) -> list[ast.AST]:
        out: list[ast.AST] = []
        for n in ast.walk(tree):
            if isinstance(n, (ast.Import, ast.ImportFrom)) and any((a.name or "").split(".")[0] == "unicodedata" for a in n.names) or (isinstance(n, ast.ImportFrom) and (n.module or "") == "unicodedata"):
                out.append(n)
            elif isinstance(n, ast.Call) and isinstance(n.func, ast.Attribute) and n.func.attr in ("normalize", "casefold") and (n.func.attr == "casefold" or "unicodedata" in ast.unparse(n.func.value)):
                out.append(n)
            elif isinstance(n, ast.Call) and isinstance(n.func, ast.Name) and n.func.id == "normalize" and n.args and isinstance(n.args[0], ast.Constant) and str(n.args[0].value).upper() in ("NFC", "NFD", "NFKC", "NFKD"):
                out.append(n)
        return out

    if len(hits(probe)) != 3:
        raise AnalysisError(f"{rule}: matcher self-check failed")
    n_mod = 0
    for mod in sorted(prog.modules.values(), key=lambda m: m.relpath):
        n_mod += 1
        for h in hits(mod.tree):
            fi = prog.enclosing_function(mod, h)
            res.fail(rule, file=mod.relpath, line=h.lineno, qualname=fi.qualname if fi else "<module>", construct=f"{mod.relpath}: Unicode normalisation / case folding ({norm(h, 50)})", message=f"`{norm(h, 60)}` normalises template text: names, path segments and literals must stay as written - a binding site that normalises and a lookup that does not disagree on the name, a normalised token value is shorter than the text it spans, and a normalised literal is not the string that was written", what="no Unicode normalisation in liquid2")
    res.ok(rule, "liquid2/**", f"{n_mod} modules: unicodedata is not imported and nothing is case-folded", "who-may-call rule with expected count zero; matcher checked on a positive example")
    res.floor(rule, "modules scanned for text normalisation", n_mod, 60)


def check_no_self_stores(prog: Program, res: Result, rule: str, bases: tuple[str, ...], what_for: str, floor: int) -> None:
    """No method other than __init__/__new__/__setstate__ of the given class families stores to an attribute of self.
    AST nodes are shared by every render of a template (and by every call of a macro); a Template is shared by every caller of a
    caching loader, which rebinds its global_data on a hit - anything a method memoises on the instance is read back in another
    render, with another macro table, or with another caller's globals."""
    n = 0
    seen: set[str] = set()
    for base in bases:
        for ci in prog.subclasses(base):
            if ci.full in seen:
                continue
            seen.add(ci.full)
            for m in ci.methods.values():
                if m.name in ("__init__", "__new__", "__setstate__", "__init_subclass__"):
                    continue
                n += 1
                for st in ast.walk(m.node):
                    tgts = st.targets if isinstance(st, ast.Assign) else ([st.target] if isinstance(st, (ast.AugAssign, ast.AnnAssign)) and getattr(st, "value", None) is not None else [])
                    for t in tgts:
                        for x in ast.walk(t) if isinstance(t, (ast.Tuple, ast.List)) else [t]:
                            if isinstance(x, ast.Attribute) and isinstance(x.value, ast.Name) and x.value.id == "self" and prog.enclosing_function(m.module, st) is m:
                                res.fail(rule, file=m.file, line=st.lineno, qualname=m.qualname, construct=f"{m.qualname} stores self.{x.attr} after construction", message=f"{m.qualname} stores `self.{x.attr}` outside the constructor: {what_for}", what=f"{ci.name}: no attribute is stored after construction")
    res.ok(rule, "liquid2/**", f"{n} methods of {len(seen)} classes: no store to self outside construction", "assignment targets scanned (findings listed separately if any)")
    res.floor(rule, "methods scanned for stores to self", n, floor)


def check_env_globals_merge_shape(prog: Program, res: Result, rule: str) -> None:
    """Environment.make_globals merges the environment's globals and the template's as they are: `{**self.globals, **globals}` (or a
    plain copy of self.globals) - no entry is filtered out on the way (a nil-valued global that is dropped becomes an undefined)."""
    env = prog.cls("liquid2.environment.Environment")
    emg = env.methods.get("make_globals")
    if emg is None:
        raise AnalysisError("Environment.make_globals vanished")
    rets = [r.value for r in ast.walk(emg.node) if isinstance(r, ast.Return) and r.value is not None]
    what = "Environment.make_globals returns {**self.globals, **globals} (or a copy of self.globals): every entry of both, whatever its value"
    merged = [r for r in rets if isinstance(r, ast.Dict) and all(k is None for k in r.keys)]
    ok = len(merged) == 1 and [norm(v) for v in merged[0].values] == ["self.globals", "globals"] and all(isinstance(r, ast.Dict) or norm(r) == "dict(self.globals)" for r in rets)
    if ok:
        res.ok(rule, f"{emg.file}:{emg.node.lineno} Environment.make_globals", what, "plain merge")
    else:
        res.fail(rule, file=emg.file, line=emg.node.lineno, qualname="Environment.make_globals", construct=f"Environment.make_globals returns {[norm(r, 60) for r in rets]}", message="the environment/template globals are filtered or transformed while they are merged: a variable that exists in the data with value nil (or any filtered value) is missing from the scope - undefined under a strict policy although it exists", what=what)


# ---------------------------------------------------------------------------------------------------------------------------------
# `unless` is `if` with the first test negated - and nothing else (sibling agreement, Engler: functions in the same slot must agree)
# ---------------------------------------------------------------------------------------------------------------------------------
class _UnlessAsIf(ast.NodeTransformer):
    """Spell the unless classes, tag names and end markers as their `if` counterparts; constructor calls of liquid2 classes get
    their arguments by keyword (so `BlockNode(tok, nodes)` and `BlockNode(token=tok, nodes=nodes)` are one call)."""

    def __init__(self, prog: Program, renames: tuple[tuple[str, str], ...] = (("Unless", "If"), ("unless", "if"))) -> None:
        self.prog = prog
        self.renames = renames

    def _r(self, text: str) -> str:
        for a, b in self.renames:
            text = text.replace(a, b)
        return text

    def visit_Name(self, node: ast.Name) -> ast.AST:
        node.id = self._r(node.id)
        return node

    def visit_Attribute(self, node: ast.Attribute) -> ast.AST:
        self.generic_visit(node)
        node.attr = self._r(node.attr)
        return node

    def visit_Constant(self, node: ast.Constant) -> ast.AST:
        if isinstance(node.value, str):
            node.value = self._r(node.value)
        return node

    def visit_Call(self, node: ast.Call) -> ast.AST:
        self.generic_visit(node)
        if isinstance(node.func, ast.Name) and node.func.id in ("BlockNode", "ConditionalBlockNode", "IfNode"):
            ci = next((c for m in self.prog.modules.values() for c in m.classes.values() if c.name == node.func.id), None)
            init = ci.methods.get("__init__") if ci is not None else None
            if init is not None:
                params = [a.arg for a in init.node.args.args][1:]
                if len(node.args) <= len(params) and not any(isinstance(a, ast.Starred) for a in node.args):
                    kws = [ast.keyword(arg=params[i], value=a) for i, a in enumerate(node.args)] + list(node.keywords)
                    node.args = []
                    node.keywords = sorted(kws, key=lambda k: k.arg or "")
        return node


def check_unless_mirrors_if(prog: Program, res: Result, rule: str, *, only: tuple[str, ...] | None = None) -> None:
    """UnlessNode / UnlessTag against IfNode / IfTag, method by method (the rule text is registered by the caller)."""
    from sa.twins import diff_functions
    from sa.twins import normalise

    um, im = prog.mod("liquid2/builtin/tags/unless_tag.py"), prog.mod("liquid2/builtin/tags/if_tag.py")
    n = 0
    for ucls, icls in (("UnlessNode", "IfNode"), ("UnlessTag", "IfTag")):
        uc, ic = um.classes.get(ucls), im.classes.get(icls)
        if uc is None or ic is None:
            raise AnalysisError(f"{ucls} / {icls} vanished")
        for name in sorted(set(uc.methods) | set(ic.methods)):
            if only is not None and name not in only:
                continue
            uf, if_ = uc.methods.get(name), ic.methods.get(name)
            what = f"{ucls}.{name} is {icls}.{name} with the first test negated"
            if uf is None or if_ is None:
                have, lack = (ucls, icls) if uf is not None else (icls, ucls)
                fi = uf or if_
                res.fail(rule, file=fi.file, line=fi.node.lineno, qualname=fi.qualname, construct=f"{have}.{name} has no counterpart in {lack}", message=f"{have} defines {name} and {lack} does not: the two tags differ by the negation of the first condition only, so one of them treats its blocks differently", what=what)
                continue
            n += 1
            ut = _UnlessAsIf(prog).visit(copy.deepcopy(uf.node))
            it = _UnlessAsIf(prog).visit(copy.deepcopy(if_.node))
            # the one intended difference: `if not <cond>` in the render methods
            if name.startswith("render_to_output"):
                for x in ast.walk(ut):
                    if isinstance(x, ast.If) and isinstance(x.test, ast.UnaryOp) and isinstance(x.test.op, ast.Not):
                        x.test = x.test.operand
                        break
            un, in_ = normalise(ut), normalise(it)
            # statements before the first compound statement commute when they are independent: compare them as a set
            def _split(fn: ast.FunctionDef) -> tuple[list[str], list[ast.stmt]]:
                head: list[str] = []
                i = 0
                while i < len(fn.body) and not isinstance(fn.body[i], (ast.While, ast.For, ast.With, ast.Try)):
                    head.append(ast.dump(fn.body[i]))
                    i += 1
                return sorted(head), fn.body[i:]

            hu, tu = _split(un)
            hi, ti = _split(in_)
            problems: list[str] = []
            if hu != hi:
                a_only = [x for x in un.body if ast.dump(x) in set(hu) - set(hi)]
                b_only = [x for x in in_.body if ast.dump(x) in set(hi) - set(hu)]
                problems.append(f"`{norm(a_only[0], 80) if a_only else '<nothing>'}` vs `{norm(b_only[0], 80) if b_only else '<nothing>'}`")
            fu, fi2 = copy.copy(un), copy.copy(in_)
            fu.body, fi2.body = tu or [ast.Pass()], ti or [ast.Pass()]
            for d in diff_functions(fu, fi2):
                problems.append(f"`{d.sync_text[:80]}` vs `{d.async_text[:80]}`")
            site = f"{uf.file}:{uf.node.lineno} {uf.qualname}"
            if problems:
                res.fail(rule, file=uf.file, line=uf.node.lineno, qualname=uf.qualname, construct=f"{ucls}.{name} differs from {icls}.{name}", message=f"{ucls}.{name} and {icls}.{name} differ beyond the negated first test: {problems[0]} ({len(problems)} difference(s)) - `unless` parses, prints, reports or renders its blocks differently from `if`", what=what)
            else:
                res.ok(rule, site, what, "equal after renaming, keyword-normalised constructor calls and one stripped `not`")
    res.floor(rule, "unless/if method pairs", n, 5 if only is None else 1)


def check_source_presence_by_key(prog: Program, res: Result, rule: str) -> None:
    """A loader decides 'no such template' from the failed lookup (KeyError, `is None`, a missing file), never from the truth value
    of the source text: the empty string is a template - the root of an inheritance chain may well be empty."""
    n = 0
    for mod in prog.modules.values():
        if not (mod.relpath.startswith("liquid2/builtin/loaders/") or mod.relpath == "liquid2/loader.py"):
            continue
        for f in mod.functions.values():
            if f.name not in ("get_source", "get_source_async", "load", "load_async"):
                continue
            n += 1
            looked: dict[str, ast.AST] = {}
            for a in ast.walk(f.node):
                if isinstance(a, ast.Assign) and len(a.targets) == 1:
                    v = a.value.value if isinstance(a.value, ast.Await) else a.value
                    tgt = a.targets[0]
                    names = [tgt.id] if isinstance(tgt, ast.Name) else ([e.id for e in tgt.elts[:1] if isinstance(e, ast.Name)] if isinstance(tgt, ast.Tuple) else [])
                    is_lookup = (isinstance(v, ast.Subscript) and not isinstance(v.slice, ast.Slice)) or (isinstance(v, ast.Call) and isinstance(v.func, ast.Attribute) and v.func.attr in ("get", "pop", "read", "read_text", "get_source", "get_source_async"))
                    if is_lookup:
                        for nm in names:
                            looked[nm] = v
            bad = None
            for t in ast.walk(f.node):
                test = t.test if isinstance(t, (ast.If, ast.IfExp, ast.While)) else None
                if test is None:
                    continue
                for x in ast.walk(test):
                    if isinstance(x, ast.BoolOp):
                        ops = x.values
                    elif x is test:
                        ops = [x]
                    else:
                        continue
                    for o in ops:
                        o2 = o.operand if isinstance(o, ast.UnaryOp) and isinstance(o.op, ast.Not) else o
                        if isinstance(o2, ast.Name) and o2.id in looked:
                            bad = (t, norm(test, 60), o2.id)
                        if isinstance(o2, ast.Compare) and isinstance(o2.left, ast.Name) and o2.left.id in looked and isinstance(o2.ops[0], (ast.Eq, ast.NotEq)) and isinstance(o2.comparators[0], ast.Constant) and o2.comparators[0].value == "":
                            bad = (t, norm(test, 60), o2.left.id)
            site = f"{f.file}:{f.node.lineno} {f.qualname}"
            what = f"{f.qualname}: no truth test on the source text it found"
            if bad:
                res.fail(rule, file=f.file, line=bad[0].lineno, qualname=f.qualname, construct=f"{f.qualname}: truth test on the looked-up source `{bad[2]}`", message=f"{f.qualname} tests `{bad[1]}` on the source it looked up: a template whose text is the empty string is reported as not found - a chain whose root parent is '' raises TemplateNotFoundError instead of rendering the blocks", what=what)
            else:
                res.ok(rule, site, what, f"{len(looked)} looked-up value(s), none tested for truth")
    res.floor(rule, "loader source functions", n, 10)


def check_children_not_partial_gated(prog: Program, res: Result, rule: str) -> None:
    """`include_partials=False` hides what a node *loads* (another template's nodes), never what it *holds*: a children[_async]()
    that yields one of its own fields only `if include_partials` makes the blocks written inside that tag invisible to the
    inheritance walk (`_find_inheritance_nodes(..., include_partials=False)`), which then resolves blocks as if they were not there."""
    node = prog.cls("liquid2.ast.Node")
    n = 0
    for fi in sorted(prog.all_functions(), key=lambda f: (f.file, f.node.lineno)):
        if fi.cls is None or not prog.is_subclass(fi.cls, node) or fi.name not in ("children", "children_async"):
            continue
        n += 1
        bad = None
        for i in ast.walk(fi.node):
            if not (isinstance(i, (ast.If, ast.IfExp)) and "include_partials" in {x.id for x in ast.walk(i.test) if isinstance(x, ast.Name)}):
                continue
            arms = (i.body + i.orelse) if isinstance(i, ast.If) else [i.body, i.orelse]
            for b in arms:
                for y in ast.walk(b):
                    v = y.value if isinstance(y, (ast.Yield, ast.YieldFrom, ast.Return)) else None
                    if v is None:
                        continue
                    vals = list(v.elts) if isinstance(v, (ast.List, ast.Tuple)) else [v]
                    own = []
                    for e in vals:
                        e = e.value if isinstance(e, ast.Starred) else e
                        base = e
                        while isinstance(base, (ast.Attribute, ast.Subscript)):
                            base = base.value
                        if isinstance(e, (ast.Attribute, ast.Subscript)) and isinstance(base, ast.Name) and base.id == "self":
                            own.append(e)
                    if own:
                        bad = (y, norm(own[0]))
        site = f"{fi.file}:{fi.node.lineno} {fi.qualname}"
        what = f"{fi.qualname}: the node's own blocks are children whatever include_partials says"
        if bad:
            res.fail(rule, file=fi.file, line=bad[0].lineno, qualname=fi.qualname, construct=f"{fi.qualname}: own field `{bad[1]}` is a child only if include_partials", message=f"{fi.qualname} hands out `{bad[1]}` only when include_partials is true: the inheritance walk runs with include_partials=False, so a `block` or `extends` written inside this tag is not found - the override is ignored, block.super skips a level, and a duplicate or required block goes unnoticed", what=what)
        else:
            res.ok(rule, site, what, "only loaded templates are gated")
    res.floor(rule, "children overrides", n, 20)


def check_loader_ctor_forwarding(prog: Program, res: Result, rule: str) -> None:
    """What a caller configures on a loader reaches the class that implements it: every parameter of a loader's __init__ that one of
    its base classes' __init__ also takes is handed to a base initialiser as the bare name (not dropped, not recomputed), and every
    other parameter is read somewhere in the body."""
    n = 0
    for mod in sorted(prog.modules.values(), key=lambda m: m.relpath):
        if not (mod.relpath.startswith("liquid2/builtin/loaders/") or mod.relpath == "liquid2/loader.py"):
            continue
        for ci in mod.classes.values():
            init = ci.methods.get("__init__")
            if init is None:
                continue
            params = [a.arg for a in init.node.args.posonlyargs + init.node.args.args + init.node.args.kwonlyargs if a.arg != "self"]
            base_params: dict[str, str] = {}
            for b in prog.mro(ci)[1:]:
                bi = b.methods.get("__init__")
                if bi is not None:
                    for a in bi.node.args.posonlyargs + bi.node.args.args + bi.node.args.kwonlyargs:
                        if a.arg != "self":
                            base_params.setdefault(a.arg, b.name)
            init_calls = [c for c in ast.walk(init.node) if isinstance(c, ast.Call) and isinstance(c.func, ast.Attribute) and c.func.attr == "__init__"]
            forwarded: dict[str, ast.AST] = {}
            for c in init_calls:
                callee_params: list[str] = []
                if isinstance(c.func.value, ast.Name):
                    bc = next((b for b in prog.mro(ci)[1:] if b.name == c.func.value.id), None)
                    if bc is not None and "__init__" in bc.methods:
                        callee_params = [a.arg for a in bc.methods["__init__"].node.args.args]  # includes self, matching the explicit self argument
                for i, a in enumerate(c.args):
                    if i < len(callee_params):
                        forwarded[callee_params[i]] = a
                    elif isinstance(a, ast.Name):
                        forwarded.setdefault(a.id, a)
                for k in c.keywords:
                    if k.arg:
                        forwarded[k.arg] = k.value
            read = {x.id for x in ast.walk(init.node) if isinstance(x, ast.Name) and isinstance(x.ctx, ast.Load)}
            for p in params:
                n += 1
                site = f"{ci.file}:{init.node.lineno} {ci.name}.__init__"
                what = f"{ci.name}.__init__: `{p}` reaches the class that implements it unchanged"
                if p in base_params and init_calls:
                    v = forwarded.get(p)
                    if v is None:
                        res.fail(rule, file=ci.file, line=init.node.lineno, qualname=f"{ci.name}.__init__", construct=f"{ci.name}.__init__: `{p}` is not handed to {base_params[p]}.__init__", message=f"{ci.name}.__init__ accepts `{p}` but does not pass it to {base_params[p]}.__init__, which implements it: the loader silently runs with the default (cache keys without the namespace, another capacity, no reload checks)", what=what)
                    elif not (isinstance(v, ast.Name) and v.id == p):
                        res.fail(rule, file=ci.file, line=v.lineno, qualname=f"{ci.name}.__init__", construct=f"{ci.name}.__init__: `{p}` is recomputed on its way to {base_params[p]}.__init__", message=f"{ci.name}.__init__ passes `{norm(v, 50)}` for `{p}` to {base_params[p]}.__init__: the configured value is replaced (a capacity that grows with the number of templates never evicts, so stale entries that a cache of the requested size would have re-read are served)", what=what)
                    else:
                        res.ok(rule, site, what, f"passed as `{p}` to {base_params[p]}.__init__")
                elif p not in read:
                    res.fail(rule, file=ci.file, line=init.node.lineno, qualname=f"{ci.name}.__init__", construct=f"{ci.name}.__init__: `{p}` is never read", message=f"{ci.name}.__init__ accepts `{p}` and never uses it: the caller's setting has no effect", what=what)
                else:
                    res.ok(rule, site, what, "read in the constructor")
    res.floor(rule, "loader constructor parameters", n, 25)


def check_integer_exactness(prog: Program, res: Result, rule: str) -> None:
    """Integers are exact at any size: where a math filter knows both operands are ints, what it returns is one integer operator applied
    to the two operands themselves (`+ - * // %`) - never a value that went through float, true division or Decimal (53 bits / 28 digits)."""
    from checks.C15 import _path_condition

    mod = prog.mod("liquid2/builtin/filters/math.py")
    n = 0
    INT_OPS = (ast.Add, ast.Sub, ast.Mult, ast.FloorDiv, ast.Mod)

    def known_int(fi, node) -> set[str]:  # noqa: ANN001
        out: set[str] = set()

        def leaves(t: ast.expr, pol: bool) -> None:
            if isinstance(t, ast.UnaryOp) and isinstance(t.op, ast.Not):
                leaves(t.operand, not pol)
            elif isinstance(t, ast.BoolOp) and ((isinstance(t.op, ast.And) and pol) or (isinstance(t.op, ast.Or) and not pol)):
                for v in t.values:
                    leaves(v, pol)
            elif pol and isinstance(t, ast.Call) and isinstance(t.func, ast.Name) and t.func.id == "isinstance" and len(t.args) == 2 and isinstance(t.args[0], ast.Name) and norm(t.args[1]) == "int":
                out.add(t.args[0].id)

        for t, pol in _path_condition(fi.module, fi.node, node):
            leaves(t, pol)
        return out

    for fi in sorted(mod.functions.values(), key=lambda f: f.node.lineno):
        params = [a.arg for a in fi.node.args.args]
        if len(params) != 2:
            continue
        arith = [b for b in ast.walk(fi.node) if isinstance(b, ast.BinOp) and isinstance(b.op, (*INT_OPS, ast.Div))]
        if not arith:
            continue
        n += 1
        site = f"{fi.file}:{fi.node.lineno} {fi.qualname}"
        what = f"{fi.qualname}: two ints give the exact integer result"
        int_returns = [r for r in ast.walk(fi.node) if isinstance(r, ast.Return) and r.value is not None and set(params) <= known_int(fi, r)]
        if not int_returns:
            res.fail(rule, file=fi.file, line=fi.node.lineno, qualname=fi.qualname, construct=f"{fi.qualname}: no return under `isinstance({params[0]}, int) and isinstance({params[1]}, int)`", message=f"{fi.qualname} has no branch of its own for two integer operands: integers then share the float / Decimal path, exact to 53 bits or 28 digits only (`{{{{ 12345678901234567890123456789012345 | {fi.name.rstrip('_')}: 1 }}}}`)", what=what)
            continue
        bad = [r for r in int_returns if not (isinstance(r.value, ast.BinOp) and isinstance(r.value.op, INT_OPS) and isinstance(r.value.left, ast.Name) and isinstance(r.value.right, ast.Name) and {r.value.left.id, r.value.right.id} == set(params))]
        if bad:
            res.fail(rule, file=fi.file, line=bad[0].lineno, qualname=fi.qualname, construct=f"{fi.qualname}: the integer branch returns something else than an integer operator on the operands", message=f"{fi.qualname} returns `{norm(bad[0].value, 50)}` for two integer operands: a result converted from a float or a Decimal is exact to 53 bits / 28 digits only and truncates toward zero where `//` floors (`-9 | divided_by: 2`, `10**30 + 1 | plus: 0`)", what=what)
        else:
            res.ok(rule, site, what, f"`{norm(int_returns[0].value)}` under the two isinstance tests")
    res.floor(rule, "binary math filters", n, 5)


def check_loader_twins(prog: Program, res: Result, rule: str) -> None:
    """get_source / load and their *_async twins in liquid2/loader.py and the built-in loaders agree modulo await (= C13.R4)."""
    from sa import twins

    n = 0
    for fs, fa in twins.find_pairs(prog):
        if not (fa.module.relpath.startswith("liquid2/builtin/loaders/") or fa.module.relpath == "liquid2/loader.py"):
            continue
        n += 1
        site = f"{fa.file}:{fa.node.lineno} {fa.qualname}"
        what = f"{fa.qualname} == {fs.qualname} modulo await"
        if twins.is_default_delegation(fa.node, fs.name):
            res.ok(rule, site, what, "default delegation")
            continue
        diffs = twins.diff_functions(twins.normalise(fs.node), twins.normalise(fa.node))
        if not diffs:
            res.ok(rule, site, what, "identical after normalisation")
        else:
            d = diffs[0]
            res.fail(rule, file=fa.file, line=d.async_line or fa.node.lineno, qualname=fa.qualname, construct=f"{fa.qualname}: sync `{d.sync_text[:60]}` vs async `{d.async_text[:60]}`", message=f"{fa.qualname} differs from {fs.qualname}: sync does `{d.sync_text[:80]}`, async does `{d.async_text[:80]}` - a partial, parent or included template loaded on the async path can be another source than the one the sync path loads (a loader that routes on the `tag` / context arguments), so the two analyses and renders disagree", what=what)
    res.floor(rule, "loader twins", n, 8)


def check_cache_read_ownership(prog: Program, res: Result, rule: str) -> None:
    """Only CachingLoaderMixin reads its template cache: the hit path there is the one that compares the cached template's environment
    and freshness before handing it out. A `self.cache[...]` / `self.cache.get(...)` anywhere else returns templates past those tests."""
    mixin = prog.cls("liquid2.builtin.loaders.mixins.CachingLoaderMixin")
    inside = 0
    n = 0
    for fi in sorted(prog.all_functions(), key=lambda f: (f.file, f.node.lineno)):
        for x in ast.walk(fi.node):
            read = None
            if isinstance(x, ast.Subscript) and isinstance(x.ctx, ast.Load) and isinstance(x.value, ast.Attribute) and x.value.attr == "cache":
                read = x
            elif isinstance(x, ast.Call) and isinstance(x.func, ast.Attribute) and x.func.attr in ("get", "pop", "values", "items", "setdefault") and isinstance(x.func.value, ast.Attribute) and x.func.value.attr == "cache":
                read = x
            if read is None or prog.enclosing_function(fi.module, read) is not fi:
                continue
            n += 1
            if fi.cls is mixin:
                inside += 1
                continue
            res.fail(rule, file=fi.file, line=read.lineno, qualname=fi.qualname, construct=f"{fi.qualname}: reads the template cache outside CachingLoaderMixin", message=f"{fi.qualname} takes a template out of the cache with `{norm(read, 60)}`: the mixin's hit path (`_check_cache`) is where the cached template's environment and freshness are compared - a template cached by another Environment is handed out with that environment's limits, filters and escaping", what=f"{fi.qualname}: no cache read of its own")
    res.ok(rule, f"{mixin.file}:{mixin.node.lineno} CachingLoaderMixin", "the template cache is read only inside CachingLoaderMixin", f"{inside} read(s), all in the mixin")
    res.floor(rule, "cache reads in CachingLoaderMixin", inside, 2)


def _bool_fn(e: ast.AST, atoms: list[str]):  # noqa: ANN202
    """A propositional reading of *e*: and / or / not over atoms; `!=`, `not in`, `is not` are the negations of their positive forms."""
    if isinstance(e, ast.BoolOp):
        fs = [_bool_fn(v, atoms) for v in e.values]
        return (lambda env: all(f(env) for f in fs)) if isinstance(e.op, ast.And) else (lambda env: any(f(env) for f in fs))
    if isinstance(e, ast.UnaryOp) and isinstance(e.op, ast.Not):
        f = _bool_fn(e.operand, atoms)
        return lambda env: not f(env)
    if isinstance(e, ast.Compare) and len(e.ops) == 1 and isinstance(e.ops[0], (ast.NotEq, ast.NotIn, ast.IsNot)):
        pos = copy.deepcopy(e)
        pos.ops = [{ast.NotEq: ast.Eq, ast.NotIn: ast.In, ast.IsNot: ast.Is}[type(e.ops[0])]()]
        key = norm(pos, 300)
        if key not in atoms:
            atoms.append(key)
        return lambda env: not env[key]
    key = norm(e, 300)
    if key not in atoms:
        atoms.append(key)
    return lambda env: env[key]


def check_reject_complements_where(prog: Program, res: Result, rule: str) -> None:
    """`reject` keeps exactly the items `where` drops: branch by branch the condition of RejectFilter's comprehension is the negation of
    WhereFilter's (truth table over the shared atoms: is_undefined(r), is_truthy(r), `… == value`, `… in (False, None)`), over the same
    items. An item whose property is missing is undefined: `where` drops it, so `reject` keeps it - whatever the undefined policy."""
    import itertools

    mod = prog.mod("liquid2/builtin/filters/filtering_filters.py")
    w, r = mod.classes.get("WhereFilter"), mod.classes.get("RejectFilter")
    if w is None or r is None or "__call__" not in w.methods or "__call__" not in r.methods:
        raise AnalysisError("WhereFilter / RejectFilter.__call__ vanished")
    wf, rf = w.methods["__call__"], r.methods["__call__"]

    def comps(fi):  # noqa: ANN001, ANN202
        return [x.value for x in ast.walk(fi.node) if isinstance(x, ast.Return) and isinstance(x.value, ast.ListComp)]

    wc, rc = sorted(comps(wf), key=lambda c: c.lineno), sorted(comps(rf), key=lambda c: c.lineno)
    res.floor(rule, "comprehension returns of where", len(wc), 3)
    if len(wc) != len(rc):
        res.fail(rule, file=rf.file, line=rf.node.lineno, qualname=rf.qualname, construct="RejectFilter.__call__: not the same branches as WhereFilter.__call__", message=f"where has {len(wc)} filtering returns, reject has {len(rc)}: the two no longer partition the items case by case", what="reject mirrors where branch by branch")
        return
    for a, b in zip(wc, rc):
        site = f"{rf.file}:{b.lineno} {rf.qualname}"
        what = f"RejectFilter line {b.lineno}: keeps exactly what WhereFilter line {a.lineno} drops"
        if norm(a.elt) != norm(b.elt) or len(a.generators) != 1 or len(b.generators) != 1 or norm(a.generators[0].iter, 300) != norm(b.generators[0].iter, 300) or norm(a.generators[0].target) != norm(b.generators[0].target):
            res.fail(rule, file=rf.file, line=b.lineno, qualname=rf.qualname, construct=f"RejectFilter.__call__: branch {wc.index(a) + 1} iterates other items than where", message=f"reject iterates `{norm(b.generators[0].iter, 60)}` / yields `{norm(b.elt)}` where `where` uses `{norm(a.generators[0].iter, 60)}` / `{norm(a.elt)}`", what=what)
            continue
        atoms: list[str] = []
        fa = _bool_fn(ast.BoolOp(op=ast.And(), values=list(a.generators[0].ifs)) if len(a.generators[0].ifs) != 1 else a.generators[0].ifs[0], atoms)
        fb = _bool_fn(ast.BoolOp(op=ast.And(), values=list(b.generators[0].ifs)) if len(b.generators[0].ifs) != 1 else b.generators[0].ifs[0], atoms)
        bad = None
        for vals in itertools.product((False, True), repeat=len(atoms)):
            env = dict(zip(atoms, vals))
            if fa(env) == fb(env):
                bad = env
                break
        if bad is None:
            res.ok(rule, site, what, f"negation over {len(atoms)} atom(s): {', '.join(atoms)[:80]}")
        else:
            side = "both keep" if fa(bad) else "both drop"
            res.fail(rule, file=rf.file, line=b.lineno, qualname=rf.qualname, construct=f"RejectFilter.__call__: branch {wc.index(a) + 1} is not the complement of where", message=f"where keeps an item if `{norm(a.generators[0].ifs[0], 60)}`, reject if `{norm(b.generators[0].ifs[0], 60)}`: with {', '.join(f'{k}={v}' for k, v in bad.items())} {side} the item - an item whose property is missing (undefined, which behaves as nil) is neither selected nor rejected", what=what)


def check_load_hands_through(prog: Program, res: Result, rule: str, field: str) -> None:
    """BaseLoader.load[_async] hands what get_source() returned to Environment.from_string untouched. field='source': the text that is
    tokenized is the text the loader returned (offsets in tokens, spans and errors refer to it). field='matter': the loader's matter
    mapping - normally the caller's own dict, held by reference - is only passed on as overlay_data, never rewritten or handed to a helper."""
    base = prog.cls("liquid2.loader.BaseLoader")
    pos = {"source": 0, "matter": 3}[field]
    n = 0
    for nm in ("load", "load_async"):
        f = base.methods.get(nm)
        if f is None:
            raise AnalysisError(f"BaseLoader.{nm} vanished")
        unpack = next((a for a in ast.walk(f.node) if isinstance(a, ast.Assign) and isinstance(a.targets[0], ast.Tuple) and "get_source" in norm(a.value, 200)), None)
        if unpack is None or len(unpack.targets[0].elts) <= pos or not isinstance(unpack.targets[0].elts[pos], ast.Name):
            raise AnalysisError(f"BaseLoader.{nm}: `source, name, uptodate, matter = self.get_source(…)` not found")
        var = unpack.targets[0].elts[pos].id
        n += 1
        site = f"{f.file}:{f.node.lineno} BaseLoader.{nm}"
        what = f"BaseLoader.{nm}: `{var}` goes from get_source() to from_string() untouched"
        problems: list[tuple[int, str]] = []
        fs_calls = [c for c in ast.walk(f.node) if isinstance(c, ast.Call) and isinstance(c.func, ast.Attribute) and c.func.attr == "from_string"]
        if len(fs_calls) != 1:
            problems.append((f.node.lineno, f"{len(fs_calls)} from_string() calls"))
        else:
            c = fs_calls[0]
            arg = (c.args[0] if c.args else next((k.value for k in c.keywords if k.arg == "source"), None)) if field == "source" else next((k.value for k in c.keywords if k.arg == "overlay_data"), None)
            if not (isinstance(arg, ast.Name) and arg.id == var):
                problems.append((c.lineno, f"from_string() receives `{norm(arg, 50) if arg is not None else '<nothing>'}` instead of `{var}`"))
        for x in ast.walk(f.node):
            if isinstance(x, (ast.Assign, ast.AugAssign, ast.AnnAssign)) and x is not unpack:
                tg = x.targets if isinstance(x, ast.Assign) else [x.target]
                if any(isinstance(t, ast.Name) and t.id == var for t_ in tg for t in ast.walk(t_)):
                    problems.append((x.lineno, f"`{norm(x, 60)}` rebinds or writes `{var}`"))
            if isinstance(x, ast.Call) and not (fs_calls and x is fs_calls[0]):
                if any(isinstance(a, ast.Name) and a.id == var for a in list(x.args) + [k.value for k in x.keywords]) or (isinstance(x.func, ast.Attribute) and isinstance(x.func.value, ast.Name) and x.func.value.id == var):
                    problems.append((x.lineno, f"`{norm(x, 60)}` works on `{var}`"))
            if isinstance(x, ast.Delete) and any(isinstance(t, ast.Subscript) and isinstance(t.value, ast.Name) and t.value.id == var for t in x.targets):
                problems.append((x.lineno, f"`{norm(x, 60)}` deletes from `{var}`"))
        if problems:
            ln, p = problems[0]
            tail = "the template is tokenized from another text than the one the loader returned (a stripped BOM, a normalised line end): every offset in tokens, analysis spans and error positions is shifted against the loader's source" if field == "source" else "the matter mapping is the loader's (usually the caller's) own dict, held by reference: rewriting keys in place or handing it to a helper that does changes the data the caller passed in"
            res.fail(rule, file=f.file, line=ln, qualname=f"BaseLoader.{nm}", construct=f"BaseLoader.{nm}: the loader's {field} is not handed through untouched", message=f"BaseLoader.{nm}: {p} - {tail}", what=what)
        else:
            res.ok(rule, site, what, "unpacked once, passed once, never rebound or handed elsewhere")
    res.floor(rule, "BaseLoader load functions", n, 2)


def check_choice_loader_passthrough(prog: Program, res: Result, rule: str) -> None:
    """A choice loader answers with the delegate's TemplateSource itself: every return inside the delegate loop of
    ChoiceLoader.get_source[_async] is the (awaited) call of the delegate's get_source[_async] - rebuilding the tuple from some of its
    fields drops the others (the matter mapping: one layer of the lookup precedence)."""
    ci = prog.cls("liquid2.builtin.loaders.choice_loader.ChoiceLoader")
    n = 0
    for nm in ("get_source", "get_source_async"):
        f = ci.methods.get(nm)
        if f is None:
            raise AnalysisError(f"ChoiceLoader.{nm} vanished")
        loops = [lp for lp in ast.walk(f.node) if isinstance(lp, (ast.For, ast.AsyncFor))]
        rets = [r for lp in loops for r in ast.walk(lp) if isinstance(r, ast.Return)]
        site = f"{f.file}:{f.node.lineno} ChoiceLoader.{nm}"
        what = f"ChoiceLoader.{nm}: returns the delegate's TemplateSource itself"
        if not rets:
            res.fail(rule, file=f.file, line=f.node.lineno, qualname=f"ChoiceLoader.{nm}", construct=f"ChoiceLoader.{nm}: no return inside the delegate loop", message=f"ChoiceLoader.{nm} no longer returns from its loop over the delegates: not decided", what=what)
            continue
        for r in rets:
            n += 1
            v = r.value.value if isinstance(r.value, ast.Await) else r.value
            if isinstance(v, ast.Name):
                defs = [a.value for lp in loops for a in ast.walk(lp) if isinstance(a, ast.Assign) and any(isinstance(t, ast.Name) and t.id == v.id for t in a.targets)]
                v = (defs[0].value if isinstance(defs[0], ast.Await) else defs[0]) if len(defs) == 1 else v
            if isinstance(v, ast.Call) and isinstance(v.func, ast.Attribute) and v.func.attr in ("get_source", "get_source_async"):
                res.ok(rule, site, what, f"`{norm(r.value, 50)}`")
            else:
                res.fail(rule, file=f.file, line=r.lineno, qualname=f"ChoiceLoader.{nm}", construct=f"ChoiceLoader.{nm}: returns something else than the delegate's result", message=f"ChoiceLoader.{nm} returns `{norm(r.value, 60)}`: a TemplateSource rebuilt from part of the delegate's answer loses the rest - without `matter` a name bound in the template's matter resolves to the global below it", what=what)
    res.floor(rule, "delegate returns of ChoiceLoader", n, 2)


def check_no_lexical_path_normalisation(prog: Program, res: Result, rule: str) -> None:
    """Template names are refused or accepted as written: nothing in the loaders collapses `x/..`, `.` or symlinks before the name is
    guarded or used as a cache key (os.path.normpath / abspath / realpath, Path.resolve, PurePath normalisation via os.path)."""
    BAD = ("normpath", "abspath", "realpath", "resolve", "expanduser", "expandvars", "normcase")
    pos = ast.parse("def f(name):\n    import os\n    return os.path.normpath(name)\n")
    if not any(isinstance(c, ast.Call) and isinstance(c.func, ast.Attribute) and c.func.attr in BAD for c in ast.walk(pos)):
        raise AnalysisError(f"{rule}: positive example not matched")
    n = 0
    for mod in sorted(prog.modules.values(), key=lambda m: m.relpath):
        if not (mod.relpath.startswith("liquid2/builtin/loaders/") or mod.relpath == "liquid2/loader.py"):
            continue
        for fi in mod.functions.values():
            n += 1
            for c in ast.walk(fi.node):
                if isinstance(c, ast.Call) and ((isinstance(c.func, ast.Attribute) and c.func.attr in BAD) or (isinstance(c.func, ast.Name) and c.func.id in BAD)) and prog.enclosing_function(mod, c) is fi:
                    res.fail(rule, file=mod.relpath, line=c.lineno, qualname=fi.qualname, construct=f"{fi.qualname}: lexical path normalisation `{norm(c.func)}`", message=f"{fi.qualname} calls `{norm(c, 60)}`: a name such as `snippets/../main.html` becomes `main.html` before the parent-directory guard (or the cache) sees it, so a name with `..` segments is served instead of failing with TemplateNotFoundError", what=f"{fi.qualname}: names are used as written")
    res.ok(rule, "liquid2/loader.py, liquid2/builtin/loaders/*", "no loader function normalises a template name lexically", f"{n} functions; positive example matched")
    res.floor(rule, "loader functions scanned", n, 30)


def check_freshness_covers_search(prog: Program, res: Result, rule: str) -> None:
    """A source picked by *first match* over several candidates (search paths, delegate loaders) is fresh only while it is still the
    first match: the `uptodate` a loader hands out with such a source re-runs the pick (or is None: no freshness information).
    Otherwise a template that appears in an earlier candidate is never seen while the later one is cached and unchanged."""
    n = 0
    for mod in sorted(prog.modules.values(), key=lambda m: m.relpath):
        if not mod.relpath.startswith("liquid2/builtin/loaders/"):
            continue
        for ci in mod.classes.values():
            # first-match searches of this class: a loop over self.<candidates> with a return inside it
            searches: dict[str, str] = {}
            for mn, mf in [(mn_, mf_) for b_ in reversed(prog.mro(ci)) if b_.file.startswith("liquid2/builtin/loaders/") for mn_, mf_ in b_.methods.items()]:
                for lp in ast.walk(mf.node):
                    if isinstance(lp, (ast.For, ast.AsyncFor)) and isinstance(lp.iter, ast.Attribute) and isinstance(lp.iter.value, ast.Name) and lp.iter.value.id == "self" and any(isinstance(r, ast.Return) and r.value is not None for r in ast.walk(lp)):
                        searches[mn] = lp.iter.attr
            if not searches:
                continue

            def refs(fn_name: str, seen: set[str]) -> set[str]:
                """Methods of the class (own or inherited) that *fn_name* mentions, transitively."""
                if fn_name in seen:
                    return seen
                seen.add(fn_name)
                f_ = prog.find_method(ci, fn_name)
                if f_ is None:
                    return seen
                for x in ast.walk(f_.node):
                    if isinstance(x, ast.Attribute) and isinstance(x.value, ast.Name) and (x.value.id == "self" or x.value.id == ci.name or any(b.name == x.value.id for b in prog.mro(ci))) and prog.find_method(ci, x.attr) is not None:
                        refs(x.attr, seen)
                return seen

            for gs in ("get_source", "get_source_async"):
                f = prog.find_method(ci, gs)  # own or inherited: a subclass that overrides the freshness test is judged with the getter it inherits
                if f is None or (gs not in ci.methods and not any(m in ci.methods for m in refs(gs, set()))):
                    continue
                used = refs(gs, set()) & set(searches)
                if not used:
                    continue
                search = sorted(used)[0]
                n += 1
                site = f"{ci.file}:{f.node.lineno} {ci.name}.{gs}"
                what = f"{ci.name}.{gs}: the freshness test of a first-match source re-runs the match over self.{searches[search]}"
                if gs in searches:
                    # the method is the search itself: what it returns from the loop carries the delegate's freshness only
                    bad = None
                    for lp in ast.walk(f.node):
                        if isinstance(lp, (ast.For, ast.AsyncFor)):
                            for r in ast.walk(lp):
                                if isinstance(r, ast.Return) and r.value is not None:
                                    v = r.value.value if isinstance(r.value, ast.Await) else r.value
                                    if not (isinstance(v, ast.Call) and any(k.arg == "uptodate" for k in v.keywords)):
                                        bad = r
                    if bad is not None:
                        res.fail(rule, file=ci.file, line=bad.lineno, qualname=f"{ci.name}.{gs}", construct=f"{ci.name}.{gs}: first match over self.{searches[search]} returned with the delegate's freshness only", message=f"{ci.name}.{gs} returns `{norm(bad.value, 50)}` from its loop over self.{searches[search]}: the entry stays fresh as long as *that* delegate's source is unchanged, so a template of the same name that appears in an earlier delegate is not served while the later one is cached - the uncached loader serves it at once", what=what)
                    else:
                        res.ok(rule, site, what, "every return from the loop sets its own uptodate")
                    continue
                ts_calls = [c for c in ast.walk(f.node) if isinstance(c, ast.Call) and (dotted(c.func) or "").endswith("TemplateSource")]
                if not ts_calls:
                    res.fail(rule, file=ci.file, line=f.node.lineno, qualname=f"{ci.name}.{gs}", construct=f"{ci.name}.{gs}: no TemplateSource built", message=f"{ci.name}.{gs} uses the first-match search {search} but builds no TemplateSource: not decided", what=what)
                    continue
                for c in ts_calls:
                    up = c.args[2] if len(c.args) > 2 else next((k.value for k in c.keywords if k.arg == "uptodate"), None)
                    if up is None or (isinstance(up, ast.Constant) and up.value is None):
                        res.ok(rule, site, what, "uptodate is None: no freshness information")
                        continue
                    target = None
                    for x in ast.walk(up):
                        if isinstance(x, ast.Attribute) and isinstance(x.value, ast.Name) and x.value.id in ("self", ci.name) and prog.find_method(ci, x.attr) is not None:
                            target = x.attr
                            break
                    if target is not None and search in refs(target, set()):
                        res.ok(rule, site, what, f"{target} re-runs {search}")
                    else:
                        res.fail(rule, file=ci.file, line=c.lineno, qualname=f"{ci.name}.{gs}", construct=f"{ci.name}.{gs}: uptodate does not re-run {search}", message=f"{ci.name}.{gs} picks the first of self.{searches[search]} that has the name ({search}) and hands out `{norm(up, 50)}` as its freshness test, which looks at the file found only: a file of the same name created in an earlier search path is not served while the later one is cached and unchanged - the uncached loader serves it at once", what=what)
    res.floor(rule, "source getters over a first-match search", n, 4)


def check_decimal_remainder(prog: Program, res: Result, rule: str) -> None:
    """`%` and `//` on decimal.Decimal truncate (the result takes the sign of the dividend) while the same operators on int and float
    floor (the sign of the divisor). A math filter whose integer branch is `left % right` and whose float branch is a bare
    `Decimal(...) % Decimal(...)` computes two different functions for negative operands: `-5 | modulo: 3` is 1, `-5.0 | modulo: 3`
    is -2.0. The Decimal remainder must be corrected for the sign (or not be a Decimal remainder)."""
    mod = prog.mod("liquid2/builtin/filters/math.py")
    n = 0

    def is_decimal(e: ast.AST, fn: ast.AST | None = None) -> bool:
        if isinstance(e, ast.Name) and fn is not None:
            defs = [a.value for a in ast.walk(fn) if isinstance(a, ast.Assign) and any(isinstance(t, ast.Name) and t.id == e.id for t in a.targets)]
            return bool(defs) and all(is_decimal(d) for d in defs)
        return isinstance(e, ast.Call) and (dotted(e.func) or "").split(".")[-1] == "Decimal"

    for fi in sorted(mod.functions.values(), key=lambda f: f.node.lineno):
        for b in ast.walk(fi.node):
            if not (isinstance(b, ast.BinOp) and isinstance(b.op, (ast.Mod, ast.FloorDiv)) and is_decimal(b.left, fi.node) and is_decimal(b.right, fi.node)):
                continue
            n += 1
            site = f"{fi.file}:{b.lineno} {fi.qualname}"
            what = f"{fi.qualname}: the Decimal remainder is brought to the sign of the divisor, as the integer branch's `%` has it"
            # accepted: the result is bound to a name that is later adjusted by `+= <divisor>` under a sign test
            par = fi.module.parent(b)
            tgt = par.targets[0].id if isinstance(par, ast.Assign) and len(par.targets) == 1 and isinstance(par.targets[0], ast.Name) else None
            adjusted = tgt is not None and any(isinstance(a, ast.AugAssign) and isinstance(a.op, ast.Add) and isinstance(a.target, ast.Name) and a.target.id == tgt for a in ast.walk(fi.node))
            if adjusted:
                res.ok(rule, site, what, f"`{tgt}` is adjusted after the truncating remainder")
            else:
                res.fail(rule, file=fi.file, line=b.lineno, qualname=fi.qualname, construct=f"{fi.qualname}: bare Decimal `{'%' if isinstance(b.op, ast.Mod) else '//'}` beside an integer branch", message=f"{fi.qualname} computes `{norm(b, 70)}`: Decimal's remainder takes the sign of the dividend, the integer branch's (and Liquid's) the sign of the divisor - `{{{{ -5 | modulo: 3 }}}}` is 1 but `{{{{ -5.0 | modulo: 3 }}}}` is -2.0", what=what)
    res.floor(rule, "Decimal remainders in the math filters", n, 1)


def check_sibling_tags(prog: Program, res: Result, rule: str, mod_a: str, mod_b: str, pairs: tuple[tuple[str, str], ...], renames: tuple[tuple[str, str], ...], *, only: tuple[str, ...] | None = None) -> None:
    """Two tags that are copies of each other up to a name (increment / decrement): class by class, method by method, equal after
    the renaming - what one does to its argument (decode a quoted name, attach the token, print it back) the other does too."""
    from sa.twins import diff_functions
    from sa.twins import normalise

    ma, mb = prog.mod(mod_a), prog.mod(mod_b)
    n = 0
    for ca, cb in pairs:
        a, b = ma.classes.get(ca), mb.classes.get(cb)
        if a is None or b is None:
            raise AnalysisError(f"{ca} / {cb} vanished")
        for name in sorted(set(a.methods) | set(b.methods)):
            if only is not None and name not in only:
                continue
            fa, fb = a.methods.get(name), b.methods.get(name)
            what = f"{ca}.{name} is {cb}.{name} up to the name of the tag"
            if fa is None or fb is None:
                have, lack = (ca, cb) if fa is not None else (cb, ca)
                f_ = fa or fb
                res.fail(rule, file=f_.file, line=f_.node.lineno, qualname=f_.qualname, construct=f"{have}.{name} has no counterpart in {lack}", message=f"{have} defines {name} and {lack} does not: the two tags are copies of each other up to their name, so one of them handles its argument differently", what=what)
                continue
            n += 1
            ta = _UnlessAsIf(prog, renames).visit(copy.deepcopy(fa.node))
            tb = _UnlessAsIf(prog, renames).visit(copy.deepcopy(fb.node))
            diffs = diff_functions(normalise(ta), normalise(tb))
            if diffs:
                d = diffs[0]
                res.fail(rule, file=fa.file, line=d.sync_line or fa.node.lineno, qualname=fa.qualname, construct=f"{ca}.{name} differs from {cb}.{name}", message=f"{ca}.{name} and {cb}.{name} differ beyond the tag's name: `{d.sync_text[:80]}` vs `{d.async_text[:80]}` ({len(diffs)} difference(s)) - the same argument (a quoted, escaped name; a token) is treated differently by the two tags", what=what)
            else:
                res.ok(rule, f"{fa.file}:{fa.node.lineno} {fa.qualname}", what, "equal after renaming")
    res.floor(rule, "sibling method pairs", n, 3 if only is None else 1)


def check_selection_predicates_agree(prog: Program, res: Result, rule: str) -> None:
    """where, find, find_index and has select by the same three predicates (lambda result defined and truthy; property equal to the
    value; property neither false nor nil) under the same two branch tests: what `where` keeps is what `find` returns first, `has`
    reports and `find_index` counts to. Predicates are compared after the element variables are renamed to one letter."""
    sites: list[tuple[str, object]] = []
    for rel, cls in (("liquid2/builtin/filters/filtering_filters.py", "WhereFilter"), ("liquid2/builtin/filters/find_filters.py", "FindFilter"), ("liquid2/builtin/filters/find_filters.py", "FindIndexFilter"), ("liquid2/builtin/filters/find_filters.py", "HasFilter")):
        ci = prog.mod(rel).classes.get(cls)
        f = ci.methods.get("__call__") if ci is not None else None
        if f is None:
            raise AnalysisError(f"{cls}.__call__ vanished")
        sites.append((cls, f))

    def signature(f) -> tuple[frozenset[str], frozenset[str]]:  # noqa: ANN001
        preds: set[str] = set()
        branches: set[str] = set()

        def rename(e: ast.AST, elems: set[str]) -> str:
            t = copy.deepcopy(e)
            for x in ast.walk(t):
                if isinstance(x, ast.Name) and x.id in elems:
                    x.id = "E"
            return norm(t, 300)

        for n in ast.walk(f.node):
            if isinstance(n, (ast.ListComp, ast.GeneratorExp)):
                for g in n.generators:
                    elems = {x.id for x in ast.walk(g.target) if isinstance(x, ast.Name)}
                    for c in g.ifs:
                        preds.add(rename(c, elems))
            elif isinstance(n, ast.For):
                elems = {x.id for x in ast.walk(n.target) if isinstance(x, ast.Name)}
                for st in n.body:
                    if isinstance(st, ast.If):
                        preds.add(rename(st.test, elems))
            elif isinstance(n, ast.If) and not any(isinstance(a, ast.For) for a in f.module.ancestors(n)):
                # the atoms of the branch test, polarity dropped: `if A: … else: …` and `if not A: … else: …` are one branching
                stack = [n.test]
                while stack:
                    t_ = stack.pop()
                    if isinstance(t_, ast.BoolOp):
                        stack += t_.values
                    elif isinstance(t_, ast.UnaryOp) and isinstance(t_.op, ast.Not):
                        stack.append(t_.operand)
                    elif isinstance(t_, ast.Compare) and len(t_.ops) == 1 and isinstance(t_.ops[0], (ast.IsNot, ast.NotEq, ast.NotIn)):
                        pos_ = copy.deepcopy(t_)
                        pos_.ops = [{ast.IsNot: ast.Is, ast.NotEq: ast.Eq, ast.NotIn: ast.In}[type(t_.ops[0])]()]
                        branches.add(norm(pos_, 300))
                    else:
                        branches.add(norm(t_, 300))
        return frozenset(preds), frozenset(branches)

    sigs = [(cls, f, signature(f)) for cls, f in sites]
    ref_cls, _ref_f, ref = sigs[0]
    res.floor(rule, "selection predicates of where", len(ref[0]), 3)
    for cls, f, sig in sigs[1:]:
        site = f"{f.file}:{f.node.lineno} {cls}.__call__"
        what = f"{cls}.__call__ selects by the predicates of {ref_cls}"
        if sig == ref:
            res.ok(rule, site, what, f"{len(sig[0])} predicates, {len(sig[1])} branch tests")
        else:
            extra = sorted((sig[0] | sig[1]) - (ref[0] | ref[1]))
            missing = sorted((ref[0] | ref[1]) - (sig[0] | sig[1]))
            res.fail(rule, file=f.file, line=f.node.lineno, qualname=f"{cls}.__call__", construct=f"{cls}.__call__: selection predicates differ from {ref_cls}'s", message=f"{cls} selects items by `{(extra or ['<nothing>'])[0][:70]}` where {ref_cls} uses `{(missing or ['<nothing>'])[0][:70]}`: `where` and `{cls.replace('Filter', '').lower()}` disagree on which items match (an item whose property is missing or undefined, a value of nil)", what=what)


def check_filter_text_spelling(prog: Program, res: Result, rule: str) -> None:
    """Text a filter adds to its result is spelt as an output statement would spell it: a filter parameter turned into text with the
    builtin str() and then concatenated, joined, sliced or returned puts Python's spelling into the output (`True`, `None`) where
    Liquid's is `true` and the empty string - to_liquid_string() is the one stringifier. str() of a parameter that only feeds a key
    lookup, a number parser or a comparison is not output and is left alone."""
    n = 0
    for mod in sorted(prog.modules.values(), key=lambda m: m.relpath):
        if not (mod.relpath.startswith("liquid2/builtin/filters/") or mod.relpath.startswith("liquid2/shopify/filters/")):
            continue
        for fi in mod.functions.values():
            params = set(fi.params()) - {"self", "cls"}
            for c in ast.walk(fi.node):
                if not (isinstance(c, ast.Call) and isinstance(c.func, ast.Name) and c.func.id == "str" and len(c.args) == 1 and isinstance(c.args[0], ast.Name) and c.args[0].id in params and prog.enclosing_function(mod, c) is fi):
                    continue
                n += 1
                par = mod.parent(c)
                # under `isinstance(p, str)` / `isinstance(p, int)` str() and to_liquid_string() spell alike (bool is handled before int by neither: see below)
                from checks.C15 import _path_condition
                from checks.C17 import _known_leaves

                narrowed = any(v and txt.startswith(f"isinstance({c.args[0].id}, ") and txt.split(", ", 1)[1].rstrip(")") in ("str", "int", "float", "(int, float)", "(float, int)", "Markup") for t_, pol_ in _path_condition(mod, fi.node, c) for txt, v in _known_leaves(t_, pol_))
                if narrowed:
                    res.ok(rule, f"{mod.relpath}:{c.lineno} {fi.qualname}", f"{fi.qualname}: `{norm(c)}` does not reach the output", "narrowed to str / a number: both stringifiers spell it alike")
                    continue
                # where does the text go?
                to_output = None
                if isinstance(par, ast.BinOp) and isinstance(par.op, ast.Add):
                    to_output = "concatenated"
                elif isinstance(par, ast.Attribute) and par.attr == "join":
                    to_output = "used as the separator of a join"
                elif isinstance(par, ast.Return):
                    to_output = "returned"
                elif isinstance(par, ast.Assign) and len(par.targets) == 1 and isinstance(par.targets[0], ast.Name):
                    v = par.targets[0].id
                    for u in ast.walk(fi.node):
                        if isinstance(u, ast.Name) and u.id == v and isinstance(u.ctx, ast.Load):
                            up = mod.parent(u)
                            if isinstance(up, ast.BinOp) and isinstance(up.op, ast.Add):
                                to_output = "concatenated"
                            elif isinstance(up, ast.Attribute) and up.attr == "join" and isinstance(mod.parent(up), ast.Call):
                                to_output = "used as the separator of a join"
                            elif isinstance(up, ast.Return):
                                to_output = "returned"
                            elif isinstance(up, ast.Subscript) and up.value is u and any(isinstance(a, ast.Return) for a in mod.ancestors(up)):
                                to_output = "sliced into the result"
                            elif isinstance(up, ast.Call) and u in up.args and (dotted(up.func) or "").split(".")[-1] in ("truncate_chars", "truncate_words") and any(isinstance(a, ast.Return) for a in mod.ancestors(up)):
                                to_output = "appended by the truncation helper"
                site = f"{mod.relpath}:{c.lineno} {fi.qualname}"
                what = f"{fi.qualname}: `{norm(c)}` does not reach the output"
                if to_output is None:
                    res.ok(rule, site, what, "feeds a lookup, a parser or a comparison")
                else:
                    res.fail(rule, file=mod.relpath, line=c.lineno, qualname=fi.qualname, construct=f"{fi.qualname}: `{norm(c)}` is {to_output}", message=f"{fi.qualname} spells its argument with the builtin `{norm(c)}` and the text is {to_output}: `true`, `false` and `nil` arrive as `True`, `False` and `None` - `{{{{ 'a' | append: true }}}}` renders `aTrue` where `{{{{ 'a' | prepend: true }}}}` renders `truea`; to_liquid_string() is the spelling of the output statement", what=what)
    res.floor(rule, "str() of a filter parameter", n, 15)


def check_truthiness_by_membership(prog: Program, res: Result, rule: str) -> None:
    """Liquid truth is identity with false / nil: `x in (False, None)` compares by equality, and 0 == False (1 == True) in Python, so
    an item whose property is 0 is taken for false - `where: 'count'` drops it, `find` skips it. is_truthy() is the test."""
    pos = ast.parse("x not in (False, None)", mode="eval").body

    def hit(c: ast.AST) -> bool:
        return isinstance(c, ast.Compare) and len(c.ops) == 1 and isinstance(c.ops[0], (ast.In, ast.NotIn)) and isinstance(c.comparators[0], (ast.Tuple, ast.List, ast.Set)) and any(isinstance(e, ast.Constant) and isinstance(e.value, bool) for e in c.comparators[0].elts)

    if not hit(pos):
        raise AnalysisError(f"{rule}: positive example not matched")
    n = 0
    for mod in sorted(prog.modules.values(), key=lambda m: m.relpath):
        if not (mod.relpath.startswith("liquid2/builtin/filters/") or mod.relpath.startswith("liquid2/shopify/filters/") or mod.relpath == "liquid2/filter.py"):
            continue
        for fi in mod.functions.values():
            n += 1
            for c in ast.walk(fi.node):
                if hit(c) and prog.enclosing_function(mod, c) is fi:
                    # numbers are turned away before the test: `if … isinstance(obj, (int, float, …)): return obj` earlier in the function
                    early = [i for i in ast.walk(fi.node) if isinstance(i, ast.If) and i.lineno < c.lineno and i.body and isinstance(i.body[-1], ast.Return) and any(isinstance(x, ast.Call) and isinstance(x.func, ast.Name) and x.func.id == "isinstance" and len(x.args) == 2 and "int" in norm(x.args[1]) and "float" in norm(x.args[1]) for x in ast.walk(i.test))]
                    if early:
                        res.ok(rule, f"{mod.relpath}:{c.lineno} {fi.qualname}", f"{fi.qualname}: `{norm(c, 40)}` never sees a number", f"numbers return at line {early[0].lineno}")
                        continue
                    res.fail(rule, file=mod.relpath, line=c.lineno, qualname=fi.qualname, construct=f"{fi.qualname}: truth decided by membership in `{norm(c.comparators[0])}`", message=f"{fi.qualname} tests `{norm(c, 60)}`: membership compares with ==, and 0 == False, so a property that is 0 (or 0.0) counts as false - `{{{{ items | where: 'n' }}}}` drops the item whose n is 0 although 0 is truthy in Liquid", what=f"{fi.qualname}: truth of a data value is decided by is_truthy()")
    res.ok(rule, "liquid2/builtin/filters/*", "no filter decides truth by membership in a tuple holding True / False", f"{n} functions; positive example matched")
    res.floor(rule, "filter functions scanned", n, 100)


def check_uptodate_failure_is_stale(prog: Program, res: Result, rule: str) -> None:
    """A freshness test that cannot be carried out never answers 'fresh': within Template.is_up_to_date[_async] and the helpers they call
    no exception handler returns anything but False / re-raises. A vanished source raising from uptodate() must surface (or count
    as stale) - swallowed as fresh, the deleted template is served for ever where the uncached loader raises TemplateNotFoundError."""
    t = prog.cls("liquid2.template.Template")
    fns = []
    todo = ["is_up_to_date", "is_up_to_date_async"]
    seen = set()
    while todo:
        nm = todo.pop()
        if nm in seen or nm not in t.methods:
            continue
        seen.add(nm)
        f = t.methods[nm]
        fns.append(f)
        for x in ast.walk(f.node):
            if isinstance(x, ast.Attribute) and isinstance(x.value, ast.Name) and x.value.id == "self" and x.attr in t.methods:
                todo.append(x.attr)
    n = 0
    for f in fns:
        n += 1
        bad = None
        for h in ast.walk(f.node):
            if isinstance(h, ast.ExceptHandler):
                for r in ast.walk(h):
                    if isinstance(r, ast.Return) and not (isinstance(r.value, ast.Constant) and r.value.value is False):
                        bad = r
        site = f"{f.file}:{f.node.lineno} Template.{f.name}"
        what = f"Template.{f.name}: a failing freshness test is never taken for 'fresh'"
        if bad is not None:
            res.fail(rule, file=f.file, line=bad.lineno, qualname=f"Template.{f.name}", construct=f"Template.{f.name}: an exception from the freshness test answers `{norm(bad.value, 20) if bad.value is not None else 'None'}`", message=f"Template.{f.name} catches an exception raised by uptodate() and returns `{norm(bad.value, 20) if bad.value is not None else 'None'}`: a loader whose freshness test raises because the source is gone is told the cached template is fresh, so the deleted template keeps being served where the uncached loader raises TemplateNotFoundError", what=what)
        else:
            res.ok(rule, site, what, "no handler, or handlers answer False")
    res.floor(rule, "freshness functions of Template", n, 2)


def check_stoprender_catchers(prog: Program, res: Result, rule: str) -> None:
    """StopRender - raised by `extends` after the parent chain has been rendered - ends the render of the template it is raised in: the only
    handlers able to catch it (handlers naming StopRender or one of its liquid2 base classes) are in Template.render_with_context[_async].
    A loop or block that catches a base class of it (`except LiquidInterrupt`) swallows it and the child keeps rendering after its parent."""
    exc_mod = prog.mod("liquid2/exceptions.py")
    sr = exc_mod.classes.get("StopRender")
    if sr is None:
        raise AnalysisError("StopRender vanished")
    fam = {c.name for c in prog.mro(sr) if c.file == exc_mod.relpath}
    n = 0
    for fi in sorted(prog.all_functions(), key=lambda f: (f.file, f.node.lineno)):
        for h in ast.walk(fi.node):
            if not (isinstance(h, ast.ExceptHandler) and h.type is not None and prog.enclosing_function(fi.module, h) is fi):
                continue
            names = {(dotted(x) or "").split(".")[-1] for x in (h.type.elts if isinstance(h.type, ast.Tuple) else [h.type])}
            hit = names & fam
            if not hit:
                continue
            n += 1
            site = f"{fi.file}:{h.lineno} {fi.qualname}"
            what = f"{fi.qualname}: `except {norm(h.type, 40)}` cannot swallow the StopRender of an `extends`"
            if fi.cls is not None and fi.cls.name == "Template" and fi.name.startswith("render_with_context"):
                res.ok(rule, site, what, "the render frame that StopRender is meant for")
            else:
                res.fail(rule, file=fi.file, line=h.lineno, qualname=fi.qualname, construct=f"{fi.qualname}: `except {norm(h.type, 30)}` catches StopRender", message=f"{fi.qualname} has a handler for `{sorted(hit)[0]}`, which StopRender is (a subclass of): an `extends` tag rendered inside this construct raises StopRender after the parent has been rendered, the handler takes it for its own signal, and the child template goes on rendering - its text and blocks are written a second time after the page", what=what)
    res.floor(rule, "handlers able to catch StopRender", n, 2)


def check_children_twins(prog: Program, res: Result, rule: str) -> None:
    """children_async of every Node / Expression (and the base default) hands out what children() hands out, arguments forwarded alike."""
    from sa import twins

    n = 0
    for fs, fa in twins.find_pairs(prog):
        if fs.name != "children" or fs.cls is None:
            continue
        n += 1
        site = f"{fa.file}:{fa.node.lineno} {fa.qualname}"
        what = f"{fa.qualname} == {fs.qualname} modulo await"
        if twins.is_default_delegation(fa.node, fs.name):
            # a delegating default must forward every keyword the sync method takes
            kws = {a.arg for a in fs.node.args.kwonlyargs}
            call = next((c for c in ast.walk(fa.node) if isinstance(c, ast.Call) and isinstance(c.func, ast.Attribute) and c.func.attr == fs.name), None)
            passed = {k.arg for k in call.keywords} if call is not None else set()
            if kws - passed and not any(k.arg is None for k in (call.keywords if call is not None else [])):
                res.fail(rule, file=fa.file, line=fa.node.lineno, qualname=fa.qualname, construct=f"{fa.qualname}: delegates to {fs.name}() without `{sorted(kws - passed)[0]}`", message=f"{fa.qualname} delegates to {fs.name}() and drops `{sorted(kws - passed)[0]}`: analyze_async(include_partials=False) then still loads and walks parents and partials for every node that relies on this default, so the async report carries variables, filters and tags the sync one does not", what=what)
            else:
                res.ok(rule, site, what, "default delegation, keywords forwarded")
            continue
        diffs = twins.diff_functions(twins.normalise(fs.node), twins.normalise(fa.node))
        if diffs:
            d = diffs[0]
            res.fail(rule, file=fa.file, line=d.async_line or fa.node.lineno, qualname=fa.qualname, construct=f"{fa.qualname}: sync `{d.sync_text[:50]}` vs async `{d.async_text[:50]}`", message=f"{fa.qualname} differs from {fs.qualname}: sync does `{d.sync_text[:80]}`, async does `{d.async_text[:80]}` - analyze_async() walks other children than analyze()", what=what)
        else:
            res.ok(rule, site, what, "identical after normalisation")
    res.floor(rule, "children / children_async pairs", n, 3)


def check_dict_of_data_is_narrowed(prog: Program, res: Result, rule: str) -> None:
    """`dict(x)` looks for a `keys()` method on x and calls it: applied to a template-supplied value it must sit behind
    `isinstance(x, Mapping / dict)` - otherwise any context object with a Python-side `keys()` has that method run and its result
    handed to the template (the argument helpers in liquid2/filter.py and the filters)."""
    from checks.C15 import _path_condition
    from checks.C17 import _known_leaves

    def _dict_of(c: ast.AST, params: set[str]) -> bool:
        return isinstance(c, ast.Call) and isinstance(c.func, ast.Name) and c.func.id == "dict" and len(c.args) == 1 and isinstance(c.args[0], ast.Name) and c.args[0].id in params

    pos = ast.parse("def f(value):\n    return dict(value)\n").body[0]
    if not any(_dict_of(c, {"value"}) for c in ast.walk(pos)):
        raise AnalysisError(f"{rule}: positive example not matched")
    n = 0
    for mod in sorted(prog.modules.values(), key=lambda m: m.relpath):
        if not (mod.relpath == "liquid2/filter.py" or mod.relpath.startswith("liquid2/builtin/filters/")):
            continue
        for fi in mod.functions.values():
            params = set(fi.params()) - {"self", "cls"}
            for c in ast.walk(fi.node):
                if not (_dict_of(c, params) and prog.enclosing_function(mod, c) is fi):
                    continue
                n += 1
                p = c.args[0].id
                known = [kl for t_, pol_ in _path_condition(mod, fi.node, c) for kl in _known_leaves(t_, pol_)]
                narrowed = any(v and txt.startswith(f"isinstance({p}, ") and any(w in txt for w in ("Mapping", "dict")) for txt, v in known)
                site = f"{mod.relpath}:{c.lineno} {fi.qualname}"
                what = f"{fi.qualname}: `dict({p})` is applied to a Mapping only"
                if narrowed:
                    res.ok(rule, site, what, "behind isinstance(…, Mapping)")
                else:
                    res.fail(rule, file=mod.relpath, line=c.lineno, qualname=fi.qualname, construct=f"{fi.qualname}: dict({p}) of a value not known to be a Mapping", message=f"{fi.qualname} calls `dict({p})` where `{p}` is not known to be a Mapping: dict() calls `{p}.keys()` and `{p}[k]` on whatever the template hands in, so an ordinary Python object with a `keys` method has it run - `{{{{ rec | json }}}}` prints the key listing of an object that is no Mapping", what=what)
    res.ok(rule, "liquid2/filter.py, liquid2/builtin/filters/*", "every dict(<parameter>) is behind an isinstance(…, Mapping) test", f"{n} site(s); positive example matched")


def check_filters_do_not_mutate_params(prog: Program, res: Result, rule: str) -> None:
    """A filter returns a new value: no in-place list method (`reverse`, `sort`, `append`, `extend`, `insert`, `pop`, `remove`, `clear`)
    is called on a parameter of a filter function that was never rebound to a fresh list inside the function - the decorators may
    hand the caller's own list through (a flat list needs no flattening), so `a | reverse` would reverse `a` for the rest of the render."""
    MUT = ("reverse", "sort", "append", "extend", "insert", "pop", "remove", "clear")
    n = 0
    for mod in sorted(prog.modules.values(), key=lambda m: m.relpath):
        if not mod.relpath.startswith("liquid2/builtin/filters/"):
            continue
        for fi in mod.functions.values():
            params = set(fi.params()) - {"self", "cls"}
            # **kwargs / *args are fresh per call; the render context and environment are not template data
            params -= {a.arg for a in (fi.node.args.kwarg, fi.node.args.vararg) if a is not None}
            params = {p_ for p_ in params if "context" not in p_ and "env" not in p_}
            rebound = {t.id for a in ast.walk(fi.node) if isinstance(a, (ast.Assign, ast.AnnAssign)) for t_ in (a.targets if isinstance(a, ast.Assign) else [a.target]) for t in ast.walk(t_) if isinstance(t, ast.Name)}
            n += 1
            for c in ast.walk(fi.node):
                if isinstance(c, ast.Call) and isinstance(c.func, ast.Attribute) and c.func.attr in MUT and isinstance(c.func.value, ast.Name) and c.func.value.id in params - rebound and prog.enclosing_function(mod, c) is fi:
                    res.fail(rule, file=mod.relpath, line=c.lineno, qualname=fi.qualname, construct=f"{fi.qualname}: `{norm(c, 30)}` changes its argument in place", message=f"{fi.qualname} calls `{norm(c, 40)}` on its parameter: the filter's result is its input, changed - every later use of the variable in the same render (and the caller's data afterwards) sees the new order / contents", what=f"{fi.qualname}: builds a new value")
    res.ok(rule, "liquid2/builtin/filters/*", "no filter calls an in-place list method on a parameter it did not rebind", f"{n} functions")
    res.floor(rule, "filter functions scanned", n, 100)
