"""Rules shared between properties (each caller registers the rule under its own id)."""

from __future__ import annotations

import ast

from sa.cfg import CFG
from sa.cfg import forward
from sa.report import AnalysisError
from sa.report import Result
from sa.report import norm
from sa.srcmodel import Program
from sa.srcmodel import dotted
from sa.util import callee_name


def check_trim_carry_ownership(prog: Program, res: Result, rule: str, exit_rule: str | None = None) -> None:
    """In every Tag.parse each parse_block is entered with the trim carry of the tag immediately before that block."""
    tag_base = prog.cls("liquid2.tag.Tag")
    n_pb = 0
    for tc in prog.subclasses(tag_base, strict=True):
        m = tc.methods.get("parse")
        if m is None:
            continue
        calls = [c for c in ast.walk(m.node) if isinstance(c, ast.Call) and callee_name(m.node, c) == "parse_block"]
        if not calls:
            continue
        res.analysed_functions.add(m.fid)
        cfg = CFG(m.node, may_raise=lambda st: False)
        stream_name = next((p for p in m.params() if p == "stream"), None)
        if stream_name is None:
            continue

        def effects(node_ast: ast.AST) -> list[str]:
            """Ordered carry events of one statement/test: 'consume', 'block', 'set'."""
            ev: list[tuple[int, int, str]] = []
            for c in ast.walk(node_ast):
                if isinstance(c, ast.Call):
                    f = c.func
                    if isinstance(f, ast.Attribute) and isinstance(f.value, ast.Name) and f.value.id == stream_name and f.attr in ("next", "into_inner"):  # noqa: B023
                        ev.append((c.lineno, c.col_offset, "consume"))
                    elif callee_name(m.node, c) == "parse_block":  # noqa: B023
                        ev.append((c.end_lineno or c.lineno, c.end_col_offset or 0, "block"))
            if isinstance(node_ast, ast.Assign) and any(isinstance(t, ast.Attribute) and t.attr == "trim_carry" and isinstance(t.value, ast.Name) and t.value.id == stream_name for t in node_ast.targets):  # noqa: B023
                ev.append((10**9, 0, "set"))
            ev.sort()
            # a consume nested inside the arguments of parse_block happens before the block
            return [e[2] for e in ev]

        stale_sites: dict[int, int] = {}

        def transfer(n, st, label):  # noqa: ANN001, ANN202
            if n.node is None or n.kind in ("entry", "exit", "raise"):
                return st
            if n.kind not in ("stmt", "test"):
                return st
            cur = st
            for e in effects(n.node):
                if e == "consume":
                    cur = min(cur + 1, 2)
                elif e == "block":
                    stale_sites[n.id] = max(stale_sites.get(n.id, 0), cur)
                    cur = 0
                elif e == "set":
                    cur = 0
            return cur

        IN = forward(cfg, 0, transfer, max)
        # what a tag stores into the carry is the right-hand marker of a token: `<token>.wc[-1]`
        for st_ in ast.walk(m.node):
            if isinstance(st_, ast.Assign) and any(isinstance(t, ast.Attribute) and t.attr == "trim_carry" and isinstance(t.value, ast.Name) and t.value.id == stream_name for t in st_.targets):
                v_ = st_.value
                idx_ = v_.slice if isinstance(v_, ast.Subscript) and isinstance(v_.value, ast.Attribute) and v_.value.attr == "wc" else None
                is_last = isinstance(idx_, ast.UnaryOp) and isinstance(idx_.op, ast.USub) and isinstance(idx_.operand, ast.Constant) and idx_.operand.value == 1
                site_ = f"{m.file}:{st_.lineno} {m.qualname}"
                what_ = f"{tc.name}.parse stores a token's right-hand marker in the trim carry"
                if is_last:
                    res.ok(rule, site_, what_, norm(v_))
                else:
                    res.fail(rule, file=m.file, line=st_.lineno, qualname=m.qualname, construct=f"{tc.name}.parse: trim carry set from `{norm(v_, 40)}`", message=f"{tc.name}.parse stores `{norm(v_, 40)}` in stream.trim_carry: the carry must be the right-hand marker (`<token>.wc[-1]`) of the tag just consumed, otherwise the text after that tag is trimmed by its *left* marker (or some other marker)", what=what_)
        if exit_rule is not None:
            # the carry handed back to the parser must be the marker of the tag the stream is left on (the end tag):
            # the last carry event on every path to a return is a parse_block (it stops on that tag and records its marker)
            # or an explicit store, with no tag consumed since
            for n in cfg.nodes:
                if n.kind == "stmt" and isinstance(n.node, ast.Return) and n.id in IN:
                    cur = transfer(n, IN[n.id], "")
                    site = f"{m.file}:{n.node.lineno} {m.qualname}"
                    what = f"{tc.name}.parse returns with the trim carry of the tag the stream is left on"
                    if cur == 0:
                        res.ok(exit_rule, site, what, "last carry event on every path is the closing parse_block or an explicit store")
                    else:
                        res.fail(exit_rule, file=m.file, line=n.node.lineno, qualname=m.qualname, construct=f"{tc.name}.parse: return with a stale carry", message=f"{tc.name}.parse can return after consuming a tag token without refreshing stream.trim_carry (a path with no parse_block after it): the text after the closing tag is trimmed by an earlier tag's marker and the closing tag's own marker is ignored", what=what)
        for c in calls:
            n_pb += 1
            node = next((n for n in cfg.nodes if n.node is not None and n.kind in ("stmt", "test") and any(x is c for x in ast.walk(n.node))), None)
            site = f"{m.file}:{c.lineno} {m.qualname}"
            what = f"`{norm(c, 50)}` entered with a fresh trim carry"
            worst = stale_sites.get(node.id, 0) if node is not None else 2
            if worst <= 1:
                res.ok(rule, site, what, "carry belongs to the tag just consumed" if worst else "carry belongs to the current tag")
            else:
                res.fail(
                    rule,
                    file=m.file,
                    line=c.lineno,
                    qualname=m.qualname,
                    construct=f"{tc.name}.parse: {norm(c, 50)} with a stale carry",
                    message=f"{tc.name}.parse can reach `{norm(c, 40)}` after consuming two tag tokens without refreshing stream.trim_carry: the block is trimmed by an earlier tag's marker instead of the tag right before it",
                    what=what,
                )
    res.floor(rule, "parse_block call sites in tags", n_pb, 15)


def check_context_manager_pairing(prog: Program, res: Result, rule: str) -> None:
    """In RenderContext's context managers every acquisition is released on all exits (may-hold typestate over the CFG)."""
    from checks.C07 import _acquire_release

    ctx = prog.cls("liquid2.context.RenderContext")
    cms = [m for m in ctx.methods.values() if any((dotted(d) or "") == "contextmanager" for d in m.node.decorator_list)]
    res.floor(rule, "context-manager methods of RenderContext", len(cms), 2)
    for m in cms:
        res.analysed_functions.add(m.fid)
        from sa.cfg import _default_may_raise

        # the primitive stack operations themselves (deque.appendleft/popleft, list.append/pop on a stack the
        # pairing keeps non-empty) are total; everything else that calls or subscripts may raise
        cfg = CFG(m.node, may_raise=lambda st: _default_may_raise(st) and _acquire_release(st) is None)
        guards: dict[str, str] = {}
        # guard under which each acquire statement sits (for correlated release tests)
        for n in ast.walk(m.node):
            ar = _acquire_release(n)
            if ar and ar[0] == "acquire":
                for a in m.module.ancestors(n):
                    if isinstance(a, ast.If) and any(n is x for b in a.body for x in ast.walk(b)):
                        guards[ar[1]] = norm(a.test)
                        break
                    if a is m.node:
                        break

        def transfer(n, st, label):  # noqa: ANN001, ANN202
            if label == "exc":
                return st
            if n.kind == "test" and label == "false" and n.node is not None:
                t = norm(n.node)
                st = frozenset(r for r in st if guards.get(r) != t)
                return st
            if n.kind == "stmt" and n.node is not None:
                ar = _acquire_release(n.node)
                if ar:
                    return st | {ar[1]} if ar[0] == "acquire" else st - {ar[1]}
            return st

        IN = forward(cfg, frozenset(), transfer, lambda a, b: a | b)
        acquires = [n for n in cfg.nodes if n.kind == "stmt" and n.node is not None and (_acquire_release(n.node) or ("", ""))[0] == "acquire"]
        res.floor(rule, f"acquisitions in {m.name}", len(acquires), 1)
        leaks: dict[str, str] = {}
        for exit_node, kind in ((cfg.raise_exit, "an exception"), (cfg.exit, "normal return")):
            for src, label in exit_node.pred:
                if src.id not in IN:
                    continue
                out = transfer(src, IN[src.id], label)
                for r in out:
                    leaks.setdefault(r, f"{kind} via `{norm(src.node, 50)}` (line {src.line})")
        for a in acquires:
            r = _acquire_release(a.node)[1]
            site = f"{m.file}:{a.line} RenderContext.{m.name}"
            what = f"`{norm(a.node, 50)}` released on every exit"
            if r in leaks:
                res.fail(
                    rule,
                    file=m.file,
                    line=a.line,
                    qualname=f"RenderContext.{m.name}",
                    construct=f"{norm(a.node, 50)} not released",
                    message=f"`{norm(a.node, 50)}` is still in effect when {m.name}() exits by {leaks[r]}: the {r} stack/field stays modified after the block",
                    what=what,
                )
            else:
                res.ok(rule, site, what, "no exit (normal or exceptional) is reachable with the resource held")



def check_cache_hit_rebinds(prog: Program, res: Result, rule: str) -> None:
    """Every path of CachingLoaderMixin._check_cache* that returns the cached object first rebinds its global_data
    from the caller's `globals` (must-pass-through on the CFG), so a hit never carries an earlier caller's globals."""
    from sa.report import AnalysisError
    from sa.util import is_self_attr

    rel = "liquid2/builtin/loaders/mixins.py"
    mixin = prog.mod(rel).classes.get("CachingLoaderMixin")
    if mixin is None:
        raise AnalysisError("CachingLoaderMixin vanished")
    for fname in ("_check_cache", "_check_cache_async"):
        f = mixin.methods.get(fname)
        if f is None:
            raise AnalysisError(f"CachingLoaderMixin.{fname} vanished")
        cfg = CFG(f.node)
        cached_names = {t.id for n in ast.walk(f.node) if isinstance(n, ast.Assign) and isinstance(n.value, ast.Subscript) and is_self_attr(n.value.value, "cache") for t in n.targets if isinstance(t, ast.Name)}
        if len(cached_names) != 1:
            res.fail(rule, file=rel, line=f.node.lineno, qualname=f"CachingLoaderMixin.{fname}", construct=f"cached-template variable not bound from self.cache[key]: {sorted(cached_names)}", message="the cache lookup is not a single `x = self.cache[key]`: the rebinding obligation cannot be established", what="lookup shape")
            continue
        cached = next(iter(cached_names))
        if "globals" not in f.params():
            raise AnalysisError(f"{fname}: no `globals` parameter")
        hit_returns = [n for n in cfg.nodes if n.kind == "stmt" and isinstance(n.node, ast.Return) and isinstance(n.node.value, ast.Name) and n.node.value.id == cached]
        res.floor(rule, f"hit returns in {fname}", len(hit_returns), 1)

        def is_rebind(n: object) -> bool:
            nd = getattr(n, "node", None)
            if getattr(n, "kind", "") != "stmt" or not isinstance(nd, ast.Assign):
                return False
            for t in nd.targets:
                if isinstance(t, ast.Attribute) and t.attr == "global_data" and isinstance(t.value, ast.Name) and t.value.id == cached:  # noqa: B023
                    names = {x.id for x in ast.walk(nd.value) if isinstance(x, ast.Name)}
                    # from the caller's globals alone: a fallback to what the cached object already holds keeps an earlier caller's globals
                    return "globals" in names and cached not in names  # noqa: B023
            return False

        for r in hit_returns:
            site = f"{rel}:{r.line} CachingLoaderMixin.{fname}"
            what = f"`return {cached}` preceded by `{cached}.global_data = …globals…` on every path"
            if cfg.all_paths_pass(r, is_rebind):
                res.ok(rule, site, what, "rebinding statement on every path to the hit return")
            else:
                res.fail(rule, file=rel, line=r.line, qualname=f"CachingLoaderMixin.{fname}", construct=f"return {cached} reachable without rebinding {cached}.global_data", message="a cache hit can be returned without rebinding the caller's globals: the previous caller's globals are served (e.g. when the new caller passes none)", what=what)


def check_scope_stack_ownership(prog: Program, res: Result, rule: str) -> None:
    """The render scope stack (context.scope) is pushed / popped only inside RenderContext.extend."""
    from sa.srcmodel import root_name

    ctx = prog.cls("liquid2.context.RenderContext")
    # scope stack: pushed/popped only by RenderContext.extend
    n_sp = 0
    for mod in prog.modules.values():
        for c in ast.walk(mod.tree):
            if isinstance(c, ast.Call) and isinstance(c.func, ast.Attribute) and c.func.attr in ("push", "pop") and isinstance(c.func.value, ast.Attribute) and c.func.value.attr == "scope" and root_name(c.func.value) in ("self", "context", "ctx", "macro_context"):
                fi = prog.enclosing_function(mod, c)
                if root_name(c.func.value) == "self" and (fi is None or fi.cls is not ctx):
                    continue
                n_sp += 1
                what = f"`{norm(c)}` inside RenderContext.extend"
                if fi is not None and fi.cls is ctx and fi.name == "extend":
                    res.ok(rule, f"{mod.relpath}:{c.lineno} {fi.qualname}", what, "paired in try/finally by extend() (C07.R1)")
                else:
                    res.fail(rule, file=mod.relpath, line=c.lineno, qualname=fi.qualname if fi else "", construct=c, message="the render scope stack is pushed/popped by hand outside RenderContext.extend: an early exit (break, error, abandoned generator) leaves the scope pushed and block-bound names leak", what=what)
    res.floor(rule, "scope push/pop sites", n_sp, 2)


def check_newline_transparency(prog: Program, res: Result, rule: str) -> None:
    """Output buffers never translate line endings: LimitedStringIO forwards newline='\\n' (StringIO()'s own default) and no
    buffer construction in liquid2 passes another newline mode."""
    lim = prog.cls("liquid2.output.LimitedStringIO")
    init = lim.methods.get("__init__")
    if init is None:
        res.ok(rule, f"{lim.file}:{lim.node.lineno} LimitedStringIO", "no __init__ override", "inherits StringIO defaults")
    else:
        a = init.node.args
        defaults = dict(zip([p.arg for p in a.args][len(a.args) - len(a.defaults) :], a.defaults))
        sc = [c for c in ast.walk(init.node) if isinstance(c, ast.Call) and isinstance(c.func, ast.Attribute) and c.func.attr == "__init__" and norm(c.func.value) == "super()"]
        what = "super().__init__ receives newline='\\n' by default"
        ok = False
        why = "no super().__init__ call"
        for c in sc:
            nl = c.args[1] if len(c.args) > 1 else next((k.value for k in c.keywords if k.arg == "newline"), None)
            if nl is None:
                ok, why = True, "newline not forwarded: StringIO's own default applies"
            elif isinstance(nl, ast.Constant):
                ok, why = nl.value == "\n", f"newline={nl.value!r}"
            elif isinstance(nl, ast.Name) and nl.id in defaults:
                dv = defaults[nl.id]
                ok = isinstance(dv, ast.Constant) and dv.value == "\n"
                why = f"parameter {nl.id} defaults to {norm(dv)}"
            else:
                why = f"newline={norm(nl)}"
        if ok:
            res.ok(rule, f"{init.file}:{init.node.lineno} LimitedStringIO.__init__", what, why)
        else:
            res.fail(rule, file=init.file, line=init.node.lineno, qualname="LimitedStringIO.__init__", construct=f"newline forwarded to StringIO: {why}", message=f"configuring an output limit changes write semantics: {why} turns on universal-newline translation (CR/CRLF rewritten to LF); StringIO() itself uses newline='\\n'", what=what)
    n_ctor = 0
    for mod in prog.modules.values():
        for c in ast.walk(mod.tree):
            if not (isinstance(c, ast.Call) and (dotted(c.func) or "").split(".")[-1] in ("StringIO", "LimitedStringIO")):
                continue
            n_ctor += 1
            pos = 2 if (dotted(c.func) or "").endswith("LimitedStringIO") else 1
            nl = c.args[pos] if len(c.args) > pos else next((k.value for k in c.keywords if k.arg == "newline"), None)
            q = prog.qual_at(mod, c)
            what = f"`{norm(c, 60)}` keeps line endings as written"
            if nl is None or (isinstance(nl, ast.Constant) and nl.value in ("\n", "")):
                res.ok(rule, f"{mod.relpath}:{c.lineno} {q}", what, "no newline argument" if nl is None else f"newline={nl.value!r}")
            else:
                res.fail(rule, file=mod.relpath, line=c.lineno, qualname=q, construct=f"{norm(c, 60)} with newline={norm(nl)}", message=f"the output buffer is built with newline={norm(nl)}: CR / CRLF written by the template are rewritten", what=what)
    res.floor(rule, "output buffer constructions", n_ctor, 3)
    # ... and neither do the loaders when they read a template file
    n_read = 0
    for mod in prog.modules.values():
        if not mod.relpath.startswith("liquid2/builtin/loaders/") and mod.relpath != "liquid2/loader.py":
            continue
        for c in ast.walk(mod.tree):
            if not isinstance(c, ast.Call):
                continue
            fname = c.func.attr if isinstance(c.func, ast.Attribute) else (c.func.id if isinstance(c.func, ast.Name) else "")
            if fname not in ("open", "read_text"):
                continue
            n_read += 1
            q = prog.qual_at(mod, c)
            what = f"`{norm(c, 60)}` reads the template without translating line endings"
            nl = next((k.value for k in c.keywords if k.arg == "newline"), None)
            mode = next((a for a in c.args if isinstance(a, ast.Constant) and isinstance(a.value, str) and set(a.value) <= set("rwabt+x")), None)
            binary = mode is not None and "b" in mode.value
            if fname == "open" and (binary or (isinstance(nl, ast.Constant) and nl.value == "")):
                res.ok(rule, f"{mod.relpath}:{c.lineno} {q}", what, "newline=''" if not binary else "binary mode")
            else:
                res.fail(rule, file=mod.relpath, line=c.lineno, qualname=q, construct=f"{norm(c, 60)} with universal newlines", message=f"`{norm(c, 60)}` reads a template file with universal-newline translation: CR and CRLF in literal text and inside string literals become LF, unlike the same source given to from_string()", what=what)
    res.floor(rule, "template file reads in the loaders", n_read, 2)


def check_buffer_factories_fresh(prog: Program, res: Result, rule: str) -> None:
    """The capture-buffer factory (RenderContext.get_output_buffer) returns a newly constructed buffer on every path -
    never its parent, a parameter or a stored object - so captured text is never written into the discarding NullIO of a
    suppressed block (or into the caller's stream)."""
    from sa.report import AnalysisError

    ctx = prog.cls("liquid2.context.RenderContext")
    f = ctx.methods.get("get_output_buffer")
    if f is None:
        raise AnalysisError("RenderContext.get_output_buffer vanished")
    rets = [r for r in ast.walk(f.node) if isinstance(r, ast.Return)]
    res.floor(rule, "returns of get_output_buffer", len(rets), 2)
    for r in rets:
        v = r.value
        site = f"{f.file}:{r.lineno} RenderContext.get_output_buffer"
        what = f"`{norm(r, 60)}` hands out a newly constructed buffer"
        fresh = isinstance(v, ast.Call) and (dotted(v.func) or "").split(".")[-1] in ("StringIO", "LimitedStringIO")
        if fresh:
            res.ok(rule, site, what, "constructor call")
        else:
            res.fail(rule, file=f.file, line=r.lineno, qualname="RenderContext.get_output_buffer", construct=f"{norm(r, 60)} is not a fresh buffer", message=f"get_output_buffer can return `{norm(v, 40) if v is not None else None}` instead of a new buffer: a capture (or macro/block render) then writes into the buffer it was given - inside a suppressed blank block that is the discarding NullIO, so the captured text is lost with the whitespace", what=what)
    # NullIO is constructed only by BlockNode's suppression path
    n_null = 0
    for mod in prog.modules.values():
        for c in ast.walk(mod.tree):
            if isinstance(c, ast.Call) and (dotted(c.func) or "").split(".")[-1] == "NullIO":
                n_null += 1
                fi = prog.enclosing_function(mod, c)
                q = fi.qualname if fi else "<module>"
                what = f"`{norm(c)}` built only by BlockNode.render_to_output[_async]"
                if fi is not None and fi.cls is not None and fi.cls.full == "liquid2.ast.BlockNode":
                    res.ok(rule, f"{mod.relpath}:{c.lineno} {q}", what, "the suppression path")
                else:
                    res.fail(rule, file=mod.relpath, line=c.lineno, qualname=q, construct=f"NullIO() in {q}", message=f"{q} builds a discarding buffer outside BlockNode's blank-block suppression: whatever is rendered into it is lost", what=what)
    res.floor(rule, "NullIO constructions", n_null, 2)


def check_cache_hit_environment(prog: Program, res: Result, rule: str) -> None:
    """A cached template is returned as a hit only to the Environment it was parsed for - unconditionally (C14.R5 = C04.S5).

    `RenderContext.auto_escape`, the filter and tag registries and the undefined policy are all read from `template.env`, so a template
    handed to another environment renders with the first one's settings. The hit return must lie on the false edge of a test one of whose
    *top-level* disjuncts is `<cached>.env is not env` (a disjunct nested under `auto_reload and (...)` is skipped when auto_reload is off)."""
    from sa.util import guarded_by_test

    mixin = prog.cls("liquid2.builtin.loaders.mixins.CachingLoaderMixin")
    for fname in ("_check_cache", "_check_cache_async"):
        f = mixin.methods.get(fname)
        if f is None:
            raise AnalysisError(f"CachingLoaderMixin.{fname} vanished")
        cfg = CFG(f.node)
        cached_names = {t.id for n in ast.walk(f.node) if isinstance(n, ast.Assign) and isinstance(n.value, ast.Subscript) and norm(n.value.value) == "self.cache" for t in n.targets if isinstance(t, ast.Name)}
        if len(cached_names) != 1:
            raise AnalysisError(f"{fname}: the cache lookup is not a single `x = self.cache[key]`")
        cached = next(iter(cached_names))
        hits = [n for n in cfg.nodes if n.kind == "stmt" and isinstance(n.node, ast.Return) and isinstance(n.node.value, ast.Name) and n.node.value.id == cached]
        res.floor(rule, f"hit returns in {fname}", len(hits), 1)

        def env_guard(test: ast.AST, cached: str = cached) -> bool | None:
            disj = test.values if isinstance(test, ast.BoolOp) and isinstance(test.op, ast.Or) else [test]
            for d in disj:
                if norm(d) in (f"{cached}.env is not env", f"{cached}.env != env", f"env is not {cached}.env"):
                    return True  # another environment on the true edge
            if norm(test) in (f"{cached}.env is env", f"{cached}.env == env"):
                return False
            return None

        for r in hits:
            site = f"{f.file}:{r.line} CachingLoaderMixin.{fname}"
            what = f"`return {cached}` only when the cached template is bound to the requesting environment"
            if guarded_by_test(cfg, r, env_guard) is not None:
                res.ok(rule, site, what, f"hit only on the false edge of a test with the top-level disjunct `{cached}.env is not env`")
            else:
                res.fail(rule, file=f.file, line=r.line, qualname=f"CachingLoaderMixin.{fname}", construct=f"return {cached} without an unconditional comparison of its environment", message="a cache hit can be returned to an Environment other than the one the template was parsed for (the comparison is missing or sits under another condition such as auto_reload): the template then renders with the first environment's auto_escape setting, filters, tags and undefined type", what=what)


def check_presence_by_key(prog: Program, res: Result, rule: str) -> None:
    """Variable lookup decides 'missing' from the failed key lookup, never from the looked-up value (C16.R6 = C01.R8): a name bound to
    nil/false/0/'' exists - it shadows an outer binding of the same name and is not undefined."""
    ctx = prog.cls("liquid2.context.RenderContext")
    look_fns = []
    cm = prog.cls("liquid2.utils.chainmap.ReadOnlyChainMap")
    for nm in ("__getitem__", "get"):
        if nm in cm.methods:
            look_fns.append(cm.methods[nm])
    for nm in ("get", "get_async", "resolve", "get_item", "get_item_async"):
        if nm in ctx.methods:
            look_fns.append(ctx.methods[nm])
    res.floor(rule, "lookup functions", len(look_fns), 6)
    n_lk = 0
    for f in look_fns:
        # names bound from a lookup expression
        looked: dict[str, ast.AST] = {}
        for n in ast.walk(f.node):
            if isinstance(n, ast.Assign) and len(n.targets) == 1 and isinstance(n.targets[0], ast.Name):
                v = n.value.value if isinstance(n.value, ast.Await) else n.value
                is_lookup = (isinstance(v, ast.Subscript) and not isinstance(v.slice, ast.Slice)) or (isinstance(v, ast.Call) and isinstance(v.func, ast.Attribute) and v.func.attr in ("get", "get_item", "get_item_async", "pop")) or (isinstance(v, ast.Call) and isinstance(v.func, ast.Name) and v.func.id in ("getitem", "getattr"))
                if is_lookup:
                    looked[n.targets[0].id] = v
                    n_lk += 1
        for v, src in looked.items():
            sentinel = None
            if isinstance(src, ast.Call) and len(src.args) >= 2 and not (isinstance(src.args[1], ast.Constant) and src.args[1].value is None):
                sentinel = norm(src.args[1])
            for t in ast.walk(f.node):
                test = t.test if isinstance(t, (ast.If, ast.IfExp, ast.While)) else None
                if test is None:
                    continue
                bad = None
                for x in ast.walk(test):
                    if isinstance(x, ast.Compare) and isinstance(x.left, ast.Name) and x.left.id == v and isinstance(x.ops[0], (ast.Is, ast.IsNot, ast.Eq, ast.NotEq)):
                        rhs = x.comparators[0]
                        if sentinel is not None and norm(rhs) == sentinel:
                            continue
                        if isinstance(rhs, ast.Constant) and (rhs.value is None or rhs.value in (False, 0, "")):
                            bad = norm(x)
                if bad is None and ((isinstance(test, ast.Name) and test.id == v) or (isinstance(test, ast.UnaryOp) and isinstance(test.op, ast.Not) and isinstance(test.operand, ast.Name) and test.operand.id == v)):
                    bad = norm(test)
                if bad:
                    res.fail(rule, file=f.file, line=t.lineno, qualname=f.qualname, construct=f"{f.qualname}: `{bad}` on the looked-up value {v}", message=f"{f.qualname} tests the looked-up value (`{bad}`) to decide whether the key exists: a variable whose value is nil/false/0/'' is treated as missing and strict undefined raises for data that is present", what=f"{f.qualname}: existence of `{v}` decided by the lookup, not its value")
        res.ok(rule, f"{f.file}:{f.node.lineno} {f.qualname}", f"{f.qualname}: no existence test on a looked-up value", f"{len(looked)} looked-up names")
    res.floor(rule, "lookup results bound to names", n_lk, 2)


def check_unconditional_contributions(prog: Program, res: Result, rule: str) -> None:
    """In children()/expressions() a child is handed to the traversals under no condition other than its own presence: a contribution of
    `self.A` may sit under tests that mention `self.A` (or only parameters such as include_partials), never under a test on another
    attribute `self.B` - otherwise the child is rendered at run time but skipped by analysis/extraction whenever B is absent."""
    bases = [prog.cls("liquid2.ast.Node"), prog.cls("liquid2.expression.Expression")]
    n = 0
    for fi in sorted(prog.all_functions(), key=lambda f: (f.file, f.node.lineno)):
        if fi.cls is None or fi.name not in ("children", "children_async", "expressions") or not any(prog.is_subclass(fi.cls, b) for b in bases):
            continue
        for node in ast.walk(fi.node):
            contributed: list[ast.AST] = []
            if isinstance(node, (ast.Yield, ast.YieldFrom)) and node.value is not None:
                contributed = [node.value]
            elif isinstance(node, ast.Call) and isinstance(node.func, ast.Attribute) and node.func.attr in ("append", "extend") and node.args:
                contributed = [node.args[0]]
            for v in contributed:
                attrs = {x.attr for x in ast.walk(v) if isinstance(x, ast.Attribute) and isinstance(x.value, ast.Name) and x.value.id == "self"}
                if not attrs:
                    continue
                n += 1
                foreign = None
                child: ast.AST = node
                for a in fi.module.ancestors(node):
                    if a is fi.node:
                        break
                    if isinstance(a, ast.If) and (any(child is x for b in a.body for x in ast.walk(b)) or any(child is x for b in a.orelse for x in ast.walk(b))):
                        tested = {x.attr for x in ast.walk(a.test) if isinstance(x, ast.Attribute) and isinstance(x.value, ast.Name) and x.value.id == "self"}
                        if tested and not (tested & attrs):
                            foreign = (a, tested)
                            break
                    child = a
                what = f"{fi.qualname}: contribution of self.{sorted(attrs)[0]} is not conditional on another attribute"
                if foreign is None:
                    res.ok(rule, f"{fi.file}:{getattr(node, 'lineno', 0)} {fi.qualname}", what, "under its own presence test at most")
                else:
                    a, tested = foreign
                    res.fail(rule, file=fi.file, line=getattr(node, "lineno", a.lineno), qualname=fi.qualname, construct=f"{fi.qualname}: self.{sorted(attrs)[0]} contributed only under a test of self.{sorted(tested)[0]}", message=f"{fi.qualname} hands `{norm(v, 40)}` to the traversals only when `{norm(a.test, 40)}` holds - a condition on a different attribute: when it is false the child is still rendered at run time but static analysis and message extraction never see it", what=what)
    res.floor(rule, "child contributions in children()/expressions()", n, 40)


def check_arguments_before_bindings(prog: Program, res: Result, rule: str) -> None:
    """A tag evaluates its own argument expressions in the scope it was written in: no `<expr>.evaluate[_async](context)` inside the
    `with context.extend(…)` / `with context.loop(…)` block that pushes the tag's own bindings (C10.R5 = C07.R10)."""
    node = prog.cls("liquid2.ast.Node")
    n_with = 0
    for fi in sorted(prog.all_functions(), key=lambda f: (f.file, f.node.lineno)):
        if fi.cls is None or not prog.is_subclass(fi.cls, node) or fi.name not in ("render_to_output", "render_to_output_async"):
            continue
        for w in ast.walk(fi.node):
            if not (isinstance(w, (ast.With, ast.AsyncWith)) and any(isinstance(it.context_expr, ast.Call) and isinstance(it.context_expr.func, ast.Attribute) and it.context_expr.func.attr in ("extend", "loop") and norm(it.context_expr.func.value) == "context" for it in w.items)):
                continue
            n_with += 1
            inside = [c for b in w.body for c in ast.walk(b) if isinstance(c, ast.Call) and isinstance(c.func, ast.Attribute) and c.func.attr in ("evaluate", "evaluate_async") and c.args and norm(c.args[0]) == "context"]
            site = f"{fi.file}:{w.lineno} {fi.qualname}"
            what = f"{fi.qualname}: no argument expression is evaluated inside `with {norm(w.items[0].context_expr, 40)}`"
            if not inside:
                res.ok(rule, site, what, "arguments are evaluated before the bindings are pushed")
            for c in inside:
                res.fail(rule, file=fi.file, line=c.lineno, qualname=fi.qualname, construct=f"{fi.qualname}: `{norm(c, 40)}` inside `with {norm(w.items[0].context_expr, 30)}`", message=f"{fi.qualname} evaluates `{norm(c, 40)}` after pushing its own bindings: a name the tag binds (a keyword argument, the loop variable) shadows the caller's variable of that name inside the tag's own argument list - `{{% include 'p' with x as y, x: 'kw' %}}` binds y to 'kw', not to the caller's x", what=what)
    res.floor(rule, "with context.extend/loop blocks in render methods", n_with, 8)


_DEFASSIGN_POSITIVE = """
def f(args):
    if args:
        name = args[0]
    elif len(args) > 1:
        other = 1
    return name
"""


def check_definite_assignment(prog: Program, res: Result, rule: str, *, scope: str = "all") -> None:
    """No local variable is read on a path that has not bound it (UnboundLocalError is not a LiquidError and not an extraction
    result). scope = 'all' (every function of liquid2) or 'extraction' (messages.py and the message()/messages() methods)."""
    from sa.defassign import possibly_unbound

    pos = possibly_unbound(ast.parse(_DEFASSIGN_POSITIVE).body[0])  # type: ignore[arg-type]
    if len(pos) != 1 or pos[0][0].id != "name":
        raise AnalysisError(f"{rule}: definite-assignment positive example no longer yields exactly one finding")
    n_fn = 0
    for fi in sorted(prog.all_functions(), key=lambda f: (f.file, f.node.lineno)):
        if scope == "extraction" and not (fi.file == "liquid2/messages.py" or fi.name in ("message", "messages")):
            continue
        n_fn += 1
        for x, why in possibly_unbound(fi.node):
            res.fail(rule, file=fi.file, line=getattr(x, "lineno", fi.node.lineno), qualname=fi.qualname, construct=f"{fi.qualname}: `{x.id}` may be unbound", message=f"{fi.qualname} reads the local `{x.id}` on a path that never assigned it ({why}): UnboundLocalError, which is not a LiquidError, escapes", what=f"{fi.qualname}: every local is bound before it is read")
    res.ok(rule, "liquid2/**" if scope == "all" else "liquid2/messages.py + message()/messages()", f"{n_fn} functions: every read of a local is reached only through a binding of it", "forward must-analysis over the statement CFG (sa/defassign.py); positive example matched once")
    res.floor(rule, "functions analysed for definite assignment", n_fn, 900 if scope == "all" else 10)


def check_content_right_trim(prog: Program, res: Result, rule: str) -> None:
    """Literal text takes its right trim from the left marker of whatever markup follows it - for every kind of markup token (C18.R3 = C01.R10).

    The token classes that carry markers are read off liquid2/token.py (a `wc` field). Content.parse may tell them apart with
    isinstance(peeked, (…)) or with the type guards of token.py (is_tag_token, … - each declared `TypeGuard[<class>]`); either way
    every marker-carrying class must be covered, and the branch must assign the marker: `right_trim = peeked.wc[0]`."""
    tokmod = prog.mod("liquid2/token.py")
    markup_classes = {c.name for c in tokmod.classes.values() if any(isinstance(s, ast.AnnAssign) and isinstance(s.target, ast.Name) and s.target.id == "wc" for s in c.node.body)}
    res.floor(rule, "token classes with wc", len(markup_classes), 5)
    guards: dict[str, str] = {}
    for name, f in tokmod.functions.items():
        r = f.node.returns
        if r is not None and isinstance(r, ast.Subscript) and (dotted(r.value) or "").endswith("TypeGuard"):
            guards[name] = dotted(r.slice) or ""
    cp = prog.cls("liquid2.builtin.content.Content").methods.get("parse")
    if cp is None:
        raise AnalysisError("Content.parse vanished")
    covered: set[str] = set()
    for n in ast.walk(cp.node):
        if isinstance(n, ast.Call) and isinstance(n.func, ast.Name) and n.func.id == "isinstance" and len(n.args) == 2 and norm(n.args[0]) == "peeked":
            covered |= {dotted(x) or "" for x in (n.args[1].elts if isinstance(n.args[1], ast.Tuple) else [n.args[1]])}
        if isinstance(n, ast.Call) and isinstance(n.func, ast.Name) and n.func.id in guards and len(n.args) == 1 and norm(n.args[0]) == "peeked":
            covered.add(guards[n.func.id])

    def base_covered(name: str) -> bool:
        c = tokmod.classes.get(name)
        return c is not None and any(k.name in covered for k in prog.mro(c))

    # text followed by text (the lexer splits literal text at `{#` that opens no comment): no trimming between the two
    text_next = any(
        isinstance(i, ast.If) and (("isinstance(peeked, ContentToken)" in norm(i.test)) or ("is_content_token(peeked)" in norm(i.test))) and any(norm(b) == "right_trim = WhitespaceControl.PLUS" for b in i.body)
        for i in ast.walk(cp.node)
    )
    what_t = "Content.parse: text followed by more text keeps its trailing whitespace (right_trim = PLUS), whatever the default trim mode"
    if text_next:
        res.ok(rule, f"{cp.file}:{cp.node.lineno} Content.parse", what_t, "ContentToken branch sets PLUS")
    else:
        res.fail(rule, file=cp.file, line=cp.node.lineno, qualname="Content.parse", construct="text followed by text takes the default trim", message="when literal text is followed by more literal text (the lexer splits at a `{#` that opens no comment) its right side takes the environment's default trim: with default_trim='-' whitespace in the middle of plain text disappears, next to no markup at all", what=what_t)
    missing = sorted(m for m in markup_classes if not base_covered(m))
    what = "Content.parse takes right_trim = peeked.wc[0] for every markup token class"
    if not missing and "right_trim = peeked.wc[0]" in norm(cp.node, 3000) and "stream.peek()" in norm(cp.node, 3000):
        res.ok(rule, f"{cp.file}:{cp.node.lineno} Content.parse", what, f"covers {sorted(covered)}")
    else:
        res.fail(rule, file=cp.file, line=cp.node.lineno, qualname="Content.parse", construct=f"uncovered markup classes {missing}", message=f"text followed by {missing or 'markup'} does not take that markup's left marker as its right trim", what=what)


def check_freshness_equality(prog: Program, res: Result, rule: str) -> None:
    """A file-backed template is fresh iff the modification time recorded when it was loaded EQUALS the file's current one
    (C14.R3 = C09.R9): `>=` treats a source replaced by an older file (rollback, cp -p, rsync -t) as unchanged."""
    # freshness of file-backed templates: equality of the recorded and the current mtime
    n_up = 0
    for cinfo in prog.subclasses("liquid2.loader.BaseLoader"):
        for nm, m in cinfo.methods.items():
            if not nm.startswith("_uptodate"):
                continue
            n_up += 1
            cmps = [c for c in ast.walk(m.node) if isinstance(c, ast.Compare)]
            what = f"{cinfo.name}.{nm}: fresh iff recorded mtime == current st_mtime"
            from sa import twins as _tw

            sync_nm = _tw.strip_async_name(nm)
            if sync_nm != nm and sync_nm in cinfo.methods and _tw.is_default_delegation(m.node, sync_nm):
                res.ok(rule, f"{m.file}:{m.node.lineno} {cinfo.name}.{nm}", what, f"runs {cinfo.name}.{sync_nm} in an executor with the same arguments")
                continue
            # a missing file is stale (the reload then reports it): the only other exit allowed is `return False` in an OSError handler
            handlers = [h for h in ast.walk(m.node) if isinstance(h, ast.ExceptHandler)]
            if any(not (norm(h.type) in ("OSError", "FileNotFoundError") and len(h.body) == 1 and isinstance(h.body[0], ast.Return) and isinstance(h.body[0].value, ast.Constant) and h.body[0].value.value is False) for h in handlers):
                res.fail(rule, file=m.file, line=m.node.lineno, qualname=f"{cinfo.name}.{nm}", construct=f"{nm} swallows an error as fresh", message="the freshness test handles an error by reporting anything other than 'stale': a vanished or unreadable source keeps being served from the cache", what=what)
                continue
            if len(cmps) == 1 and len(cmps[0].ops) == 1 and isinstance(cmps[0].ops[0], ast.Eq) and "st_mtime" in norm(cmps[0]) and "mtime" in norm(cmps[0].left):
                res.ok(rule, f"{m.file}:{m.node.lineno} {cinfo.name}.{nm}", what, norm(cmps[0]))
            else:
                res.fail(rule, file=m.file, line=m.node.lineno, qualname=f"{cinfo.name}.{nm}", construct=f"{nm} comparison {[norm(c) for c in cmps]}", message="the freshness test is not an equality of modification times: a source replaced by an older file (rollback, cp -p, rsync -t) is treated as unchanged and the stale template keeps being served", what=what)
    res.floor(rule, "_uptodate implementations", n_up, 2)


def check_parser_trim_threading(prog: Program, res: Result, rule: str) -> None:
    """Parser.parse and Parser.parse_block thread the trim carry identically (C18.R3 = C01.R10): same arms; a markup arm takes
    left_trim from the LAST marker of the token (`wc[-1]`: a raw token has four); text resets it; the tag arm stores the carry
    before dispatch and reads it after."""
    parser = prog.cls("liquid2.parser.Parser")
    pa, pb = parser.methods.get("parse"), parser.methods.get("parse_block")
    if pa is None or pb is None:
        raise AnalysisError("Parser.parse / parse_block vanished")

    def arms(fn: ast.FunctionDef) -> dict[str, list[str]]:
        loop = next((n for n in ast.walk(fn) if isinstance(n, ast.While)), None)
        if loop is None:
            raise AnalysisError(f"no loop in {fn.name}")
        out: dict[str, list[str]] = {}
        node: ast.AST | None = next((s for s in loop.body if isinstance(s, ast.If)), None)
        while isinstance(node, ast.If):
            body = [norm(s, 300) for s in node.body if not (isinstance(s, ast.If) and "in end" in norm(s.test))]
            out[norm(node.test)] = body
            node = node.orelse[0] if len(node.orelse) == 1 and isinstance(node.orelse[0], ast.If) else None
        tail = [norm(s, 300) for s in loop.body if not isinstance(s, ast.If)]
        out["<loop tail>"] = tail
        return out

    aa, ab = arms(pa.node), arms(pb.node)
    for key in sorted(set(aa) | set(ab)):
        what = f"arm `{key}` identical in parse and parse_block"
        if aa.get(key) == ab.get(key):
            res.ok(rule, f"{parser.file}:{pa.node.lineno} Parser.parse/parse_block", what, "; ".join(aa[key])[:120])
        else:
            res.fail(rule, file=parser.file, line=pb.node.lineno, qualname="Parser.parse_block", construct=f"arm {key}: parse={aa.get(key)} parse_block={ab.get(key)}", message=f"the two parser loops disagree in arm `{key}`: text inside a block is trimmed differently from top-level text", what=what)
    # arm contents
    for fn, arm in ((pa, aa), (pb, ab)):
        for key, body in arm.items():
            if key == "<loop tail>" or "EOI" in key:
                continue
            what = f"{fn.name}: arm `{key}` threads the carry"
            if "is_content_token" in key:
                # after text only more text can follow without setting the carry: nothing is trimmed between two pieces of text
                ok = any("left_trim=left_trim" in s for s in body) and "left_trim = WhitespaceControl.PLUS" in body
            elif "is_tag_token" in key:
                ok = body and body[0] == "stream.trim_carry = token.wc[-1]" and body[-1] == "left_trim = stream.trim_carry"
            elif key.startswith("is_"):
                ok = "left_trim = token.wc[-1]" in body
            else:
                continue
            if ok:
                res.ok(rule, f"{parser.file}:{fn.node.lineno} Parser.{fn.name}", what, "; ".join(body)[:100])
            else:
                res.fail(rule, file=parser.file, line=fn.node.lineno, qualname=f"Parser.{fn.name}", construct=f"{fn.name} arm {key}: {body}", message=f"arm `{key}` does not hand the right-hand marker of this markup to the next text", what=what)
    # initial left trim
    what = "parse starts from env.default_trim, parse_block from stream.trim_carry"
    ia = [norm(s) for s in pa.node.body if isinstance(s, ast.Assign) and norm(s.targets[0]) == "left_trim"]
    ib = [norm(s) for s in pb.node.body if isinstance(s, ast.Assign) and norm(s.targets[0]) == "left_trim"]
    if len(ia) == 1 and ia[0].endswith("default_trim") and ib == ["left_trim = stream.trim_carry"]:
        res.ok(rule, f"{parser.file}:{pa.node.lineno} Parser", what, "declared difference only")
    else:
        res.fail(rule, file=parser.file, line=pb.node.lineno, qualname="Parser.parse_block", construct=f"initial left_trim parse={ia} parse_block={ib}", message="the first text of a block does not take its left trim from the tag that opened the block", what=what)


def check_render_for_item_isolation(prog: Program, res: Result, rule: str) -> None:
    """`render … for`: the isolated context is re-created for every item (C07.R8 = C01.R14)."""
    from sa.report import AnalysisError
    from sa.srcmodel import root_name

    rn = prog.cls("liquid2.builtin.tags.render_tag.RenderNode")
    n_loop_renders = 0
    for nm in ("render_to_output", "render_to_output_async"):
        m = rn.methods.get(nm)
        if m is None:
            raise AnalysisError(f"RenderNode.{nm} vanished")
        for loop in [x for x in ast.walk(m.node) if isinstance(x, (ast.For, ast.AsyncFor, ast.While))]:
            calls = [c for c in ast.walk(loop) if isinstance(c, ast.Call) and isinstance(c.func, ast.Attribute) and c.func.attr in ("render_with_context", "render_with_context_async")]
            for c in calls:
                n_loop_renders += 1
                ctx_arg = c.args[0] if c.args else None
                what = f"RenderNode.{nm}: `{norm(c, 60)}` in the item loop renders with a context created in that iteration"
                fresh = False
                if isinstance(ctx_arg, ast.Name):
                    # last statement-level assignment to the name that precedes the call inside the loop body
                    for st in loop.body:
                        if st.lineno > c.lineno:
                            break
                        if isinstance(st, ast.Assign) and any(isinstance(t, ast.Name) and t.id == ctx_arg.id for t in st.targets):
                            v = st.value
                            fresh = isinstance(v, ast.Call) and isinstance(v.func, ast.Attribute) and v.func.attr == "copy" and root_name(v.func.value) == "context"
                elif isinstance(ctx_arg, ast.Call) and isinstance(ctx_arg.func, ast.Attribute) and ctx_arg.func.attr == "copy":
                    fresh = True
                if fresh:
                    res.ok(rule, f"{m.file}:{c.lineno} RenderNode.{nm}", what, "context.copy(...) at the top level of the loop body")
                else:
                    res.fail(rule, file=m.file, line=c.lineno, qualname=f"RenderNode.{nm}", construct=f"{nm}: item loop reuses `{norm(ctx_arg) if ctx_arg is not None else '?'}`", message=f"the item loop of `render … for` renders every item with the same copied context `{norm(ctx_arg) if ctx_arg is not None else '?'}`: locals, counters and macros the partial creates for one item are visible to the next", what=what)
    res.floor(rule, "render_with_context calls inside item loops", n_loop_renders, 2)


def check_uptodate_is_bool(prog: Program, res: Result, rule: str) -> None:
    """Template.is_up_to_date treats anything but a real bool from uptodate() as stale (C14.R3 = C09.R11): the coroutine of an async uptodate called from the sync path is truthy."""
    from sa.report import AnalysisError
    from sa.util import guarded_by_test

    # Template.is_up_to_date: anything but a real bool from uptodate() counts as stale (an async uptodate called from the sync path returns a coroutine object)
    tm = prog.cls("liquid2.template.Template").methods.get("is_up_to_date")
    if tm is None:
        raise AnalysisError("Template.is_up_to_date vanished")
    tcfg = CFG(tm.node)
    what = "Template.is_up_to_date returns the uptodate() result only after checking it is a bool; otherwise stale"
    rets = [n for n in tcfg.nodes if n.kind == "stmt" and isinstance(n.node, ast.Return) and isinstance(n.node.value, ast.Name)]

    ok = bool(rets)
    for r in rets:
        v = r.node.value.id
        g = guarded_by_test(tcfg, r, lambda e, v=v: (True if norm(e) == f"not isinstance({v}, bool)" else (False if norm(e) == f"isinstance({v}, bool)" else None)))
        if g is None:
            ok = False
    if any(isinstance(n.node, ast.Return) and isinstance(n.node.value, ast.Call) and norm(n.node.value.func) in ("bool",) for n in tcfg.nodes if n.kind == "stmt"):
        ok = False
    if ok:
        res.ok(rule, f"{tm.file}:{tm.node.lineno} Template.is_up_to_date", what, "isinstance(_, bool) guard dominates the return")
    else:
        res.fail(rule, file=tm.file, line=tm.node.lineno, qualname="Template.is_up_to_date", construct="is_up_to_date returns a non-bool-checked value", message="a non-bool uptodate() result (e.g. the coroutine of an async uptodate called from the sync path) is treated as fresh: a template loaded asynchronously is never reloaded by the sync path", what=what)


def check_globals_merged(prog: Program, res: Result, rule: str) -> None:
    """Environment.from_string / get_template[_async] hand the loader self.make_globals(globals): the environment globals are part of the data of every template, cached or not (C10.R2 = C16.R11)."""
    from sa.report import AnalysisError

    env = prog.cls("liquid2.environment.Environment")
    # from_string / get_template route globals through make_globals; Template.__init__ stores them
    for name in ("from_string", "get_template", "get_template_async"):
        m = env.methods.get(name)
        if m is None:
            raise AnalysisError(f"Environment.{name} vanished")
        what = f"Environment.{name} passes self.make_globals(globals)"
        if "self.make_globals(globals)" in norm(m.node, 5000):
            res.ok(rule, f"{m.file}:{m.node.lineno} Environment.{name}", what, "globals merged with environment globals")
        else:
            res.fail(rule, file=m.file, line=m.node.lineno, qualname=f"Environment.{name}", construct=f"{name} does not call make_globals", message="template globals bypass the environment-globals merge", what=what)


def check_no_text_normalisation(prog: Program, res: Result, rule: str) -> None:
    """Template text is taken as written: no Unicode normalisation or case folding of names, paths or literals anywhere in liquid2
    (C10.R7 = C17.R13 = C20.R8). `unicodedata.normalize` at a binding site makes `assign é` (decomposed) bind a name the
    lookup, which reads the token as written, never finds; in the lexer it makes a token's value shorter than the text it spans;
    on a path segment it makes `a["e\\u0301"]` read another key than the one written. Expected count: zero (who-may-call rule)."""
    probe = ast.parse("import unicodedata\nx = unicodedata.normalize('NFC', name)\ny = name.casefold()")
    def hits(tree: ast.AST) -> list[ast.AST]:
        out: list[ast.AST] = []
        for n in ast.walk(tree):
            if isinstance(n, (ast.Import, ast.ImportFrom)) and any((a.name or "").split(".")[0] == "unicodedata" for a in n.names) or (isinstance(n, ast.ImportFrom) and (n.module or "") == "unicodedata"):
                out.append(n)
            elif isinstance(n, ast.Call) and isinstance(n.func, ast.Attribute) and n.func.attr in ("normalize", "casefold") and (n.func.attr == "casefold" or "unicodedata" in ast.unparse(n.func.value)):
                out.append(n)
            elif isinstance(n, ast.Call) and isinstance(n.func, ast.Name) and n.func.id == "normalize" and n.args and isinstance(n.args[0], ast.Constant) and str(n.args[0].value).upper() in ("NFC", "NFD", "NFKC", "NFKD"):
                out.append(n)
        return out

    if len(hits(probe)) != 3:
        raise AnalysisError(f"{rule}: matcher self-check failed")
    n_mod = 0
    for mod in sorted(prog.modules.values(), key=lambda m: m.relpath):
        n_mod += 1
        for h in hits(mod.tree):
            fi = prog.enclosing_function(mod, h)
            res.fail(rule, file=mod.relpath, line=h.lineno, qualname=fi.qualname if fi else "<module>", construct=f"{mod.relpath}: Unicode normalisation / case folding ({norm(h, 50)})", message=f"`{norm(h, 60)}` normalises template text: names, path segments and literals must stay as written - a binding site that normalises and a lookup that does not disagree on the name, a normalised token value is shorter than the text it spans, and a normalised literal is not the string that was written", what="no Unicode normalisation in liquid2")
    res.ok(rule, "liquid2/**", f"{n_mod} modules: unicodedata is not imported and nothing is case-folded", "who-may-call rule with expected count zero; matcher checked on a positive example")
    res.floor(rule, "modules scanned for text normalisation", n_mod, 60)


def check_no_self_stores(prog: Program, res: Result, rule: str, bases: tuple[str, ...], what_for: str, floor: int) -> None:
    """No method other than __init__/__new__/__setstate__ of the given class families stores to an attribute of self.
    AST nodes are shared by every render of a template (and by every call of a macro); a Template is shared by every caller of a
    caching loader, which rebinds its global_data on a hit - anything a method memoises on the instance is read back in another
    render, with another macro table, or with another caller's globals."""
    n = 0
    seen: set[str] = set()
    for base in bases:
        for ci in prog.subclasses(base):
            if ci.full in seen:
                continue
            seen.add(ci.full)
            for m in ci.methods.values():
                if m.name in ("__init__", "__new__", "__setstate__", "__init_subclass__"):
                    continue
                n += 1
                for st in ast.walk(m.node):
                    tgts = st.targets if isinstance(st, ast.Assign) else ([st.target] if isinstance(st, (ast.AugAssign, ast.AnnAssign)) and getattr(st, "value", None) is not None else [])
                    for t in tgts:
                        for x in ast.walk(t) if isinstance(t, (ast.Tuple, ast.List)) else [t]:
                            if isinstance(x, ast.Attribute) and isinstance(x.value, ast.Name) and x.value.id == "self" and prog.enclosing_function(m.module, st) is m:
                                res.fail(rule, file=m.file, line=st.lineno, qualname=m.qualname, construct=f"{m.qualname} stores self.{x.attr} after construction", message=f"{m.qualname} stores `self.{x.attr}` outside the constructor: {what_for}", what=f"{ci.name}: no attribute is stored after construction")
    res.ok(rule, "liquid2/**", f"{n} methods of {len(seen)} classes: no store to self outside construction", "assignment targets scanned (findings listed separately if any)")
    res.floor(rule, "methods scanned for stores to self", n, floor)


def check_env_globals_merge_shape(prog: Program, res: Result, rule: str) -> None:
    """Environment.make_globals merges the environment's globals and the template's as they are: `{**self.globals, **globals}` (or a
    plain copy of self.globals) - no entry is filtered out on the way (a nil-valued global that is dropped becomes an undefined)."""
    env = prog.cls("liquid2.environment.Environment")
    emg = env.methods.get("make_globals")
    if emg is None:
        raise AnalysisError("Environment.make_globals vanished")
    rets = [r.value for r in ast.walk(emg.node) if isinstance(r, ast.Return) and r.value is not None]
    what = "Environment.make_globals returns {**self.globals, **globals} (or a copy of self.globals): every entry of both, whatever its value"
    merged = [r for r in rets if isinstance(r, ast.Dict) and all(k is None for k in r.keys)]
    ok = len(merged) == 1 and [norm(v) for v in merged[0].values] == ["self.globals", "globals"] and all(isinstance(r, ast.Dict) or norm(r) == "dict(self.globals)" for r in rets)
    if ok:
        res.ok(rule, f"{emg.file}:{emg.node.lineno} Environment.make_globals", what, "plain merge")
    else:
        res.fail(rule, file=emg.file, line=emg.node.lineno, qualname="Environment.make_globals", construct=f"Environment.make_globals returns {[norm(r, 60) for r in rets]}", message="the environment/template globals are filtered or transformed while they are merged: a variable that exists in the data with value nil (or any filtered value) is missing from the scope - undefined under a strict policy although it exists", what=what)
