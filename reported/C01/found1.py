"""PRE-EXISTING VIOLATION: Unnamed cycle groups with different items share state when the items hash alike (1 vs 1.0, -1 vs -2, true vs 1).

Expected per the documented semantics (docs/tag_reference.md#cycle: cycles with different items are different iterators; each must start at its first item).
"""

import sys

from liquid2 import Environment

SOURCE = '{% cycle 1, 2 %}{% cycle 1.0, 2.0 %}|{% cycle -1, 5 %}{% cycle -2, 5 %}'
DATA = {}
EXPECTED = '11.0|-1-2'

try:
    got = Environment().from_string(SOURCE).render(**DATA)
except Exception as err:  # noqa: BLE001
    got = f"{type(err).__name__}: {str(err).splitlines()[0]}"

print("template:", repr(SOURCE))
print("data:    ", DATA)
print("expected:", repr(EXPECTED))
print("observed:", repr(got))

if got != EXPECTED:
    print("VIOLATION PRESENT")
    sys.exit(1)

print("ok (violation not present)")
