"""PRE-EXISTING VIOLATION: compact: 'key' raises when an item lacks the key (the documented example).

Expected per the documented semantics (docs/filter_reference.md#compact shows exactly this call dropping the pages without a category).
"""

import sys

from liquid2 import Environment

SOURCE = "{% assign c = pages | compact: 'category' %}{% for x in c %}-{{ x.category }}{% endfor %}"
DATA = {'pages': [{'category': 'business'}, {}, {'category': 'sports'}]}
EXPECTED = '-business-sports'

try:
    got = Environment().from_string(SOURCE).render(**DATA)
except Exception as err:  # noqa: BLE001
    got = f"{type(err).__name__}: {str(err).splitlines()[0]}"

print("template:", repr(SOURCE))
print("data:    ", DATA)
print("expected:", repr(EXPECTED))
print("observed:", repr(got))

if got != EXPECTED:
    print("VIOLATION PRESENT")
    sys.exit(1)

print("ok (violation not present)")
