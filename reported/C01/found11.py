"""PRE-EXISTING VIOLATION: The nil that map yields for a missing key equals nil but is truthy.

Expected per the documented semantics (docs/tag_reference.md#conditional-expressions: nil is falsy).
"""

import sys

from liquid2 import Environment

SOURCE = "{% assign c = pages | map: 'category' %}{% if c[1] == nil %}nil{% else %}value{% endif %},{% if c[1] %}truthy{% else %}falsy{% endif %}"
DATA = {'pages': [{'category': 'business'}, {}, {'category': 'sports'}]}
EXPECTED = 'nil,falsy'

try:
    got = Environment().from_string(SOURCE).render(**DATA)
except Exception as err:  # noqa: BLE001
    got = f"{type(err).__name__}: {str(err).splitlines()[0]}"

print("template:", repr(SOURCE))
print("data:    ", DATA)
print("expected:", repr(EXPECTED))
print("observed:", repr(got))

if got != EXPECTED:
    print("VIOLATION PRESENT")
    sys.exit(1)

print("ok (violation not present)")
