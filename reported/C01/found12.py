"""PRE-EXISTING VIOLATION: uniq treats true/1 and false/0 as duplicates although 1 == true is false in Liquid.

Expected per the documented semantics (values that are not equal are not duplicates).
"""

import sys

from liquid2 import Environment

SOURCE = '{% if 1 == true %}eq{% else %}ne{% endif %}|{{ l | uniq | size }}'
DATA = {'l': [1, True, 0, False]}
EXPECTED = 'ne|4'

try:
    got = Environment().from_string(SOURCE).render(**DATA)
except Exception as err:  # noqa: BLE001
    got = f"{type(err).__name__}: {str(err).splitlines()[0]}"

print("template:", repr(SOURCE))
print("data:    ", DATA)
print("expected:", repr(EXPECTED))
print("observed:", repr(got))

if got != EXPECTED:
    print("VIOLATION PRESENT")
    sys.exit(1)

print("ok (violation not present)")
