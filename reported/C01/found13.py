"""PRE-EXISTING VIOLATION: contains on an array treats true/1 as the same member although 1 == true is false in Liquid.

Expected per the documented semantics (membership should use the same equality as ==).
"""

import sys

from liquid2 import Environment

SOURCE = '{% if 1 == true %}eq{% else %}ne{% endif %}|{% if l contains true %}T{% else %}F{% endif %}'
DATA = {'l': [1, 2]}
EXPECTED = 'ne|F'

try:
    got = Environment().from_string(SOURCE).render(**DATA)
except Exception as err:  # noqa: BLE001
    got = f"{type(err).__name__}: {str(err).splitlines()[0]}"

print("template:", repr(SOURCE))
print("data:    ", DATA)
print("expected:", repr(EXPECTED))
print("observed:", repr(got))

if got != EXPECTED:
    print("VIOLATION PRESENT")
    sys.exit(1)

print("ok (violation not present)")
