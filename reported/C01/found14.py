"""PRE-EXISTING VIOLATION: contains on a string stringifies the right operand with Python str(): nil becomes 'None', true becomes 'True'.

Expected per the documented semantics (the Liquid string form of nil is '' / of true is 'true' ({{ true }} renders 'true')).
"""

import sys

from liquid2 import Environment

SOURCE = "{% if 'None' contains nil %}T{% else %}F{% endif %}|{% if 'it is true' contains true %}T{% else %}F{% endif %}"
DATA = {}
EXPECTED = 'F|T'

try:
    got = Environment().from_string(SOURCE).render(**DATA)
except Exception as err:  # noqa: BLE001
    got = f"{type(err).__name__}: {str(err).splitlines()[0]}"

print("template:", repr(SOURCE))
print("data:    ", DATA)
print("expected:", repr(EXPECTED))
print("observed:", repr(got))

if got != EXPECTED:
    print("VIOLATION PRESENT")
    sys.exit(1)

print("ok (violation not present)")
