"""PRE-EXISTING VIOLATION: capture of a whitespace-only block yields the empty string (blank-block suppression leaks into capture/macro bodies).

Expected per the documented semantics (docs/whitespace_control.md: only blank *conditional* blocks are suppressed; capture saves the text of its block).
"""

import sys

from liquid2 import Environment

SOURCE = '{% capture x %}  {% endcapture %}[{{ x }}]'
DATA = {}
EXPECTED = '[  ]'

try:
    got = Environment().from_string(SOURCE).render(**DATA)
except Exception as err:  # noqa: BLE001
    got = f"{type(err).__name__}: {str(err).splitlines()[0]}"

print("template:", repr(SOURCE))
print("data:    ", DATA)
print("expected:", repr(EXPECTED))
print("observed:", repr(got))

if got != EXPECTED:
    print("VIOLATION PRESENT")
    sys.exit(1)

print("ok (violation not present)")
