"""PRE-EXISTING VIOLATION: A macro cannot call another macro (or itself): call inside a macro body renders nothing.

Expected per the documented semantics (call means the same thing wherever it is written; macros are template-level definitions).
"""

import sys

from liquid2 import Environment

SOURCE = '{% macro a %}A{% endmacro %}{% macro b %}{% call a %}B{% endmacro %}{% call b %}'
DATA = {}
EXPECTED = 'AB'

try:
    got = Environment().from_string(SOURCE).render(**DATA)
except Exception as err:  # noqa: BLE001
    got = f"{type(err).__name__}: {str(err).splitlines()[0]}"

print("template:", repr(SOURCE))
print("data:    ", DATA)
print("expected:", repr(EXPECTED))
print("observed:", repr(got))

if got != EXPECTED:
    print("VIOLATION PRESENT")
    sys.exit(1)

print("ok (violation not present)")
