"""PRE-EXISTING VIOLATION: A range literal with spaces around `..` is a syntax error only when the start is a variable.

Expected per the documented semantics (layout inside an expression must not change its meaning).
"""

import sys

from liquid2 import Environment

SOURCE = '{% for i in (1 .. 3) %}{{ i }}{% endfor %}|{% for i in (a..b) %}{{ i }}{% endfor %}|{% for i in (a .. b) %}{{ i }}{% endfor %}'
DATA = {'a': 1, 'b': 3}
EXPECTED = '123|123|123'

try:
    got = Environment().from_string(SOURCE).render(**DATA)
except Exception as err:  # noqa: BLE001
    got = f"{type(err).__name__}: {str(err).splitlines()[0]}"

print("template:", repr(SOURCE))
print("data:    ", DATA)
print("expected:", repr(EXPECTED))
print("observed:", repr(got))

if got != EXPECTED:
    print("VIOLATION PRESENT")
    sys.exit(1)

print("ok (violation not present)")
