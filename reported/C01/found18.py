"""PRE-EXISTING VIOLATION: An empty (descending) range renders as '0..-1'.

Expected per the documented semantics (the string form of a range is start..stop).
"""

import sys

from liquid2 import Environment

SOURCE = '{{ (1..3) }}|{{ (3..1) }}'
DATA = {}
EXPECTED = '1..3|3..1'

try:
    got = Environment().from_string(SOURCE).render(**DATA)
except Exception as err:  # noqa: BLE001
    got = f"{type(err).__name__}: {str(err).splitlines()[0]}"

print("template:", repr(SOURCE))
print("data:    ", DATA)
print("expected:", repr(EXPECTED))
print("observed:", repr(got))

if got != EXPECTED:
    print("VIOLATION PRESENT")
    sys.exit(1)

print("ok (violation not present)")
