"""PRE-EXISTING VIOLATION: `not` swallows a following `and`: `not a and b` is parsed as `not (a and b)`.

Expected per the documented semantics (docs/tag_reference.md#operator-precedence: precedence is 'just like in Python' (and PRECEDENCE_PREFIX is the highest level in builtin/expressions.py)).
"""

import sys

from liquid2 import Environment

SOURCE = '{% if not a and b %}T{% else %}F{% endif %}'
DATA = {'a': False, 'b': False}
EXPECTED = 'F'

try:
    got = Environment().from_string(SOURCE).render(**DATA)
except Exception as err:  # noqa: BLE001
    got = f"{type(err).__name__}: {str(err).splitlines()[0]}"

print("template:", repr(SOURCE))
print("data:    ", DATA)
print("expected:", repr(EXPECTED))
print("observed:", repr(got))

if got != EXPECTED:
    print("VIOLATION PRESENT")
    sys.exit(1)

print("ok (violation not present)")
