"""PRE-EXISTING VIOLATION: Whitespace control does not remove a trailing newline at the very end of the template when other whitespace precedes it.

Expected per the documented semantics (docs/whitespace_control.md: `-` removes all whitespace until the next printing character).
"""

import sys

from liquid2 import Environment

SOURCE = 'a{{ 1 -}}  \n'
DATA = {}
EXPECTED = 'a1'

try:
    got = Environment().from_string(SOURCE).render(**DATA)
except Exception as err:  # noqa: BLE001
    got = f"{type(err).__name__}: {str(err).splitlines()[0]}"

print("template:", repr(SOURCE))
print("data:    ", DATA)
print("expected:", repr(EXPECTED))
print("observed:", repr(got))

if got != EXPECTED:
    print("VIOLATION PRESENT")
    sys.exit(1)

print("ok (violation not present)")
