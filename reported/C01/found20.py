"""PRE-EXISTING VIOLATION: Strings 'inf', 'nan', 'Infinity' are accepted as numbers by the math filters.

Expected per the documented semantics (docs/filter_reference.md#plus: if conversion to a number fails, 0 is used).
"""

import sys

from liquid2 import Environment

SOURCE = "{{ 'inf' | plus: 1 }}|{{ 'nan' | plus: 1 }}|{{ 'Infinity' | times: 2 }}"
DATA = {}
EXPECTED = '1|1|0'

try:
    got = Environment().from_string(SOURCE).render(**DATA)
except Exception as err:  # noqa: BLE001
    got = f"{type(err).__name__}: {str(err).splitlines()[0]}"

print("template:", repr(SOURCE))
print("data:    ", DATA)
print("expected:", repr(EXPECTED))
print("observed:", repr(got))

if got != EXPECTED:
    print("VIOLATION PRESENT")
    sys.exit(1)

print("ok (violation not present)")
