"""PRE-EXISTING VIOLATION: A boolean used as an array index selects an element (true -> 1, false -> 0).

Expected per the documented semantics (true/false are not integers in Liquid (1 == true is false); only integer indexes select array items).
"""

import sys

from liquid2 import Environment

SOURCE = '[{{ a[t] }}][{{ a[f] }}]'
DATA = {'a': ['x', 'y'], 't': True, 'f': False}
EXPECTED = '[][]'

try:
    got = Environment().from_string(SOURCE).render(**DATA)
except Exception as err:  # noqa: BLE001
    got = f"{type(err).__name__}: {str(err).splitlines()[0]}"

print("template:", repr(SOURCE))
print("data:    ", DATA)
print("expected:", repr(EXPECTED))
print("observed:", repr(got))

if got != EXPECTED:
    print("VIOLATION PRESENT")
    sys.exit(1)

print("ok (violation not present)")
