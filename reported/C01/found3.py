"""PRE-EXISTING VIOLATION: append stringifies its argument with Python str() instead of the Liquid string form.

Expected per the documented semantics (docs/filter_reference.md#append: non-string arguments are coerced to a (Liquid) string; prepend renders 'a', 'truea', '12a' for the same arguments).
"""

import sys

from liquid2 import Environment

SOURCE = "{{ 'a' | append: nil }}|{{ 'a' | append: true }}|{{ 'a' | append: l }}"
DATA = {'l': [1, 2]}
EXPECTED = 'a|atrue|a12'

try:
    got = Environment().from_string(SOURCE).render(**DATA)
except Exception as err:  # noqa: BLE001
    got = f"{type(err).__name__}: {str(err).splitlines()[0]}"

print("template:", repr(SOURCE))
print("data:    ", DATA)
print("expected:", repr(EXPECTED))
print("observed:", repr(got))

if got != EXPECTED:
    print("VIOLATION PRESENT")
    sys.exit(1)

print("ok (violation not present)")
