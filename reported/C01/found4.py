"""PRE-EXISTING VIOLATION: join stringifies a nil/boolean separator with Python str().

Expected per the documented semantics (the Liquid string form of nil is the empty string and of true is 'true').
"""

import sys

from liquid2 import Environment

SOURCE = '{{ l | join: nil }}|{{ l | join: true }}'
DATA = {'l': [1, 2]}
EXPECTED = '12|1true2'

try:
    got = Environment().from_string(SOURCE).render(**DATA)
except Exception as err:  # noqa: BLE001
    got = f"{type(err).__name__}: {str(err).splitlines()[0]}"

print("template:", repr(SOURCE))
print("data:    ", DATA)
print("expected:", repr(EXPECTED))
print("observed:", repr(got))

if got != EXPECTED:
    print("VIOLATION PRESENT")
    sys.exit(1)

print("ok (violation not present)")
