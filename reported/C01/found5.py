"""PRE-EXISTING VIOLATION: remove_last / replace_last do nothing when the last occurrence is at the very start of the input.

Expected per the documented semantics (docs/filter_reference.md#remove_last: the last occurrence of the argument is removed).
"""

import sys

from liquid2 import Environment

SOURCE = "{{ 'abc' | remove_last: 'a' }}|{{ 'abc' | replace_last: 'a', 'x' }}"
DATA = {}
EXPECTED = 'bc|xbc'

try:
    got = Environment().from_string(SOURCE).render(**DATA)
except Exception as err:  # noqa: BLE001
    got = f"{type(err).__name__}: {str(err).splitlines()[0]}"

print("template:", repr(SOURCE))
print("data:    ", DATA)
print("expected:", repr(EXPECTED))
print("observed:", repr(got))

if got != EXPECTED:
    print("VIOLATION PRESENT")
    sys.exit(1)

print("ok (violation not present)")
