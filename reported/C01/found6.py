"""PRE-EXISTING VIOLATION: truncate with a length shorter than the ellipsis returns a string LONGER than asked for.

Expected per the documented semantics (docs/filter_reference.md#truncate: input is truncated to length minus the length of the ellipsis (not less than zero characters), then the ellipsis is appended).
"""

import sys

from liquid2 import Environment

SOURCE = "{{ 'hello' | truncate: 2 }}|{{ 'hello' | truncate: 0 }}"
DATA = {}
EXPECTED = '...|...'

try:
    got = Environment().from_string(SOURCE).render(**DATA)
except Exception as err:  # noqa: BLE001
    got = f"{type(err).__name__}: {str(err).splitlines()[0]}"

print("template:", repr(SOURCE))
print("data:    ", DATA)
print("expected:", repr(EXPECTED))
print("observed:", repr(got))

if got != EXPECTED:
    print("VIOLATION PRESENT")
    sys.exit(1)

print("ok (violation not present)")
