"""PRE-EXISTING VIOLATION: truncatewords appends the ellipsis even though no word was removed.

Expected per the documented semantics (docs/filter_reference.md#truncatewords: nothing is truncated, so nothing should be marked as truncated).
"""

import sys

from liquid2 import Environment

SOURCE = "{{ 'a b c' | truncatewords: 3 }}"
DATA = {}
EXPECTED = 'a b c'

try:
    got = Environment().from_string(SOURCE).render(**DATA)
except Exception as err:  # noqa: BLE001
    got = f"{type(err).__name__}: {str(err).splitlines()[0]}"

print("template:", repr(SOURCE))
print("data:    ", DATA)
print("expected:", repr(EXPECTED))
print("observed:", repr(got))

if got != EXPECTED:
    print("VIOLATION PRESENT")
    sys.exit(1)

print("ok (violation not present)")
