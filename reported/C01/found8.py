"""PRE-EXISTING VIOLATION: sum raises on a non-numeric string instead of ignoring it.

Expected per the documented semantics (docs/filter_reference.md#sum: returns the sum of all *numeric* elements (filter.decimal_arg means to fall back to 0)).
"""

import sys

from liquid2 import Environment

SOURCE = "{{ '1,x,2' | split: ',' | sum }}"
DATA = {}
EXPECTED = '3'

try:
    got = Environment().from_string(SOURCE).render(**DATA)
except Exception as err:  # noqa: BLE001
    got = f"{type(err).__name__}: {str(err).splitlines()[0]}"

print("template:", repr(SOURCE))
print("data:    ", DATA)
print("expected:", repr(EXPECTED))
print("observed:", repr(got))

if got != EXPECTED:
    print("VIOLATION PRESENT")
    sys.exit(1)

print("ok (violation not present)")
