"""PRE-EXISTING VIOLATION: map | compact (the documented idiom) does not remove the items map produced for missing keys.

Expected per the documented semantics (docs/filter_reference.md#compact shows exactly this pipeline removing the missing categories).
"""

import sys

from liquid2 import Environment

SOURCE = "{% assign c = pages | map: 'category' | compact %}{% for x in c %}-{{ x }}{% endfor %}|{{ c | size }}"
DATA = {'pages': [{'category': 'business'}, {}, {'category': 'sports'}]}
EXPECTED = '-business-sports|2'

try:
    got = Environment().from_string(SOURCE).render(**DATA)
except Exception as err:  # noqa: BLE001
    got = f"{type(err).__name__}: {str(err).splitlines()[0]}"

print("template:", repr(SOURCE))
print("data:    ", DATA)
print("expected:", repr(EXPECTED))
print("observed:", repr(got))

if got != EXPECTED:
    print("VIOLATION PRESENT")
    sys.exit(1)

print("ok (violation not present)")
