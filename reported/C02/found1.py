"""A filter raising KeyError(<huge int>) breaks error translation in Filter.evaluate."""

import sys
import traceback

from liquid2 import Environment
from liquid2.exceptions import LiquidError


def describe(err: LiquidError) -> None:
    """Every LiquidError must be describable without raising."""
    str(err)
    err.detailed_message()
    err.context()


def check(label, func):
    """Run _func_; return True if the property held (success or LiquidError)."""
    print(f"input:    {label}")
    print("expected: render succeeds or raises an exception derived from LiquidError")
    try:
        result = func()
    except LiquidError as err:
        try:
            describe(err)
        except Exception as err2:  # noqa: BLE001
            print(f"observed: LiquidError whose message can't be built: {type(err2).__name__}: {err2}")
            return False
        print(f"observed: {type(err).__name__} (ok)")
        return True
    except BaseException as err:  # noqa: BLE001
        tb = traceback.extract_tb(err.__traceback__)[-1]
        print(f"observed: {type(err).__name__}: {str(err)[:100]} (at {tb.filename}:{tb.lineno})")
        return False
    print(f"observed: rendered {result!r:.80} (ok)")
    return True

env = Environment()
SOURCE = "{{ d | compact: huge }}"
DATA = {"d": {"a": 1}, "huge": 10**5000}
ok = check(f"{SOURCE!r} with d={{'a': 1}}, huge=10**5000", lambda: env.from_string(SOURCE).render(**DATA))
sys.exit(0 if ok else 1)
