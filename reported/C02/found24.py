"""Lexing `{` followed by n `#` characters takes time cubic in n (backreference in the comment rule)."""

import subprocess
import sys

CHILD = r'''
import sys
import time
from liquid2 import Environment

env = Environment()
for n in (1000, 2000, 4000):
    start = time.perf_counter()
    env.from_string("{" + "#" * n)
    print(n, round(time.perf_counter() - start, 3), flush=True)
'''

TIMEOUT = 10
print("input:    '{' + '#' * n for n in 1000, 2000, 4000 (parse only)")
print("expected: parse time roughly proportional to n (a few milliseconds for 4 KB)")
try:
    proc = subprocess.run([sys.executable, "-c", CHILD], capture_output=True, text=True, timeout=TIMEOUT, check=False)
    out = proc.stdout
except subprocess.TimeoutExpired as err:
    out = (err.stdout or b"").decode() if isinstance(err.stdout, bytes) else (err.stdout or "")
    print(f"observed: not finished after {TIMEOUT} seconds; timings so far: {out.split()}")
    sys.exit(1)

timings = [line.split() for line in out.strip().splitlines()]
print(f"observed: (n, seconds) = {timings}")
t1000 = float(timings[0][1])
t4000 = float(timings[2][1])
# Linear would be 4x, quadratic 16x. Allow up to 24x before calling it cubic.
if t4000 > 1.0 and t4000 > 24 * max(t1000, 1e-4):
    print(f"          4x the input took {t4000 / max(t1000, 1e-4):.0f}x the time")
    sys.exit(1)
sys.exit(0)
