"""Array filters materialise range literals in full; no configured limit bounds that work."""

import sys

from liquid2 import Environment
from liquid2.exceptions import LiquidError

env = Environment()
env.loop_iteration_limit = 1000
env.output_stream_limit = 1000
env.local_namespace_limit = 1000

N = 5_000_000
SOURCE = "{{ (1..%d) | sum }}" % N
print(f"input:    {SOURCE!r} with loop_iteration_limit=output_stream_limit=local_namespace_limit=1000")
print("expected: a ResourceLimitError, as for '{% for i in (1..5000000) %}', so that work is bounded by the limits")
try:
    result = env.from_string(SOURCE).render()
except LiquidError as err:
    print(f"observed: {type(err).__name__} (ok)")
    sys.exit(0)

print(f"observed: rendered {result!r}: all {N} items were visited (and held in a list) with no limit applied")
sys.exit(1 if result == str(N * (N + 1) // 2) else 0)
