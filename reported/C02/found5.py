"""`for ... offset:` skips items one by one, so a long range with a big offset never returns.

The configured loop iteration limit is checked against the number of items that
will be rendered (6 here), not the number that will be skipped.
"""

import subprocess
import sys

CHILD = r'''
from liquid2 import Environment
from liquid2.exceptions import LiquidError

env = Environment()
env.loop_iteration_limit = 1000
source = "{% for i in (1..100000000005) offset: 99999999999 %}{{ i }} {% endfor %}"
try:
    print(env.from_string(source).render())
except LiquidError as err:
    print(type(err).__name__)
'''

TIMEOUT = 5
print("input:    '{% for i in (1..100000000005) offset: 99999999999 %}{{ i }} {% endfor %}' with loop_iteration_limit=1000")
print(f"expected: six numbers, or a LiquidError, within {TIMEOUT} seconds")
try:
    proc = subprocess.run([sys.executable, "-c", CHILD], capture_output=True, text=True, timeout=TIMEOUT, check=False)
except subprocess.TimeoutExpired:
    print(f"observed: still running after {TIMEOUT} seconds (islice consumes 10**11 items)")
    sys.exit(1)

print(f"observed: {proc.stdout.strip()!r} {proc.stderr.strip()[-200:]!r}")
sys.exit(0 if proc.returncode == 0 else 1)
