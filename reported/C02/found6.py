"""`contains`/`in` with a long range and a non-integer operand scans the range item by item."""

import subprocess
import sys

CHILD = r'''
from liquid2 import Environment
from liquid2.exceptions import LiquidError

env = Environment()
env.loop_iteration_limit = 1000
source = "{% if 'a' in (1..99999999999999999999) %}y{% else %}n{% endif %}"
try:
    print(env.from_string(source).render())
except LiquidError as err:
    print(type(err).__name__)
'''

TIMEOUT = 5
print("input:    \"{% if 'a' in (1..99999999999999999999) %}y{% else %}n{% endif %}\" with loop_iteration_limit=1000")
print(f"expected: 'n', or a LiquidError, within {TIMEOUT} seconds")
try:
    proc = subprocess.run([sys.executable, "-c", CHILD], capture_output=True, text=True, timeout=TIMEOUT, check=False)
except subprocess.TimeoutExpired:
    print(f"observed: still running after {TIMEOUT} seconds (range.__contains__ falls back to a linear scan)")
    sys.exit(1)

print(f"observed: {proc.stdout.strip()!r} {proc.stderr.strip()[-200:]!r}")
sys.exit(0 if proc.returncode == 0 else 1)
