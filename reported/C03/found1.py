"""Objects with a permissive `__getattr__` (the common "dotdict" recipe) resolve
in render() but are undefined in render_async().

RenderContext.get_item_async() decides whether to await `__getitem_async__` with
`hasattr(obj, "__getitem_async__")`. For `class dotdict(dict): __getattr__ =
dict.get`, hasattr() is True (it returns None), awaiting `None(key)` raises
TypeError, and get_async() swallows the TypeError as "undefined".
"""

import asyncio
import sys

from liquid2 import Environment
from collections import abc


# --- helpers ---------------------------------------------------------------

class LazyDrop(abc.Mapping):
    """A lazily awaited drop.

    The real lookup is asynchronous. The synchronous `__getitem__` is the usual
    thin blocking wrapper around it, so the two always return the same value.
    The wrapper can't be used from inside a running event loop, which is exactly
    why `render_async()` is documented to await `__getitem_async__()` instead
    of calling `__getitem__()`.
    """

    def __init__(self, data):
        self.data = data

    def __len__(self):
        return len(self.data)

    def __iter__(self):
        return iter(self.data)

    def __getitem__(self, key):
        return asyncio.run(self.__getitem_async__(key))

    async def __getitem_async__(self, key):
        await asyncio.sleep(0)
        return self.data[key]


def describe(err):
    token = getattr(err, "token", None)
    return (
        type(err).__name__,
        getattr(err, "template_name", None),
        getattr(token, "start", None),
        getattr(err, "message", str(err)),
    )


def run_sync(template, **data):
    try:
        return ("ok", template.render(**data))
    except Exception as err:  # noqa: BLE001
        return ("error", describe(err))


def run_async(template, **data):
    async def coro():
        return await template.render_async(**data)

    try:
        return ("ok", asyncio.run(coro()))
    except Exception as err:  # noqa: BLE001
        return ("error", describe(err))


def compare(template, **data):
    """Print and return True if render() and render_async() agree."""
    want = run_sync(template, **data)
    got = run_async(template, **data)
    print(f"expected (render):       {want}")
    print(f"observed (render_async): {got}")
    same = want == got
    print("OK: identical" if same else "VIOLATION: render_async() differs from render()")
    return same


# --- the case --------------------------------------------------------------



class dotdict(dict):  # noqa: N801
    """dot.notation access to dictionary attributes."""

    __getattr__ = dict.get


env = Environment()
template = env.from_string(
    "{{ user.name }} has {{ user.orders.size }} orders"
    "{% for o in user.orders %}, #{{ o.id }}{% endfor %}",
    name="main.liquid",
)
data = {"user": dotdict(name="Sue", orders=[dotdict(id=1), dotdict(id=2)])}
sys.exit(0 if compare(template, **data) else 1)
