"""A template with ~200-245 nested block tags renders with render_async() but
raises RecursionError with render() (default recursion limit, CPython 3.12).

The sync path uses one more Python frame per nesting level than the async path:
BlockNode.render_to_output() sums a generator expression (its own frame), while
BlockNode.render_to_output_async() uses a list comprehension (inlined). So there
is a band of nesting depths that parse fine and where only one of the two
render paths overflows the stack.

Responsible: liquid2/ast.py BlockNode.render_to_output / render_to_output_async.
"""

import asyncio
import sys

from liquid2 import Environment
from collections import abc


# --- helpers ---------------------------------------------------------------

class LazyDrop(abc.Mapping):
    """A lazily awaited drop.

    The real lookup is asynchronous. The synchronous `__getitem__` is the usual
    thin blocking wrapper around it, so the two always return the same value.
    The wrapper can't be used from inside a running event loop, which is exactly
    why `render_async()` is documented to await `__getitem_async__()` instead
    of calling `__getitem__()`.
    """

    def __init__(self, data):
        self.data = data

    def __len__(self):
        return len(self.data)

    def __iter__(self):
        return iter(self.data)

    def __getitem__(self, key):
        return asyncio.run(self.__getitem_async__(key))

    async def __getitem_async__(self, key):
        await asyncio.sleep(0)
        return self.data[key]


def describe(err):
    token = getattr(err, "token", None)
    return (
        type(err).__name__,
        getattr(err, "template_name", None),
        getattr(token, "start", None),
        getattr(err, "message", str(err)),
    )


def run_sync(template, **data):
    try:
        return ("ok", template.render(**data))
    except Exception as err:  # noqa: BLE001
        return ("error", describe(err))


def run_async(template, **data):
    async def coro():
        return await template.render_async(**data)

    try:
        return ("ok", asyncio.run(coro()))
    except Exception as err:  # noqa: BLE001
        return ("error", describe(err))


def compare(template, **data):
    """Print and return True if render() and render_async() agree."""
    want = run_sync(template, **data)
    got = run_async(template, **data)
    print(f"expected (render):       {want}")
    print(f"observed (render_async): {got}")
    same = want == got
    print("OK: identical" if same else "VIOLATION: render_async() differs from render()")
    return same


# --- the case --------------------------------------------------------------


DEPTH = 220
env = Environment()
source = "{% if true %}" * DEPTH + "x" + "{% endif %}" * DEPTH
template = env.from_string(source, name="main.liquid")
print(f"{DEPTH} nested if tags, recursion limit {sys.getrecursionlimit()}")
sys.exit(0 if compare(template) else 1)
