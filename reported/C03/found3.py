"""`{{ block.super }}` under render_async() loads partial templates through the
loader's synchronous API (`get_source`) rather than `get_source_async`.

The loader below stores templates behind an async API; its synchronous
`get_source` is the usual blocking wrapper. render() and render_async() agree
for plain `{% render %}`, `{% include %}` and `{% extends %}`, but a
`{% render %}` inside a parent block that is reached through `block.super` is
loaded with `get_source()` while the event loop is running.

Responsible: liquid2/builtin/tags/extends_tag.py BlockDrop.__getitem__.
"""

import asyncio
import sys

from liquid2 import Environment
from liquid2.exceptions import TemplateNotFoundError
from liquid2.loader import BaseLoader
from liquid2.loader import TemplateSource
from collections import abc


# --- helpers ---------------------------------------------------------------

class LazyDrop(abc.Mapping):
    """A lazily awaited drop.

    The real lookup is asynchronous. The synchronous `__getitem__` is the usual
    thin blocking wrapper around it, so the two always return the same value.
    The wrapper can't be used from inside a running event loop, which is exactly
    why `render_async()` is documented to await `__getitem_async__()` instead
    of calling `__getitem__()`.
    """

    def __init__(self, data):
        self.data = data

    def __len__(self):
        return len(self.data)

    def __iter__(self):
        return iter(self.data)

    def __getitem__(self, key):
        return asyncio.run(self.__getitem_async__(key))

    async def __getitem_async__(self, key):
        await asyncio.sleep(0)
        return self.data[key]


def describe(err):
    token = getattr(err, "token", None)
    return (
        type(err).__name__,
        getattr(err, "template_name", None),
        getattr(token, "start", None),
        getattr(err, "message", str(err)),
    )


def run_sync(template, **data):
    try:
        return ("ok", template.render(**data))
    except Exception as err:  # noqa: BLE001
        return ("error", describe(err))


def run_async(template, **data):
    async def coro():
        return await template.render_async(**data)

    try:
        return ("ok", asyncio.run(coro()))
    except Exception as err:  # noqa: BLE001
        return ("error", describe(err))


def compare(template, **data):
    """Print and return True if render() and render_async() agree."""
    want = run_sync(template, **data)
    got = run_async(template, **data)
    print(f"expected (render):       {want}")
    print(f"observed (render_async): {got}")
    same = want == got
    print("OK: identical" if same else "VIOLATION: render_async() differs from render()")
    return same


# --- the case --------------------------------------------------------------


TEMPLATES = {
    "layouts/base.liquid": (
        "<nav>{% block nav %}{% render 'partials/links.liquid' %}{% endblock %}</nav>"
    ),
    "partials/links.liquid": "home|about",
    "pages/plain.liquid": (
        "{% extends 'layouts/base.liquid' %}"
        "{% block nav %}{% render 'partials/links.liquid' %}|more{% endblock %}"
    ),
    "pages/super.liquid": (
        "{% extends 'layouts/base.liquid' %}"
        "{% block nav %}{{ block.super }}|more{% endblock %}"
    ),
}


class AsyncStoreLoader(BaseLoader):
    async def get_source_async(self, env, template_name, *, context=None, **kwargs):
        await asyncio.sleep(0)  # network / database round trip
        try:
            return TemplateSource(TEMPLATES[template_name], template_name, None)
        except KeyError as err:
            raise TemplateNotFoundError(template_name) from err

    def get_source(self, env, template_name, *, context=None, **kwargs):
        return asyncio.run(
            self.get_source_async(env, template_name, context=context, **kwargs)
        )


env = Environment(loader=AsyncStoreLoader())

print("control: partial rendered directly from the overriding block")
ok = compare(env.get_template("pages/plain.liquid"))
print("case: same partial reached through block.super")
ok = compare(env.get_template("pages/super.liquid")) and ok
sys.exit(0 if ok else 1)
