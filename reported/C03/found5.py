"""Filters that read a property of each item (`map: 'title'`, `where`, `sort`,
`sum`, `find`, `has`, ...) use `__getitem__` on lazily awaited drops inside
render_async(), although paths (`{{ p.title }}`) await `__getitem_async__`.

Responsible: liquid2/builtin/expressions.py Filter.evaluate_async (always calls
the synchronous filter; the `filter_async` hook that RenderContext.filter()
prepares is never used) and the `_getitem` helpers in liquid2/builtin/filters.
"""

import asyncio
import sys

from liquid2 import Environment
from collections import abc


# --- helpers ---------------------------------------------------------------

class LazyDrop(abc.Mapping):
    """A lazily awaited drop.

    The real lookup is asynchronous. The synchronous `__getitem__` is the usual
    thin blocking wrapper around it, so the two always return the same value.
    The wrapper can't be used from inside a running event loop, which is exactly
    why `render_async()` is documented to await `__getitem_async__()` instead
    of calling `__getitem__()`.
    """

    def __init__(self, data):
        self.data = data

    def __len__(self):
        return len(self.data)

    def __iter__(self):
        return iter(self.data)

    def __getitem__(self, key):
        return asyncio.run(self.__getitem_async__(key))

    async def __getitem_async__(self, key):
        await asyncio.sleep(0)
        return self.data[key]


def describe(err):
    token = getattr(err, "token", None)
    return (
        type(err).__name__,
        getattr(err, "template_name", None),
        getattr(token, "start", None),
        getattr(err, "message", str(err)),
    )


def run_sync(template, **data):
    try:
        return ("ok", template.render(**data))
    except Exception as err:  # noqa: BLE001
        return ("error", describe(err))


def run_async(template, **data):
    async def coro():
        return await template.render_async(**data)

    try:
        return ("ok", asyncio.run(coro()))
    except Exception as err:  # noqa: BLE001
        return ("error", describe(err))


def compare(template, **data):
    """Print and return True if render() and render_async() agree."""
    want = run_sync(template, **data)
    got = run_async(template, **data)
    print(f"expected (render):       {want}")
    print(f"observed (render_async): {got}")
    same = want == got
    print("OK: identical" if same else "VIOLATION: render_async() differs from render()")
    return same


# --- the case --------------------------------------------------------------


env = Environment()
products = [LazyDrop({"title": "Shoe", "price": 5}), LazyDrop({"title": "Hat", "price": 3})]
template = env.from_string(
    "{{ products | map: 'title' | join: ', ' }} / {{ products | sum: 'price' }}",
    name="main.liquid",
)
sys.exit(0 if compare(template, products=products) else 1)
