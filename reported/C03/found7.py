"""The result of `get_template_async(name, globals=...)` + `render_async()`
depends on how the request is interleaved with other coroutines when a caching
loader is used.

A caching loader hands the same Template object to every caller and
overwrites its `global_data` on each cache hit, including hits caused by
`{% include %}` / `{% render %}` in unrelated renders. If a coroutine awaits
anything between loading and rendering (fetching its data, say), another
coroutine can replace "its" template globals.

Responsible: liquid2/builtin/loaders/mixins.py
CachingLoaderMixin._check_cache_async (`cached_template.global_data = ...`).
"""

import asyncio
import sys

from liquid2 import CachingDictLoader
from liquid2 import Environment

env = Environment(
    loader=CachingDictLoader(
        {
            "pages/hello.liquid": "Hello, {{ who }}!",
            "pages/other.liquid": "[{% include 'pages/hello.liquid' %}]",
        }
    )
)


async def request(who, pause):
    template = await env.get_template_async("pages/hello.liquid", globals={"who": who})
    for _ in range(pause):
        await asyncio.sleep(0)  # e.g. fetch the data for this request
    return await template.render_async()


async def other_request():
    template = await env.get_template_async("pages/other.liquid")
    return await template.render_async(who="nobody")


async def alone():
    return await request("Alice", 3)


async def interleaved_with_same_template():
    a, _ = await asyncio.gather(request("Alice", 3), request("Bob", 0))
    return a


async def interleaved_with_include():
    a, _ = await asyncio.gather(request("Alice", 3), other_request())
    return a


want = asyncio.run(alone())
got1 = asyncio.run(interleaved_with_same_template())
got2 = asyncio.run(interleaved_with_include())

print(f"expected (request for Alice run on its own):          {want!r}")
print(f"observed (interleaved with a request for Bob):        {got1!r}")
print(f"observed (interleaved with a render that includes it): {got2!r}")

if want == got1 == got2:
    print("OK: independent of interleaving")
    sys.exit(0)

print("VIOLATION: the result depends on the interleaving")
sys.exit(1)
