"""Pre-existing violation 1: `date` filter with a literal format marks the whole
strftime() result safe, including the time zone NAME taken from render data."""

import datetime
import sys

from liquid2 import Environment

BAD = "<&'\">"
env = Environment(auto_escape=True)
when = datetime.datetime(
    2020, 1, 1, tzinfo=datetime.timezone(datetime.timedelta(hours=1), BAD)
)

out = env.from_string('{{ when | date: "%H %Z" }}').render(when=when)
print('template : {{ when | date: "%H %Z" }}   with when.tzname() == ' + repr(BAD))
print("expected : '00 &lt;&amp;&#39;&#34;&gt;'")
print("observed : %r" % out)

if any(ch in out for ch in "<>'\""):
    print("VIOLATION: time zone name from render data reached the output unescaped")
    sys.exit(1)
