"""Pre-existing violation 2: a caching loader shared by two environments hands an
auto_escape=True environment a template bound to the auto_escape=False one."""

import sys

from liquid2 import CachingDictLoader
from liquid2 import Environment

BAD = "<&'\">"
loader = CachingDictLoader({"partial": "{{ x }}"})
plain_env = Environment(loader=loader)
html_env = Environment(loader=loader, auto_escape=True)

# Warm the shared cache from the non-escaping environment.
plain_env.get_template("partial").render(x="hello")

direct = html_env.get_template("partial").render(x=BAD)
via_render = html_env.from_string("{% render 'partial', x: x %}").render(x=BAD)

print("expected : '&lt;&amp;&#39;&#34;&gt;' from the auto_escape=True environment")
print("observed : get_template().render() -> %r" % direct)
print("observed : {%% render 'partial' %%}    -> %r" % via_render)

if any(ch in direct + via_render for ch in "<>'\""):
    print("VIOLATION: cached template from another environment rendered unescaped")
    sys.exit(1)
