"""Pre-existing violation 3: enabling auto_escape on an existing environment
leaves the translation filters configured not to escape their input, but they
still mark their result safe."""

import sys

from liquid2 import Environment

BAD = "<&'\">"
env = Environment()
env.auto_escape = True

out = env.from_string("{{ x }}|{{ x | t }}|{{ x | gettext }}").render(x=BAD)
print("template : {{ x }}|{{ x | t }}|{{ x | gettext }}  (env.auto_escape = True set after construction)")
print("expected : '&lt;&amp;&#39;&#34;&gt;' three times")
print("observed : %r" % out)

if any(ch in out for ch in "<>'\""):
    print("VIOLATION: translation filters returned unescaped data marked as safe")
    sys.exit(1)
