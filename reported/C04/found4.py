"""Pre-existing violation 4: register_translation_filters() with its default
arguments replaces the escaping translation filters of an auto_escape=True
environment with ones that do not escape, yet still return Markup."""

import sys

from liquid2 import Environment
from liquid2.builtin import register_translation_filters

BAD = "<&'\">"
env = Environment(auto_escape=True)
register_translation_filters(env)  # autoescape_message defaults to False

out = env.from_string(
    "{{ x | t }}|{{ x | gettext }}|{{ 'a' | ngettext: x, 2 }}"
).render(x=BAD)
print("template : {{ x | t }}|{{ x | gettext }}|{{ 'a' | ngettext: x, 2 }}")
print("expected : '&lt;&amp;&#39;&#34;&gt;' three times")
print("observed : %r" % out)

if any(ch in out for ch in "<>'\""):
    print("VIOLATION: translation filters returned unescaped data marked as safe")
    sys.exit(1)
