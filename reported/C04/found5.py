"""Pre-existing violation 5 (weak): slicing a safe string cuts through a character
reference and leaves a bare `&` in the output."""

import re
import sys

from liquid2 import Environment

BAD = "<&'\">"
env = Environment(auto_escape=True)

out = env.from_string('{{ "a" | append: x | slice: 0, 3 }}').render(x=BAD)
print('template : {{ "a" | append: x | slice: 0, 3 }}')
print("expected : every `&` in the output starts a complete character reference")
print("observed : %r" % out)

rest = re.sub(r"&(?:lt|gt|amp|#39|#34);", "", out)
if "&" in rest:
    print("VIOLATION: bare `&` (truncated character reference) in the output")
    sys.exit(1)
