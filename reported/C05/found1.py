"""PRE-EXISTING: translation filters call gettext-style methods of any context object.

The `t`, `gettext`, `ngettext`, `pgettext` and `npgettext` filters resolve the
variable `translations` from the *template-visible* scope and call
`.gettext()` / `.ngettext()` / `.pgettext()` / `.npgettext()` on whatever they
find.  A template can point `translations` at any context object with
`{% assign %}` / `{% with %}` / `{% capture %}`, so a template makes the library
call a Python method of a context object and prints what it returns.
"""

import sys

from liquid2 import Environment

CALLS = []


class Helper:
    """A plain instance; nothing here is reachable by item access."""

    def gettext(self, message):
        CALLS.append(("gettext", message))
        return "SECRET-GETTEXT"

    def ngettext(self, singular, plural, n):
        CALLS.append(("ngettext", singular, plural, n))
        return "SECRET-NGETTEXT"

    def pgettext(self, ctx, message):
        CALLS.append(("pgettext", ctx, message))
        return "SECRET-PGETTEXT"

    def npgettext(self, ctx, singular, plural, n):
        CALLS.append(("npgettext", ctx, singular, plural, n))
        return "SECRET-NPGETTEXT"

    def __str__(self):
        return "helper"


env = Environment()
templates = [
    "{% assign translations = helper %}{{ 'hello' | t }}",
    "{% assign translations = helper %}{{ 'hello' | gettext }}",
    "{% with translations: helper %}{{ 'hello' | ngettext: 'hellos', 2 }}{% endwith %}",
    "{% assign translations = helper %}{{ 'hello' | pgettext: 'greeting' }}",
    "{% assign translations = helper %}{{ 'hello' | npgettext: 'greeting', 'hellos', 2 }}",
    "{% for translations in helpers %}{{ 'hello' | t: 'greeting', plural: 'hellos', count: 3 }}{% endfor %}",
]

bad = 0
for source in templates:
    CALLS.clear()
    try:
        out = env.from_string(source).render(helper=Helper(), helpers=[Helper()])
    except Exception as err:  # an error would be acceptable behaviour
        out = f"<{type(err).__name__}>"
    violated = bool(CALLS) or "SECRET" in out
    bad += violated
    print(f"{source}\n  expected: no method of `helper` is called, nothing from it in the output")
    print(f"  observed: output={out!r} calls={CALLS}  -> {'VIOLATION' if violated else 'ok'}")

sys.exit(1 if bad else 0)
