"""PRE-EXISTING (borderline): operators and filters call comparison / truth dunders of
context objects that are not in the documented protocol list.

The statement allows item access, length, iteration, str/number conversion and
the three hooks.  The library additionally calls, on arbitrary context objects:
  * `__lt__`       - `sort` without a key (`sorted(left)`), lambda sort keys
  * `__eq__`       - `==`, `!=`, `case/when`, `where`, `uniq`, `default`, `find`...
  * `__contains__` - `contains` / `in` when the left side is a Collection
  * `__bool__`     - truthiness of filter arguments (`sort: key`, `split: sep`, `json: indent`)
  * `__hash__`     - `datetime: format: obj`, dict lookups with an object key
Each is a Python method defined on the object's class whose return value
steers the output.
"""

import sys
from collections.abc import Collection

from liquid2 import Environment

CALLS = []


class Item:
    def __init__(self, name, rank):
        self.name = name
        self._rank = rank  # held only in a Python attribute

    def __lt__(self, other):
        CALLS.append("__lt__")
        return self._rank < other._rank

    def __eq__(self, other):
        CALLS.append("__eq__")
        return isinstance(other, Item) and self._rank == other._rank

    def __hash__(self):
        CALLS.append("__hash__")
        return hash(self._rank)

    def __bool__(self):
        CALLS.append("__bool__")
        return bool(self._rank)

    def __str__(self):
        return self.name


class Bag(Collection):
    def __init__(self):
        self._hidden = {"SECRET"}

    def __contains__(self, x):
        CALLS.append("__contains__")
        return x in self._hidden

    def __iter__(self):
        return iter(())

    def __len__(self):
        return 0


env = Environment()
data = {"items": [Item("a", 3), Item("b", 1), Item("c", 2)], "x": Item("x", 1), "bag": Bag()}
cases = [
    ("{{ items | sort | join: ',' }}", "__lt__"),
    ("{% if x == items[1] %}same{% endif %}", "__eq__"),
    ("{% if bag contains 'SECRET' %}yes{% endif %}", "__contains__"),
    ("{{ 'a b' | split: x | join: ',' }}", "__bool__"),
]
bad = 0
for source, dunder in cases:
    CALLS.clear()
    try:
        out = env.from_string(source).render(**data)
    except Exception as err:
        out = f"<{type(err).__name__}>"
    violated = dunder in CALLS
    bad += violated
    print(source)
    print(f"  expected: `{dunder}` of the context object is never called")
    print(f"  observed: {out!r} calls={sorted(set(CALLS))}  -> {'VIOLATION' if violated else 'ok'}")
sys.exit(1 if bad else 0)
