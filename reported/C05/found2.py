"""PRE-EXISTING: the `translate` tag calls gettext-style methods of any context object.

`TranslateNode.resolve_translations` looks up `translations` in the template
scope (so it can be shadowed by `{% assign %}`) and then calls `.gettext()`,
`.ngettext()`, `.pgettext()` or `.npgettext()` on that object and writes the
result to the output.
"""

import sys

from liquid2 import Environment

CALLS = []


class Helper:
    def gettext(self, message):
        CALLS.append(("gettext", message))
        return "SECRET-GETTEXT"

    def ngettext(self, singular, plural, n):
        CALLS.append(("ngettext", singular, plural, n))
        return "SECRET-NGETTEXT"

    def pgettext(self, ctx, message):
        CALLS.append(("pgettext", ctx, message))
        return "SECRET-PGETTEXT"

    def npgettext(self, ctx, singular, plural, n):
        CALLS.append(("npgettext", ctx, singular, plural, n))
        return "SECRET-NPGETTEXT"


env = Environment()
templates = [
    "{% assign translations = helper %}{% translate %}hello{% endtranslate %}",
    "{% assign translations = helper %}{% translate count: 2 %}hello{% plural %}hellos{% endtranslate %}",
    "{% assign translations = helper %}{% translate context: 'c' %}hello{% endtranslate %}",
    "{% assign translations = helper %}{% translate context: 'c', count: 2 %}hello{% plural %}hellos{% endtranslate %}",
]

bad = 0
for source in templates:
    CALLS.clear()
    try:
        out = env.from_string(source).render(helper=Helper())
    except Exception as err:
        out = f"<{type(err).__name__}>"
    violated = bool(CALLS) or "SECRET" in out
    bad += violated
    print(f"{source}\n  expected: no method of `helper` is called, nothing from it in the output")
    print(f"  observed: output={out!r} calls={CALLS}  -> {'VIOLATION' if violated else 'ok'}")

sys.exit(1 if bad else 0)
