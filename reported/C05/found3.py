"""PRE-EXISTING: the `default` filter reads the Python attribute `force_liquid_default`.

`liquid2.builtin.filters.misc.default` does
`hasattr(obj, "force_liquid_default") and obj.force_liquid_default` on its
left value, whatever it is.  The attribute is not part of the documented drop
protocol, it is read from instance, class or property, and its value decides
what is rendered.
"""

import sys
from collections.abc import Mapping

from liquid2 import Environment

READS = []


class Plain:
    def __init__(self, flag):
        self._flag = flag

    @property
    def force_liquid_default(self):  # an ordinary Python property
        READS.append("Plain.force_liquid_default")
        return self._flag

    def __str__(self):
        return "plain"


class Drop(Mapping):
    """Mapping drop exposing only `title`; the flag is a plain instance attribute."""

    def __init__(self, flag):
        self._data = {"title": "x"}
        self.force_liquid_default = flag

    def __getitem__(self, k):
        return self._data[k]

    def __iter__(self):
        return iter(self._data)

    def __len__(self):
        return len(self._data)

    def __str__(self):
        return "drop"


env = Environment()
source = "{{ obj | default: 'FALLBACK' }}"
bad = 0
for make, name in ((Plain, "plain"), (Drop, "drop")):
    READS.clear()
    out_false = env.from_string(source).render(obj=make(False))
    out_true = env.from_string(source).render(obj=make(True))
    violated = out_false != out_true or bool(READS)
    bad += violated
    print(f"{source} with a {name} object")
    print("  expected: same output whatever the Python attribute holds; attribute never read")
    print(
        f"  observed: attr=False -> {out_false!r}, attr=True -> {out_true!r}, reads={READS}"
        f"  -> {'VIOLATION' if violated else 'ok'}"
    )

sys.exit(1 if bad else 0)
