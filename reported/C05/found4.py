"""PRE-EXISTING: a template keyword argument named `environment` replaces the injected
Environment, so filters read `.auto_escape` from a context object.

`RenderContext.filter` injects `environment=self.env` with `functools.partial`;
`Filter.evaluate` then calls `func(left, *args, **keyword_args)` with keyword
names chosen by the template.  `{{ x | join: environment: obj }}` therefore
overrides the partial's keyword, and `join`, `escape`, `escape_once`,
`newline_to_br`, `strip_newlines`, `strip_html`, `url_encode`, `safe` and `date`
read `obj.auto_escape` - a Python attribute of a context object - and change
their output according to it.
"""

import sys

from liquid2 import Environment

READS = []


class Settings:
    """Plain instance; `auto_escape` exists only as a Python attribute."""

    def __init__(self, value):
        self._value = value

    @property
    def auto_escape(self):
        READS.append("Settings.auto_escape")
        return self._value

    def __str__(self):
        return "settings"


env = Environment()  # auto_escape is OFF
templates = [
    "{{ '<b>' | escape_once: environment: obj }}",
    "{{ 'a\nb' | newline_to_br: environment: obj }}",
    "{{ 'a b' | url_encode: environment: obj }}",
    "{{ items | join: environment: obj }}",
]

bad = 0
for source in templates:
    outs = []
    READS.clear()
    for flag in (False, True):
        try:
            out = env.from_string(source).render(obj=Settings(flag), items=["<a>", "b"])
            outs.append(f"{out!r} ({type(out).__name__})")
        except Exception as err:
            outs.append(f"<{type(err).__name__}: {str(err).splitlines()[0]}>")
    violated = bool(READS) or outs[0] != outs[1]
    bad += violated
    print(f"{source!r}")
    print("  expected: keyword rejected (LiquidTypeError) or ignored; obj.auto_escape never read")
    print(
        f"  observed: obj.auto_escape=False -> {outs[0]}, =True -> {outs[1]}, reads={len(READS)}"
        f"  -> {'VIOLATION' if violated else 'ok'}"
    )

sys.exit(1 if bad else 0)
