"""PRE-EXISTING: a template keyword argument named `context` replaces the injected
RenderContext, so filters call `.resolve()` / read `.env` on a context object.

Same mechanism as found4.py (`functools.partial` keyword overridden by a
template-chosen keyword name in `Filter.evaluate`).  The babel filters
(`currency`/`money*`, `decimal`, `datetime`, `unit`) call
`context.resolve(name, default=...)`; the translation filters read
`context.env.auto_escape`, call `context.resolve(...)` and `context.extend(...)`.
With `context: obj` those are Python methods/attributes of a context object, and
what they return ends up in the output.
"""

import sys

from liquid2 import Environment

CALLS = []


class Repo:
    """Plain instance with an unrelated method that happens to be named `resolve`."""

    def resolve(self, name, default=None):
        CALLS.append(("resolve", name))
        if name == "currency_code":
            return "SECRET"
        if name in ("locale", "input_locale"):
            return "en_US"
        return default

    def __str__(self):
        return "repo"


env = Environment()
templates = [
    "{{ 5 | currency: context: repo }}",
    "{{ 5 | money: context: repo }}",
    "{{ 5 | decimal: context: repo }}",
    "{{ 5 | unit: 'meter', context: repo }}",
    "{{ 'hello' | t: context: repo }}",
]

bad = 0
for source in templates:
    CALLS.clear()
    try:
        out = repr(env.from_string(source).render(repo=Repo()))
    except Exception as err:
        out = f"<{type(err).__name__}: {str(err).splitlines()[0]}>"
    violated = bool(CALLS) or "SECRET" in out or "AttributeError" in out
    bad += violated
    print(f"{source!r}")
    print("  expected: keyword rejected (LiquidTypeError) or ignored; no attribute of `repo` touched")
    print(f"  observed: {out} calls={CALLS}  -> {'VIOLATION' if violated else 'ok'}")

sys.exit(1 if bad else 0)
