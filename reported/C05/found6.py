"""PRE-EXISTING (borderline): `{% for %}` over a Mapping calls the Python method `.items()`.

`LoopExpression._to_iter` does `iter(obj.items())` for any `Mapping`.  The
documented protocol is item access, length and iteration (`__getitem__`,
`__len__`, `__iter__`); `.items` is an ordinary, overridable Python method of the
drop.  A Mapping drop that exposes a strict subset of its data through
`__iter__`/`__getitem__`/`__len__` but has a wider `items()` (e.g. for the
host's own use) leaks the wider set to the template.
"""

import sys
from collections.abc import Mapping

from liquid2 import Environment

CALLS = []


class Drop(Mapping):
    def __init__(self):
        self._public = {"title": "hello"}
        self._all = {"title": "hello", "password": "SECRET"}

    # The documented protocol: only `title` is visible.
    def __getitem__(self, key):
        return self._public[key]

    def __iter__(self):
        return iter(self._public)

    def __len__(self):
        return len(self._public)

    # A Python method for host code.
    def items(self):
        CALLS.append("Drop.items")
        return self._all.items()


env = Environment()
source = "{% for pair in drop %}{{ pair[0] }}={{ pair[1] }};{% endfor %}"
out = env.from_string(source).render(drop=Drop())
violated = bool(CALLS) or "SECRET" in out
print(source)
print("  expected: 'title=hello;' using only __iter__/__getitem__/__len__; `.items` never called")
print(f"  observed: {out!r} calls={CALLS}  -> {'VIOLATION' if violated else 'ok'}")
sys.exit(1 if violated else 0)
