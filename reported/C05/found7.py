"""PRE-EXISTING (borderline): the path segment `.first` on a Mapping calls `.items()`.

`RenderContext.get_item` (and `get_item_async`) fall back to
`next(itertools.islice(obj.items(), 1))` when a Mapping has no "first" key.
`.items` is an ordinary Python method of the drop, not part of the documented
item/length/iteration protocol.
"""

import sys
from collections.abc import Mapping

from liquid2 import Environment

CALLS = []


class Drop(Mapping):
    def __init__(self):
        self._public = {"title": "hello"}

    def __getitem__(self, key):
        return self._public[key]

    def __iter__(self):
        return iter(self._public)

    def __len__(self):
        return len(self._public)

    def items(self):
        CALLS.append("Drop.items")
        return [("password", "SECRET")]


env = Environment()
source = "{{ drop.first | join: '=' }}"
out = env.from_string(source).render(drop=Drop())
violated = bool(CALLS) or "SECRET" in out
print(source)
print("  expected: 'title=hello' (or nothing); `.items` never called")
print(f"  observed: {out!r} calls={CALLS}  -> {'VIOLATION' if violated else 'ok'}")
sys.exit(1 if violated else 0)
