"""PRE-EXISTING (configuration specific): `{% assign %}` calls `__sizeof__` of context objects.

With `Environment.local_namespace_limit` set, `RenderContext.assign` calls
`get_size_of_locals()`, which runs `sys.getsizeof(obj, default=1)` on every
local value - i.e. the Python method `obj.__sizeof__()` of context objects that
the template assigned.  `__sizeof__` is not part of the documented protocol and
its return value decides whether rendering continues or fails.
"""

import sys

from liquid2 import Environment
from liquid2.exceptions import LocalNamespaceLimitError

CALLS = []


class Plain:
    def __init__(self, size):
        self._size = size

    def __sizeof__(self):
        CALLS.append("Plain.__sizeof__")
        return self._size

    def __str__(self):
        return "plain"


class Env(Environment):
    local_namespace_limit = 2000


env = Env()
source = "{% assign x = obj %}ok"
results = []
for size in (10, 100000):
    try:
        results.append(env.from_string(source).render(obj=Plain(size)))
    except LocalNamespaceLimitError:
        results.append("<LocalNamespaceLimitError>")
violated = bool(CALLS) or results[0] != results[1]
print(source, "with local_namespace_limit = 2000")
print("  expected: same result whatever obj.__sizeof__() returns; method never called")
print(f"  observed: {results} calls={len(CALLS)}  -> {'VIOLATION' if violated else 'ok'}")
sys.exit(1 if violated else 0)
