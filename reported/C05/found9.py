"""PRE-EXISTING (borderline / by design): the `date` filter calls `.strftime()` and
`.timestamp()` on context objects that are `datetime.date` instances.

`liquid2.builtin.filters.misc.date` formats with `dat.strftime(fmt)` and, when
that raises ValueError for the format "%s", with `dat.timestamp()`.  Both are
ordinary Python methods, looked up on the (possibly subclassed) context object,
called with a template-chosen string, and their return value is rendered.
`strftime`/`timestamp` are not in the documented protocol list (item access,
length, iteration, str/number conversion, __liquid__/__html__/__getitem_async__).
"""

import datetime
import sys

from liquid2 import Environment

CALLS = []


class Booking(datetime.date):
    """A date subclass used as a context object."""

    def strftime(self, fmt):
        CALLS.append(("strftime", fmt))
        if fmt == "%s":
            raise ValueError("unsupported")
        return "SECRET-STRFTIME"

    def timestamp(self):
        CALLS.append(("timestamp",))
        return "SECRET-TIMESTAMP.0"


env = Environment()
bad = 0
for source in ("{{ b | date: 'strftime' }}", "{{ b | date: '%s' }}"):
    CALLS.clear()
    out = env.from_string(source).render(b=Booking(2024, 1, 2))
    violated = bool(CALLS) or "SECRET" in out
    bad += violated
    print(source)
    print("  expected: no Python method of the context object is called")
    print(f"  observed: {out!r} calls={CALLS}  -> {'VIOLATION' if violated else 'ok'}")
sys.exit(1 if bad else 0)
