"""`{% render 'p' for items %}` does not count its own iterations in the loop nest."""
import sys
from liquid2 import DictLoader
from liquid2 import Environment
from liquid2.exceptions import *  # noqa: F403


def env_with(templates, base=Environment, **limits):
    return type("Env", (base,), limits)(loader=DictLoader(templates))


templates = {
    "main": "{% render 'p' for items %}",
    "p": "{% for j in (1..10) %}x{% endfor %}",
}
env = env_with(templates, loop_iteration_limit=50)
print("input: render-for over 10 items, partial loops 10 times => 100 iterations, loop_iteration_limit=50")
print("expected: LoopIterationLimitError")
try:
    out = env.get_template("main").render(items=list(range(10)))
except LoopIterationLimitError:
    print("observed: LoopIterationLimitError")
    sys.exit(0)
print(f"observed: rendered, inner body ran {out.count('x')} times")
sys.exit(1)
