"""Text written to a `capture` buffer is charged to the output limit even
though it is never part of the returned output."""
import sys
from liquid2 import DictLoader
from liquid2 import Environment
from liquid2.exceptions import *  # noqa: F403


def env_with(templates, base=Environment, **limits):
    return type("Env", (base,), limits)(loader=DictLoader(templates))


templates = {"main": "01234{% capture x %}56789{% endcapture %}"}
unrestricted = env_with(templates).get_template("main").render()
print(f"input: output is {unrestricted!r} (5 bytes), a 5 byte capture is never printed; output_stream_limit=9")
print("expected: same output as without a limit")
try:
    out = env_with(templates, output_stream_limit=9).get_template("main").render()
except OutputStreamLimitError:
    print("observed: OutputStreamLimitError")
    sys.exit(1)
print(f"observed: {out!r}")
sys.exit(0 if out == unrestricted else 1)
