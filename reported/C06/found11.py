"""Counters made by increment/decrement are template-local variables but are
not charged to the local namespace limit."""
import sys
from liquid2 import DictLoader
from liquid2 import Environment
from liquid2.exceptions import *  # noqa: F403


def env_with(templates, base=Environment, **limits):
    return type("Env", (base,), limits)(loader=DictLoader(templates))


names = "abcdefghij"
templates = {
    "main": "".join(f"{{% increment {n} %}}" for n in names) + "|" + "".join(f"{{{{ {n} }}}}" for n in names),
    "control": "".join(f"{{% assign {n} = 1 %}}" for n in names),
}
limit = 3 * sys.getsizeof(1)
env = env_with(templates, local_namespace_limit=limit)
print(f"input: ten distinct counters, each readable as a variable; local_namespace_limit={limit} (room for 3 ints)")
print("expected: LocalNamespaceLimitError (as for ten assigns)")
try:
    env.get_template("control").render()
    print("control unexpectedly rendered")
    sys.exit(2)
except LocalNamespaceLimitError:
    pass
try:
    out = env.get_template("main").render()
except LocalNamespaceLimitError:
    print("observed: LocalNamespaceLimitError")
    sys.exit(0)
print(f"observed: rendered {out!r}")
sys.exit(1)
