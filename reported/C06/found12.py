"""A small context_depth_limit fails a template that nests nothing at all."""
import sys
from liquid2 import DictLoader
from liquid2 import Environment
from liquid2.exceptions import *  # noqa: F403


def env_with(templates, base=Environment, **limits):
    return type("Env", (base,), limits)(loader=DictLoader(templates))


templates = {"main": "Hello"}
print("input: template 'Hello' (no partials, no blocks), context_depth_limit=3")
print("expected: 'Hello'")
try:
    out = env_with(templates, context_depth_limit=3).get_template("main").render()
except ContextDepthError:
    print("observed: ContextDepthError")
    sys.exit(1)
print(f"observed: {out!r}")
sys.exit(0 if out == "Hello" else 1)
