"""The namespace size is a shallow sys.getsizeof: a template can hold a list
of large strings it created itself and be charged only for the list header."""
import sys
from liquid2 import DictLoader
from liquid2 import Environment
from liquid2.exceptions import *  # noqa: F403


def env_with(templates, base=Environment, **limits):
    return type("Env", (base,), limits)(loader=DictLoader(templates))


s = ",".join(["a" * 1000] * 3)
templates = {"main": "{% assign parts = s | split: ',' %}{{ parts | size }}"}
env = env_with(templates, local_namespace_limit=200)
print("input: assign parts = s | split: ','  -> three new 1000-char strings; local_namespace_limit=200")
print("expected: LocalNamespaceLimitError (the local holds > 3000 bytes of new data)")
try:
    out = env.get_template("main").render(s=s)
except LocalNamespaceLimitError:
    print("observed: LocalNamespaceLimitError")
    sys.exit(0)
print(f"observed: rendered {out!r}")
sys.exit(1)
