"""A `tablerow` loop is checked against the limit but not added to the loop nest."""
import sys
from liquid2 import DictLoader
from liquid2 import Environment
from liquid2.exceptions import *  # noqa: F403


def env_with(templates, base=Environment, **limits):
    return type("Env", (base,), limits)(loader=DictLoader(templates))


from liquid2.shopify import Environment as ShopifyEnvironment

templates = {
    "main": "{% tablerow i in (1..10) %}{% for j in (1..10) %}x{% endfor %}{% endtablerow %}",
}
env = env_with(templates, base=ShopifyEnvironment, loop_iteration_limit=50)
print("input: for(10) nested in tablerow(10) => 100 iterations, loop_iteration_limit=50")
print("expected: LoopIterationLimitError")
try:
    out = env.get_template("main").render()
except LoopIterationLimitError:
    print("observed: LoopIterationLimitError")
    sys.exit(0)
print(f"observed: rendered, inner body ran {out.count('x')} times")
sys.exit(1)
