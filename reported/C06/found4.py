"""`{{ block.super }}` renders the parent block outside the calling loop nest."""
import sys
from liquid2 import DictLoader
from liquid2 import Environment
from liquid2.exceptions import *  # noqa: F403


def env_with(templates, base=Environment, **limits):
    return type("Env", (base,), limits)(loader=DictLoader(templates))


templates = {
    "main": (
        "{% extends 'base' %}"
        "{% block b %}{% for j in (1..10) %}{{ block.super }}{% endfor %}{% endblock %}"
    ),
    "base": "{% block b %}{% for k in (1..10) %}y{% endfor %}{% endblock %}",
}
env = env_with(templates, loop_iteration_limit=50)
print("input: child block loops 10x over block.super, parent block loops 10x => 100 iterations, limit=50")
print("expected: LoopIterationLimitError")
try:
    out = env.get_template("main").render()
except LoopIterationLimitError:
    print("observed: LoopIterationLimitError")
    sys.exit(0)
print(f"observed: rendered, inner body ran {out.count('y')} times")
sys.exit(1)
