"""Variables assigned by `{{ block.super }}` escape the child block's namespace accounting."""
import sys
from liquid2 import DictLoader
from liquid2 import Environment
from liquid2.exceptions import *  # noqa: F403


def env_with(templates, base=Environment, **limits):
    return type("Env", (base,), limits)(loader=DictLoader(templates))


s = "a" * 100
one = sys.getsizeof(s)
templates = {
    "main": (
        "{% extends 'base' %}"
        "{% block b %}{% assign y = s %}{{ block.super }}[{{ y | size }},{{ z | size }}]{% endblock %}"
    ),
    "base": "{% block b %}{% assign z = s %}{% endblock %}ok",
    # control: same two assignments in one block
    "control": "{% assign y = s %}{% assign z = s %}ok",
}
limit = one + 10  # room for one copy, not two
env = env_with(templates, local_namespace_limit=limit)
print(f"input: child block assigns y ({one} bytes), block.super assigns z ({one} bytes); local_namespace_limit={limit}")
print("expected: LocalNamespaceLimitError (two live locals, as in the control template)")
try:
    env.get_template("control").render(s=s)
    print("control unexpectedly rendered")
    sys.exit(2)
except LocalNamespaceLimitError:
    pass
try:
    out = env.get_template("main").render(s=s)
except LocalNamespaceLimitError:
    print("observed: LocalNamespaceLimitError")
    sys.exit(0)
print(f"observed: rendered {out!r}")
sys.exit(1)
