"""loop_iteration_limit = 0 is treated as "no limit" (limit-1 boundary of a one-iteration program)."""
import sys
from liquid2 import DictLoader
from liquid2 import Environment
from liquid2.exceptions import *  # noqa: F403


def env_with(templates, base=Environment, **limits):
    return type("Env", (base,), limits)(loader=DictLoader(templates))


templates = {"main": "{% for i in (1..1) %}x{% endfor %}"}
print("input: one loop iteration, loop_iteration_limit=1 then 0")
print("expected: limit=1 renders 'x'; limit=0 raises LoopIterationLimitError")
assert env_with(templates, loop_iteration_limit=1).get_template("main").render() == "x"
try:
    out = env_with(templates, loop_iteration_limit=0).get_template("main").render()
except LoopIterationLimitError:
    print("observed: LoopIterationLimitError")
    sys.exit(0)
print(f"observed: limit=0 rendered {out!r}")
sys.exit(1)
