"""local_namespace_limit = 0 is treated as "no limit"."""
import sys
from liquid2 import DictLoader
from liquid2 import Environment
from liquid2.exceptions import *  # noqa: F403


def env_with(templates, base=Environment, **limits):
    return type("Env", (base,), limits)(loader=DictLoader(templates))


templates = {"main": "{% assign x = 'hello' %}{{ x }}"}
print("input: one assignment, local_namespace_limit=1 then 0")
print("expected: both raise LocalNamespaceLimitError")
try:
    env_with(templates, local_namespace_limit=1).get_template("main").render()
    print("limit=1 unexpectedly rendered")
    sys.exit(2)
except LocalNamespaceLimitError:
    pass
try:
    out = env_with(templates, local_namespace_limit=0).get_template("main").render()
except LocalNamespaceLimitError:
    print("observed: LocalNamespaceLimitError")
    sys.exit(0)
print(f"observed: limit=0 rendered {out!r}")
sys.exit(1)
