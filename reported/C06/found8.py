"""A cyclic render graph dies with RecursionError before the context depth limit is reached."""
import sys
from liquid2 import DictLoader
from liquid2 import Environment
from liquid2.exceptions import *  # noqa: F403


def env_with(templates, base=Environment, **limits):
    return type("Env", (base,), limits)(loader=DictLoader(templates))


body = (
    "{% for a in (1..1) %}{% if true %}" * 4
    + "{% render 'OTHER' %}"
    + "{% endif %}{% endfor %}" * 4
)
templates = {"main": body.replace("OTHER", "b"), "b": body.replace("OTHER", "main")}
env = env_with(templates)  # default context_depth_limit = 30
print("input: 'main' and 'b' render each other from inside a for/if nest of depth 4; default limits")
print("expected: ContextDepthError")
try:
    env.get_template("main").render()
except ContextDepthError:
    print("observed: ContextDepthError")
    sys.exit(0)
except RecursionError:
    print("observed: RecursionError (interpreter stack exhausted)")
    sys.exit(1)
print("observed: rendered?!")
sys.exit(1)
