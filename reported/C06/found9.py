"""The loop limit is checked against the product of lengths, so a loop that
breaks early fails although it never runs more iterations than the limit."""
import sys
from liquid2 import DictLoader
from liquid2 import Environment
from liquid2.exceptions import *  # noqa: F403


def env_with(templates, base=Environment, **limits):
    return type("Env", (base,), limits)(loader=DictLoader(templates))


templates = {"main": "{% for i in (1..100) %}{{ i }}{% break %}{% endfor %}"}
unrestricted = env_with(templates).get_template("main").render()
print("input: for over 100 items that breaks in the first iteration (1 iteration runs), loop_iteration_limit=50")
print(f"expected: same output as without a limit: {unrestricted!r}")
try:
    out = env_with(templates, loop_iteration_limit=50).get_template("main").render()
except LoopIterationLimitError:
    print("observed: LoopIterationLimitError")
    sys.exit(1)
print(f"observed: {out!r}")
sys.exit(0 if out == unrestricted else 1)
