"""PRE-EXISTING VIOLATION 1: a partial rendered from inside another partial can read the outer partial's arguments (keyword, with/for binding and forloop), which are neither global data nor arguments passed to it"""

import sys

from liquid2 import DictLoader
from liquid2 import Environment

templates = {"outer": "{% render 'inner' %}", "inner": "[{{ x }}|{{ outer }}|{{ forloop.index }}]"}
source = "{% render 'outer', x: 'secret' %}{% render 'outer' with 'bound' %}{% render 'outer' for (7..7) %}"
expected = "[||][||][||]"

env = Environment(loader=DictLoader(templates))
got = env.from_string(source).render()

print("templates:", templates)
print("source:   ", source)
print("expected: ", repr(expected))
print("got:      ", repr(got))

if got != expected:
    print("VIOLATION: a partial rendered from inside another partial can read the outer partial's arguments (keyword, with/for binding and forloop), which are neither global data nor arguments passed to it")
    sys.exit(1)
print("ok")
