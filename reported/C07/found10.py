"""PRE-EXISTING VIOLATION 10 (static analysis): Template.analyze() reports forloop as a global variable of a partial rendered with '{% render ... for ... %}', although the render tag binds forloop for the partial"""

import sys

from liquid2 import DictLoader
from liquid2 import Environment

templates = {"p": "[{{ p }}:{{ forloop.index }}]"}
source = "{% render 'p' for items %}"

env = Environment(loader=DictLoader(templates))
template = env.from_string(source)
analysis = template.analyze()
reported_globals = sorted(analysis.globals)
expected_globals = ["items"]

# What actually happens at render time: the names below are looked up in the
# global data only (render/macro scopes are isolated from the caller).
rendered = template.render(items=['a', 'b'])

print("templates:        ", templates)
print("source:           ", source)
print("rendered with globals items=['a', 'b'] ->", repr(rendered))
print("expected analysis.globals:", expected_globals)
print("reported analysis.globals:", reported_globals)

if reported_globals != expected_globals:
    print("VIOLATION: Template.analyze() reports forloop as a global variable of a partial rendered with '{% render ... for ... %}', although the render tag binds forloop for the partial")
    sys.exit(1)
print("ok")
