"""PRE-EXISTING VIOLATION 2: a partial rendered inside an overriding {% block %} can read the base template's assigned, counted, with-bound and loop-bound variables"""

import sys

from liquid2 import DictLoader
from liquid2 import Environment

templates = {"base": "{% assign a = 'assigned' %}{% increment n %}{% for i in (5..5) %}{% with w: 'withvar' %}{% block body %}{% endblock %}{% endwith %}{% endfor %}", "p": "[{{ a }}|{{ n }}|{{ i }}|{{ w }}]"}
source = "{% extends 'base' %}{% block body %}{% render 'p' %}{% endblock %}"
expected = "0[|||]"

env = Environment(loader=DictLoader(templates))
got = env.from_string(source).render()

print("templates:", templates)
print("source:   ", source)
print("expected: ", repr(expected))
print("got:      ", repr(got))

if got != expected:
    print("VIOLATION: a partial rendered inside an overriding {% block %} can read the base template's assigned, counted, with-bound and loop-bound variables")
    sys.exit(1)
print("ok")
