"""PRE-EXISTING VIOLATION 3: a macro called inside a rendered partial can read the partial's arguments, which were not passed to the macro"""

import sys

from liquid2 import DictLoader
from liquid2 import Environment

templates = {"p": "{% macro m %}[{{ x }}]{% endmacro %}{% call m %}"}
source = "{% render 'p', x: 'secret' %}"
expected = "[]"

env = Environment(loader=DictLoader(templates))
got = env.from_string(source).render()

print("templates:", templates)
print("source:   ", source)
print("expected: ", repr(expected))
print("got:      ", repr(got))

if got != expected:
    print("VIOLATION: a macro called inside a rendered partial can read the partial's arguments, which were not passed to the macro")
    sys.exit(1)
print("ok")
