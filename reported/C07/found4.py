"""PRE-EXISTING VIOLATION 4: a macro called inside an overriding {% block %} can read the base template's assigned and loop-bound variables"""

import sys

from liquid2 import DictLoader
from liquid2 import Environment

templates = {"base": "{% assign a = 'assigned' %}{% for i in (5..5) %}{% block body %}{% endblock %}{% endfor %}"}
source = "{% extends 'base' %}{% block body %}{% macro m %}[{{ a }}|{{ i }}]{% endmacro %}{% call m %}{% endblock %}"
expected = "[|]"

env = Environment(loader=DictLoader(templates))
got = env.from_string(source).render()

print("templates:", templates)
print("source:   ", source)
print("expected: ", repr(expected))
print("got:      ", repr(got))

if got != expected:
    print("VIOLATION: a macro called inside an overriding {% block %} can read the base template's assigned and loop-bound variables")
    sys.exit(1)
print("ok")
