"""PRE-EXISTING VIOLATION 5: a macro defined and called inside another macro can read the outer macro's parameters"""

import sys

from liquid2 import DictLoader
from liquid2 import Environment

templates = {}
source = "{% macro outer a %}{% macro inner %}[{{ a }}]{% endmacro %}{% call inner %}{% endmacro %}{% call outer 'secret' %}"
expected = "[]"

env = Environment(loader=DictLoader(templates))
got = env.from_string(source).render()

print("templates:", templates)
print("source:   ", source)
print("expected: ", repr(expected))
print("got:      ", repr(got))

if got != expected:
    print("VIOLATION: a macro defined and called inside another macro can read the outer macro's parameters")
    sys.exit(1)
print("ok")
