"""PRE-EXISTING VIOLATION 6: a partial rendered inside a macro can read the macro's parameters, args and kwargs, which were not passed to the partial"""

import sys

from liquid2 import DictLoader
from liquid2 import Environment

templates = {"p": "[{{ a }}|{{ args | join: ',' }}|{{ kwargs.k }}]"}
source = "{% macro m a %}{% render 'p' %}{% endmacro %}{% call m 'secret', 'extra', k: 'kw' %}"
expected = "[||]"

env = Environment(loader=DictLoader(templates))
got = env.from_string(source).render()

print("templates:", templates)
print("source:   ", source)
print("expected: ", repr(expected))
print("got:      ", repr(got))

if got != expected:
    print("VIOLATION: a partial rendered inside a macro can read the macro's parameters, args and kwargs, which were not passed to the partial")
    sys.exit(1)
print("ok")
