"""PRE-EXISTING VIOLATION 7 (static analysis): Template.analyze() treats a macro body as part of the caller's scope: a name the caller assigned is not reported as global inside the macro, and a name assigned inside the macro is treated as local to the caller afterwards, although at render time both are read from global data"""

import sys

from liquid2 import DictLoader
from liquid2 import Environment

templates = {}
source = "{% assign x = 'caller' %}{% macro m %}[{{ x }}]{% assign y = 'macro' %}{% endmacro %}{% call m %}[{{ y }}]"

env = Environment(loader=DictLoader(templates))
template = env.from_string(source)
analysis = template.analyze()
reported_globals = sorted(analysis.globals)
expected_globals = ["x", "y"]

# What actually happens at render time: the names below are looked up in the
# global data only (render/macro scopes are isolated from the caller).
rendered = template.render(x='GLOBAL-X', y='GLOBAL-Y')

print("templates:        ", templates)
print("source:           ", source)
print("rendered with globals x='GLOBAL-X', y='GLOBAL-Y' ->", repr(rendered))
print("expected analysis.globals:", expected_globals)
print("reported analysis.globals:", reported_globals)

if reported_globals != expected_globals:
    print("VIOLATION: Template.analyze() treats a macro body as part of the caller's scope: a name the caller assigned is not reported as global inside the macro, and a name assigned inside the macro is treated as local to the caller afterwards, although at render time both are read from global data")
    sys.exit(1)
print("ok")
