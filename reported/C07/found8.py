"""PRE-EXISTING VIOLATION 8 (static analysis): Template.analyze() analyses the parent of a rendered partial that uses {% extends %} in the caller's scope instead of the partial's isolated scope, so a name the caller assigned is not reported as global"""

import sys

from liquid2 import DictLoader
from liquid2 import Environment

templates = {"partial": "{% extends 'layout' %}", "layout": "[{{ x }}]"}
source = "{% assign x = 'caller' %}{% render 'partial' %}"

env = Environment(loader=DictLoader(templates))
template = env.from_string(source)
analysis = template.analyze()
reported_globals = sorted(analysis.globals)
expected_globals = ["x"]

# What actually happens at render time: the names below are looked up in the
# global data only (render/macro scopes are isolated from the caller).
rendered = template.render(x='GLOBAL-X')

print("templates:        ", templates)
print("source:           ", source)
print("rendered with globals x='GLOBAL-X' ->", repr(rendered))
print("expected analysis.globals:", expected_globals)
print("reported analysis.globals:", reported_globals)

if reported_globals != expected_globals:
    print("VIOLATION: Template.analyze() analyses the parent of a rendered partial that uses {% extends %} in the caller's scope instead of the partial's isolated scope, so a name the caller assigned is not reported as global")
    sys.exit(1)
print("ok")
