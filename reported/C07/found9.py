"""PRE-EXISTING VIOLATION 9 (static analysis): Template.analyze() analyses each partial only once, in the scope of its first use: a later {% render %} of a template that was first included (or first rendered with an argument) does not report the names it reads from global data"""

import sys

from liquid2 import DictLoader
from liquid2 import Environment

templates = {"p": "[{{ x }}]"}
source = "{% assign x = 'caller' %}{% include 'p' %}{% render 'p' %}"

env = Environment(loader=DictLoader(templates))
template = env.from_string(source)
analysis = template.analyze()
reported_globals = sorted(analysis.globals)
expected_globals = ["x"]

# What actually happens at render time: the names below are looked up in the
# global data only (render/macro scopes are isolated from the caller).
rendered = template.render(x='GLOBAL-X')

print("templates:        ", templates)
print("source:           ", source)
print("rendered with globals x='GLOBAL-X' ->", repr(rendered))
print("expected analysis.globals:", expected_globals)
print("reported analysis.globals:", reported_globals)

if reported_globals != expected_globals:
    print("VIOLATION: Template.analyze() analyses each partial only once, in the scope of its first use: a later {% render %} of a template that was first included (or first rendered with an argument) does not report the names it reads from global data")
    sys.exit(1)
print("ok")
