"""An `include`d chain that reuses a block name resolves it to the OUTER chain's override.

Both chains define a block called `footer`. The inner chain's blocks are appended to
the outer chain's stack for `footer`, so the inner root renders the outer leaf's
`footer` instead of its own most-derived override.
"""
import sys

import asyncio

from liquid2 import Environment
from liquid2.builtin import CachingDictLoader
from liquid2.builtin import DictLoader
from liquid2.exceptions import TemplateInheritanceError


def outcomes(templates, entry, env_kwargs=None, **data):
    """Render `entry` sync/async with caching/non-caching loaders."""
    results = []
    for loader_class in (DictLoader, CachingDictLoader):
        env = Environment(loader=loader_class(templates), **(env_kwargs or {}))
        for mode in ("sync", "async"):
            try:
                template = env.get_template(entry)
                if mode == "sync":
                    got = ("ok", template.render(**data))
                else:
                    got = ("ok", asyncio.run(template.render_async(**data)))
            except TemplateInheritanceError as err:
                got = ("inheritance-error", type(err).__name__)
            except Exception as err:  # noqa: BLE001
                got = ("other-error", f"{type(err).__name__}: {str(err)[:80]}")
            results.append((loader_class.__name__, mode, got))
    return results


def report(title, expected, results):
    """Print results and return 1 if any differs from `expected`."""
    print(title)
    print("  expected:", expected)
    bad = 0
    for loader, mode, got in results:
        ok = got == expected or (expected[0] == got[0] == "inheritance-error")
        print(f"  {loader:18} {mode:5} -> {got}  {'ok' if ok else 'VIOLATION'}")
        bad += not ok
    return 1 if bad else 0


T = {
    "page_base": "[{% block content %}base-content{% endblock %}]",
    "page": "{% extends 'page_base' %}"
    "{% block content %}page-content({% include 'card' %}){% endblock %}"
    "{% block footer %}page-footer{% endblock %}",
    "card_base": "<{% block footer %}card-base-footer{% endblock %}>",
    "card": "{% extends 'card_base' %}{% block footer %}card-footer{% endblock %}",
}
sys.exit(report(__doc__.splitlines()[0], ("ok", "[page-content(<card-footer>)]"), outcomes(T, "page")))
