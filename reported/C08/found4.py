"""A `required` block that nobody overrides is not rejected if it never gets rendered.

`inner` is required and no template overrides it, but the leaf replaces the enclosing
`outer` block, so `inner` is never reached and the page renders without an error.
(Same for a required block declared in a child that the root does not have at all.)
"""
import sys

import asyncio

from liquid2 import Environment
from liquid2.builtin import CachingDictLoader
from liquid2.builtin import DictLoader
from liquid2.exceptions import TemplateInheritanceError


def outcomes(templates, entry, env_kwargs=None, **data):
    """Render `entry` sync/async with caching/non-caching loaders."""
    results = []
    for loader_class in (DictLoader, CachingDictLoader):
        env = Environment(loader=loader_class(templates), **(env_kwargs or {}))
        for mode in ("sync", "async"):
            try:
                template = env.get_template(entry)
                if mode == "sync":
                    got = ("ok", template.render(**data))
                else:
                    got = ("ok", asyncio.run(template.render_async(**data)))
            except TemplateInheritanceError as err:
                got = ("inheritance-error", type(err).__name__)
            except Exception as err:  # noqa: BLE001
                got = ("other-error", f"{type(err).__name__}: {str(err)[:80]}")
            results.append((loader_class.__name__, mode, got))
    return results


def report(title, expected, results):
    """Print results and return 1 if any differs from `expected`."""
    print(title)
    print("  expected:", expected)
    bad = 0
    for loader, mode, got in results:
        ok = got == expected or (expected[0] == got[0] == "inheritance-error")
        print(f"  {loader:18} {mode:5} -> {got}  {'ok' if ok else 'VIOLATION'}")
        bad += not ok
    return 1 if bad else 0


T = {
    "base": "[{% block outer %}{% block inner required %}{% endblock %}{% endblock %}]",
    "leaf": "{% extends 'base' %}{% block outer %}X{% endblock %}",
}
rc = report(__doc__.splitlines()[0], ("inheritance-error", "RequiredBlockError"), outcomes(T, "leaf"))
T = {
    "base": "[BASE]",
    "leaf": "{% extends 'base' %}{% block extra required %}{% endblock %}",
}
rc |= report("required block declared in the child only", ("inheritance-error", "RequiredBlockError"), outcomes(T, "leaf"))
sys.exit(rc)
