"""With async rendering, `block.super` renders the parent block synchronously.

`BlockDrop.__getitem__` always calls `block.render()`, so inside `{{ block.super }}`
async drops are read through `__getitem__` instead of `__getitem_async__` (and an
async-only loader used by an `include` in the parent block fails).
"""
import asyncio
import sys

from liquid2 import Environment
from liquid2.builtin import DictLoader


class Drop:
    def __getitem__(self, key):
        return "sync-" + key

    async def __getitem_async__(self, key):
        return "async-" + key


env = Environment(loader=DictLoader({"base": "[{% block a %}{{ d.x }}{% endblock %}]"}))
leaf = env.from_string("{% extends 'base' %}{% block a %}{{ d.x }}/{{ block.super }}{% endblock %}")
sync = leaf.render(d=Drop())
asyn = asyncio.run(leaf.render_async(d=Drop()))
print(__doc__.splitlines()[0])
print("  sync  expected '[sync-x/sync-x]'   got", repr(sync))
print("  async expected '[async-x/async-x]' got", repr(asyn))
sys.exit(0 if (sync, asyn) == ("[sync-x/sync-x]", "[async-x/async-x]") else 1)
