"""A linear (non-circular) chain of 29 templates that all use `block.super` is rejected with ContextDepthError.

Every nested `block.super` pushes another scope on the same render context, so the
default `context_depth_limit` (30) is hit by a perfectly valid chain ("possible
recursive include"). The same chain without `block.super` renders at any depth.
"""
import sys

import asyncio

from liquid2 import Environment
from liquid2.builtin import CachingDictLoader
from liquid2.builtin import DictLoader
from liquid2.exceptions import TemplateInheritanceError


def outcomes(templates, entry, env_kwargs=None, **data):
    """Render `entry` sync/async with caching/non-caching loaders."""
    results = []
    for loader_class in (DictLoader, CachingDictLoader):
        env = Environment(loader=loader_class(templates), **(env_kwargs or {}))
        for mode in ("sync", "async"):
            try:
                template = env.get_template(entry)
                if mode == "sync":
                    got = ("ok", template.render(**data))
                else:
                    got = ("ok", asyncio.run(template.render_async(**data)))
            except TemplateInheritanceError as err:
                got = ("inheritance-error", type(err).__name__)
            except Exception as err:  # noqa: BLE001
                got = ("other-error", f"{type(err).__name__}: {str(err)[:80]}")
            results.append((loader_class.__name__, mode, got))
    return results


def report(title, expected, results):
    """Print results and return 1 if any differs from `expected`."""
    print(title)
    print("  expected:", expected)
    bad = 0
    for loader, mode, got in results:
        ok = got == expected or (expected[0] == got[0] == "inheritance-error")
        print(f"  {loader:18} {mode:5} -> {got}  {'ok' if ok else 'VIOLATION'}")
        bad += not ok
    return 1 if bad else 0


DEPTH = 29
T = {"t0": "[{% block a %}0{% endblock %}]"}
for k in range(1, DEPTH):
    T[f"t{k}"] = "{%% extends 't%d' %%}{%% block a %%}{{ block.super }},%d{%% endblock %%}" % (k - 1, k)
expect = "[" + ",".join(str(k) for k in range(DEPTH)) + "]"
sys.exit(report(__doc__.splitlines()[0], ("ok", expect), outcomes(T, f"t{DEPTH - 1}")))
