"""Pre-existing violation 1.

A Template handle obtained from a caching loader is silently re-bound when the
same name is loaded again with other globals: what `t1.render()` produces
depends on later, unrelated `get_template()` calls on the same loader.
"""

import sys

from liquid2 import CachingDictLoader
from liquid2 import DictLoader
from liquid2 import Environment

SOURCES = {"greeting": "Hello, {{ user }}!"}


def scenario(loader_class: type) -> str:
    env = Environment(loader=loader_class(dict(SOURCES)))
    t1 = env.get_template("greeting", globals={"user": "alice"})
    env.get_template("greeting", globals={"user": "bob"})  # a later, separate load
    return t1.render()


expected = scenario(DictLoader)  # plain loader == freshly built objects
observed = scenario(CachingDictLoader)
print("expected (plain DictLoader):", repr(expected))
print("observed (CachingDictLoader):", repr(observed))
if observed != expected:
    print("VIOLATION: render of an existing Template changed by a later get_template()")
    sys.exit(1)
