"""Pre-existing violation 2.

Rendering (or analysing) some *other* template that merely `{% include %}`s a
cached partial wipes the globals of a Template handle obtained earlier for that
partial, so a later render of that handle differs from its first render.
"""

import sys

from liquid2 import CachingDictLoader
from liquid2 import Environment

env = Environment(
    loader=CachingDictLoader(
        {
            "greeting": "Hello, {{ user }}!",
            "page": "<p>{% include 'greeting' %}</p>",
        }
    )
)

greeting = env.get_template("greeting", globals={"user": "alice"})
first = greeting.render()
env.get_template("page").render(user="carol")  # unrelated render on the same loader
second = greeting.render()

print("first render :", repr(first))
print("second render:", repr(second), "(expected the same text)")
if first != second:
    print("VIOLATION: an earlier render of another template changed this result")
    sys.exit(1)
