"""Pre-existing violation 3.

Two Environments that share one caching loader: the template parsed for the
first Environment is handed to the second one, still bound to the first
Environment's filters / tags / auto_escape / undefined settings.
"""

import sys

from liquid2 import CachingDictLoader
from liquid2 import DictLoader
from liquid2 import Environment

SOURCES = {"t": "{{ '<b>' }} {{ 'x' | mark }}"}


def scenario(loader_class: type) -> str:
    loader = loader_class(dict(SOURCES))
    env1 = Environment(loader=loader, auto_escape=False)
    env1.filters["mark"] = lambda s: f"{s}-from-env1"
    env2 = Environment(loader=loader, auto_escape=True)
    env2.filters["mark"] = lambda s: f"{s}-from-env2"
    env1.get_template("t").render()  # env1 is used first
    return env2.get_template("t").render()


expected = scenario(DictLoader)
observed = scenario(CachingDictLoader)
print("expected (env2 config):", repr(expected))
print("observed              :", repr(observed))
if observed != expected:
    print("VIOLATION: env2's render uses env1's configuration")
    sys.exit(1)
