"""Pre-existing violation 4.

CachingDictLoader (auto_reload=True by default) never notices that the loader
contents changed: the render is a function of what was loaded before, not of the
current loader contents.
"""

import sys

from liquid2 import CachingDictLoader
from liquid2 import Environment

sources = {"a": "version 1", "page": "{% render 'a' %}"}
env = Environment(loader=CachingDictLoader(sources))
env.get_template("page").render()

sources["a"] = "version 2"
observed = env.get_template("page").render()
expected = Environment(loader=CachingDictLoader(dict(sources))).get_template("page").render()

print("expected (fresh objects, same loader contents):", repr(expected))
print("observed (objects that rendered before)       :", repr(observed))
if observed != expected:
    print("VIOLATION: stale partial served although auto_reload is on")
    sys.exit(1)
