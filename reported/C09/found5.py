"""Pre-existing violation 5.

CachingFileSystemLoader with several search paths: once a template has been
found in a low-priority directory, a file with the same name added later to a
higher-priority directory is ignored (the up-to-date check only stats the file
that was found first).
"""

import sys
import tempfile
from pathlib import Path

from liquid2 import CachingFileSystemLoader
from liquid2 import Environment

with tempfile.TemporaryDirectory() as tmp:
    theme = Path(tmp) / "theme"
    default = Path(tmp) / "default"
    theme.mkdir()
    default.mkdir()
    (default / "header.html").write_text("default header")

    env = Environment(loader=CachingFileSystemLoader([theme, default]))
    env.get_template("header.html").render()

    (theme / "header.html").write_text("theme header")  # overrides the default

    observed = env.get_template("header.html").render()
    fresh_env = Environment(loader=CachingFileSystemLoader([theme, default]))
    expected = fresh_env.get_template("header.html").render()

print("expected (fresh objects):", repr(expected))
print("observed                :", repr(observed))
if observed != expected:
    print("VIOLATION: result depends on what was loaded earlier")
    sys.exit(1)
