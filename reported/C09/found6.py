"""Pre-existing violation 6.

After a template file has been loaded once and is then deleted, the caching file
system loader raises a bare FileNotFoundError (from the up-to-date check) where
freshly built objects raise TemplateNotFoundError - `{% include %}` in a render
therefore fails with a different, non-Liquid error depending on history.
"""

import sys
import tempfile
from pathlib import Path

from liquid2 import CachingFileSystemLoader
from liquid2 import Environment


def outcome(env: Environment) -> str:
    try:
        return env.from_string("{% include 'part.html' %}").render()
    except Exception as err:  # noqa: BLE001
        return type(err).__name__


with tempfile.TemporaryDirectory() as tmp:
    root = Path(tmp)
    (root / "part.html").write_text("part")
    env = Environment(loader=CachingFileSystemLoader(root))
    outcome(env)  # loads and caches part.html
    (root / "part.html").unlink()

    observed = outcome(env)
    expected = outcome(Environment(loader=CachingFileSystemLoader(root)))

print("expected (fresh objects):", expected)
print("observed                :", observed)
if observed != expected:
    print("VIOLATION: outcome depends on an earlier load")
    sys.exit(1)
