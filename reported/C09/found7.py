"""Pre-existing violation 7.

Cache keys built from `namespace_key` collide with plain template names:
namespace "acme" + name "x.html" and the un-namespaced name "acme/x.html" both
map to the key "acme/x.html".  Whichever was loaded first is served for both.
"""

import sys
import tempfile
from pathlib import Path

from liquid2 import CachingFileSystemLoader
from liquid2 import Environment

with tempfile.TemporaryDirectory() as tmp:
    root = Path(tmp)
    (root / "acme").mkdir()
    (root / "acme" / "x.html").write_text("file acme/x.html")
    (root / "x.html").write_text("file x.html")
    (root / "main.html").write_text("{% include 'x.html' %}")

    def new_env() -> Environment:
        return Environment(loader=CachingFileSystemLoader(root, namespace_key="site"))

    env = new_env()
    env.get_template("acme/x.html").render()  # an earlier, unrelated load
    observed = env.get_template("main.html").render(site="acme")
    expected = new_env().get_template("main.html").render(site="acme")

print("expected (fresh objects):", repr(expected))
print("observed                :", repr(observed))
if observed != expected:
    print("VIOLATION: include resolved to a template cached under a colliding key")
    sys.exit(1)
