"""Pre-existing violation 8.

Two concurrent async request handlers load the same cached template with their
own globals and then render it.  The interleaving "A loads, B loads, A renders"
makes A render with B's globals, because the cached Template object is shared
and its `global_data` is overwritten on every cache hit.
"""

import asyncio
import sys

from liquid2 import CachingDictLoader
from liquid2 import DictLoader
from liquid2 import Environment

SOURCES = {"inbox": "inbox of {{ user }}"}


async def handler(env: Environment, user: str, gate: asyncio.Event | None) -> str:
    template = await env.get_template_async("inbox", globals={"user": user})
    if gate is not None:
        await gate.wait()  # e.g. waiting for a database query
    return await template.render_async()


async def scenario(loader_class: type) -> list[str]:
    env = Environment(loader=loader_class(dict(SOURCES)))
    await env.get_template_async("inbox")  # warm the cache
    gate = asyncio.Event()
    task_a = asyncio.create_task(handler(env, "alice", gate))
    await asyncio.sleep(0)  # A has loaded its template and is waiting
    result_b = await handler(env, "bob", None)
    gate.set()
    return [await task_a, result_b]


expected = asyncio.run(scenario(DictLoader))
observed = asyncio.run(scenario(CachingDictLoader))
print("expected:", expected)
print("observed:", observed)
if observed != expected:
    print("VIOLATION: a concurrent render changed another render's result")
    sys.exit(1)
