"""Pre-existing violation 9.

CachingFileSystemLoader decides freshness with `mtime == st_mtime` only.  A file
rewritten within the timestamp granularity of the file system (simulated here by
restoring the mtime, as `cp -p`/`rsync -t` style deployments also do) keeps being
served from the cache: the render depends on the earlier load, not on the current
loader contents.
"""

import os
import sys
import tempfile
from pathlib import Path

from liquid2 import CachingFileSystemLoader
from liquid2 import Environment

with tempfile.TemporaryDirectory() as tmp:
    root = Path(tmp)
    path = root / "a.html"
    path.write_text("old content")
    stat = path.stat()

    env = Environment(loader=CachingFileSystemLoader(root))
    env.get_template("a.html").render()

    path.write_text("new content!")
    os.utime(path, ns=(stat.st_atime_ns, stat.st_mtime_ns))  # same tick

    observed = env.get_template("a.html").render()
    expected = Environment(loader=CachingFileSystemLoader(root)).get_template("a.html").render()

print("expected (fresh objects):", repr(expected))
print("observed                :", repr(observed))
if observed != expected:
    print("VIOLATION: stale template served, size/content change not detected")
    sys.exit(1)
