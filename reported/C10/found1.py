"""Template globals of a template obtained from a caching loader are replaced
when the same template name is loaded again (by another get_template() call, or
implicitly by {% include %} / {% render %} / analyze() in another template).

Expected (property): a name resolves to the template global before the
environment global, for every render of the template the caller holds.
"""

import sys

from liquid2 import CachingDictLoader
from liquid2 import Environment

env = Environment(
    loader=CachingDictLoader({"a": "[{{ x }}]", "b": "{% include 'a' %}"}),
    globals={"x": "env"},
)

t = env.get_template("a", globals={"x": "tmpl"})
first = t.render()

# Some other template includes 'a'.
env.get_template("b").render()

second = t.render()

print("expected: first render '[tmpl]', second render '[tmpl]'")
print(f"observed: first render {first!r}, second render {second!r}")

if first != "[tmpl]" or second != "[tmpl]":
    print("VIOLATION: template global lost; name resolved to the environment global")
    sys.exit(1)
