"""Inside an overriding {% block %} a template-local variable shadows a
block-scoped binding (for / with) that encloses the block in the base template.

Expected (property): a name resolves to the innermost block-scoped binding
before the template-local variable.  The very same block body rendered
directly from the base template (not overridden) does resolve that way.
"""

import sys

from liquid2 import DictLoader
from liquid2 import Environment

BODY = "{% assign x = 'local' %}{{ x }}"

env = Environment(
    loader=DictLoader(
        {
            "base": "{% for x in (1..2) %}{% block b %}"
            + BODY
            + "{% endblock %}{% endfor %}",
            "child": "{% extends 'base' %}{% block b %}" + BODY + "{% endblock %}",
        }
    )
)

direct = env.get_template("base").render()
overridden = env.get_template("child").render()

print("expected: base '12', child '12' (loop variable is the innermost binding)")
print(f"observed: base {direct!r}, child {overridden!r}")

if direct != "12" or overridden != "12":
    print("VIOLATION: block-local assignment shadows the enclosing for-loop variable")
    sys.exit(1)
