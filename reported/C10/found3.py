"""A macro parameter (reported as a block-scoped name by MacroNode.block_scope())
is shadowed by {% assign %} inside the macro body, unlike for / with / include
bindings which win over {% assign %}.

Expected (property): innermost block-scoped binding before template-local.
"""

import sys

from liquid2 import Environment

env = Environment()

macro = env.from_string(
    "{% macro m x %}{% assign x = 'local' %}{{ x }}{% endmacro %}{% call m 'block' %}"
).render()
with_ = env.from_string(
    "{% with x: 'block' %}{% assign x = 'local' %}{{ x }}{% endwith %}"
).render()

print("expected: macro 'block', with 'block'")
print(f"observed: macro {macro!r}, with {with_!r}")

if macro != "block" or with_ != "block":
    print("VIOLATION: template-local shadows the macro's block-scoped parameter")
    sys.exit(1)
