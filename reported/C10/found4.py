"""Keyword / with / for bindings of {% render %} are shadowed by {% assign %}
in the partial, while the same bindings of {% include %} are not.

Expected (property): the binding made by the tag is block scoped and wins over
the template-local variable (this is what {% include %} does).
"""

import sys

from liquid2 import DictLoader
from liquid2 import Environment

env = Environment(loader=DictLoader({"p": "{% assign x = 'local' %}{{ x }}"}))

inc = env.from_string("{% include 'p', x: 'block' %}").render()
ren = env.from_string("{% render 'p', x: 'block' %}").render()
ren_with = env.from_string("{% render 'p' with 'block' as x %}").render()

print("expected: include 'block', render 'block', render-with 'block'")
print(f"observed: include {inc!r}, render {ren!r}, render-with {ren_with!r}")

if (inc, ren, ren_with) != ("block", "block", "block"):
    print("VIOLATION: render tag bindings resolve after the partial's locals")
    sys.exit(1)
