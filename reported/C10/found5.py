"""Looking up a missing key / .size / .first on a caller-supplied defaultdict
inserts keys into it (paths and filters use obj[key] directly).

Expected (property): caller data deep-equal before and after render.
"""

import collections
import copy
import sys

from liquid2 import Environment

d = collections.defaultdict(list)
d["a"] = [1]
snap = copy.deepcopy(d)

Environment().from_string(
    "{{ d.missing }}{{ d.size }}{{ items | map: 'k' | join }}"
).render(d=d, items=[d])

print(f"expected: {dict(snap)!r}")
print(f"observed: {dict(d)!r}")

if d != snap:
    print("VIOLATION: render inserted keys into caller data")
    sys.exit(1)
