"""A one-shot iterator passed as data is consumed by sequence filters
(liquid2.filter.sequence_arg does list(val)), so the caller's object is not in
the state it was in before the render and a second render sees different data.

Expected (property): caller data unchanged by render; both renders equal.
"""

import sys

from liquid2 import Environment

it = iter([1, 2, 3])
t = Environment().from_string("{{ it | join: ',' }}")

first = t.render(it=it)
second = t.render(it=it)
remaining = list(it)

print("expected: first '1,2,3', second '1,2,3'")
print(f"observed: first {first!r}, second {second!r}, remaining items {remaining!r}")

if first != second:
    print("VIOLATION: render exhausted the caller's iterator")
    sys.exit(1)
