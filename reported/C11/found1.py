"""Filters on the left-hand side of a ternary expression are applied but not reported.

Input:    {{ name | upcase if show else other }}
Expected: analyze().filters contains 'upcase' (render applies it when `show` is truthy)
Observed: 'upcase' is missing from analyze().filters / filter_names()
Where:    liquid2/builtin/expressions.py TernaryFilteredExpression.children() returns
          self.left.children() (dropping the FilteredExpression itself) and
          liquid2/static_analysis.py _extract_filters() never looks at expression.left.
"""

import asyncio
import sys
from typing import Any

from liquid2 import DictLoader
from liquid2 import Environment


class RecordingGlobals(dict):
    """A global namespace that records every key that is looked up in it."""

    def __init__(self, *args: Any, **kwargs: Any) -> None:
        super().__init__(*args, **kwargs)
        self.looked_up: set = set()

    def __getitem__(self, key: str) -> Any:
        self.looked_up.add(key)
        return super().__getitem__(key)

    def __contains__(self, key: object) -> bool:
        self.looked_up.add(key)
        return super().__contains__(key)

    def get(self, key: str, default: Any = None) -> Any:
        self.looked_up.add(key)
        return super().get(key, default)


def wrap_filters(env: Environment) -> set:
    """Wrap every registered filter so that applied filter names are recorded."""
    applied: set = set()

    def wrap(name: str, func: Any) -> Any:
        class Wrapped:
            def __call__(self, *args: Any, **kwargs: Any) -> Any:
                applied.add(name)
                return func(*args, **kwargs)

        wrapped = Wrapped()
        for attr in ("with_context", "with_environment", "validate", "filter_async"):
            if hasattr(func, attr):
                setattr(wrapped, attr, getattr(func, attr))
        return wrapped

    for name, func in list(env.filters.items()):
        env.filters[name] = wrap(name, func)
    return applied


def run(source, data=None, partials=None, env_class=Environment, loader=None):
    """Render `source` with instrumented globals and filters, then analyze it."""
    sources = {**(partials or {}), "main": source}
    env = env_class(loader=loader or DictLoader(sources))
    applied = wrap_filters(env)
    template = env.get_template("main")
    recorder = RecordingGlobals(data or {})
    template.global_data = recorder  # the render context's global namespace
    output = template.render()
    analysis = template.analyze()
    analysis_async = asyncio.run(template.analyze_async())
    return output, recorder.looked_up, applied, analysis, analysis_async, sources


def span_text(sources, span):
    return sources[span.template_name][span.start : span.end]


SOURCE = "{{ name | upcase if show else other }}"
out, _, applied, analysis, analysis_async, _ = run(SOURCE, {"name": "sue", "show": True})
print("output:", repr(out))
print("expected: every applied filter is reported; applied =", sorted(applied))
print("observed: analyze().filters =", sorted(analysis.filters))
print("observed: analyze_async().filters =", sorted(analysis_async.filters))
missing = applied - set(analysis.filters)
if missing:
    print("VIOLATION: applied but not reported:", sorted(missing))
    sys.exit(1)
print("ok")
