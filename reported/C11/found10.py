"""Analysis fails outright when an `include` name is not a string literal.

Input:    {% assign page = 'footer' %}{% include page %}   (partial 'footer' exists)
Expected: analyze() describes what the render does (it renders 'footer', which reads
          `year` and applies `upcase`)
Observed: render works, analyze() raises TemplateNotFoundError (name evaluated against
          an empty static context -> '')
Where:    liquid2/builtin/tags/include_tag.py IncludeNode.children()/partial_scope() via
          liquid2/static_analysis.py _visit(): partial.name.evaluate(static_context).
"""

import asyncio
import sys
from typing import Any

from liquid2 import DictLoader
from liquid2 import Environment


class RecordingGlobals(dict):
    """A global namespace that records every key that is looked up in it."""

    def __init__(self, *args: Any, **kwargs: Any) -> None:
        super().__init__(*args, **kwargs)
        self.looked_up: set = set()

    def __getitem__(self, key: str) -> Any:
        self.looked_up.add(key)
        return super().__getitem__(key)

    def __contains__(self, key: object) -> bool:
        self.looked_up.add(key)
        return super().__contains__(key)

    def get(self, key: str, default: Any = None) -> Any:
        self.looked_up.add(key)
        return super().get(key, default)


def wrap_filters(env: Environment) -> set:
    """Wrap every registered filter so that applied filter names are recorded."""
    applied: set = set()

    def wrap(name: str, func: Any) -> Any:
        class Wrapped:
            def __call__(self, *args: Any, **kwargs: Any) -> Any:
                applied.add(name)
                return func(*args, **kwargs)

        wrapped = Wrapped()
        for attr in ("with_context", "with_environment", "validate", "filter_async"):
            if hasattr(func, attr):
                setattr(wrapped, attr, getattr(func, attr))
        return wrapped

    for name, func in list(env.filters.items()):
        env.filters[name] = wrap(name, func)
    return applied


def run(source, data=None, partials=None, env_class=Environment, loader=None):
    """Render `source` with instrumented globals and filters, then analyze it."""
    sources = {**(partials or {}), "main": source}
    env = env_class(loader=loader or DictLoader(sources))
    applied = wrap_filters(env)
    template = env.get_template("main")
    recorder = RecordingGlobals(data or {})
    template.global_data = recorder  # the render context's global namespace
    output = template.render()
    analysis = template.analyze()
    analysis_async = asyncio.run(template.analyze_async())
    return output, recorder.looked_up, applied, analysis, analysis_async, sources


def span_text(sources, span):
    return sources[span.template_name][span.start : span.end]


SOURCE = "{% assign page = 'footer' %}{% include page %}"
PARTIALS = {"footer": "(c) {{ year | upcase }}"}
try:
    out, looked_up, applied, analysis, _, _ = run(SOURCE, {"year": "mmxxvi"}, PARTIALS)
except Exception as err:  # noqa: BLE001
    env = Environment(loader=DictLoader({**PARTIALS, "main": SOURCE}))
    print("output:", repr(env.get_template("main").render(year="mmxxvi")))
    print("expected: analyze() reports global 'year' and filter 'upcase'")
    print(f"observed: analyze() raised {type(err).__name__}")
    print("VIOLATION: the render succeeds but static analysis cannot describe it")
    sys.exit(1)
print("observed: globals", sorted(analysis.globals), "filters", sorted(analysis.filters))
if "year" not in analysis.globals or "upcase" not in analysis.filters:
    print("VIOLATION")
    sys.exit(1)
print("ok")
