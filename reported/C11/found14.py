"""`increment`/`decrement` are treated as binding a template-local name, but counters are
resolved AFTER globals, so a later read of the name still reads the global.

Input:    {% increment n %}{{ n }}   with data n='G'
Expected: `n` reported as a global (output is '0G': `{{ n }}` reads the global)
Observed: `n` is only in analyze().locals, not in analyze().globals
Where:    liquid2/builtin/tags/increment_tag.py / decrement_tag.py template_scope();
          liquid2/context.py scope order (locals, globals, builtin, counters).
Note:     `n` is "bound" by the template as far as the analysis is concerned.
"""

import asyncio
import sys
from typing import Any

from liquid2 import DictLoader
from liquid2 import Environment


class RecordingGlobals(dict):
    """A global namespace that records every key that is looked up in it."""

    def __init__(self, *args: Any, **kwargs: Any) -> None:
        super().__init__(*args, **kwargs)
        self.looked_up: set = set()

    def __getitem__(self, key: str) -> Any:
        self.looked_up.add(key)
        return super().__getitem__(key)

    def __contains__(self, key: object) -> bool:
        self.looked_up.add(key)
        return super().__contains__(key)

    def get(self, key: str, default: Any = None) -> Any:
        self.looked_up.add(key)
        return super().get(key, default)


def wrap_filters(env: Environment) -> set:
    """Wrap every registered filter so that applied filter names are recorded."""
    applied: set = set()

    def wrap(name: str, func: Any) -> Any:
        class Wrapped:
            def __call__(self, *args: Any, **kwargs: Any) -> Any:
                applied.add(name)
                return func(*args, **kwargs)

        wrapped = Wrapped()
        for attr in ("with_context", "with_environment", "validate", "filter_async"):
            if hasattr(func, attr):
                setattr(wrapped, attr, getattr(func, attr))
        return wrapped

    for name, func in list(env.filters.items()):
        env.filters[name] = wrap(name, func)
    return applied


def run(source, data=None, partials=None, env_class=Environment, loader=None):
    """Render `source` with instrumented globals and filters, then analyze it."""
    sources = {**(partials or {}), "main": source}
    env = env_class(loader=loader or DictLoader(sources))
    applied = wrap_filters(env)
    template = env.get_template("main")
    recorder = RecordingGlobals(data or {})
    template.global_data = recorder  # the render context's global namespace
    output = template.render()
    analysis = template.analyze()
    analysis_async = asyncio.run(template.analyze_async())
    return output, recorder.looked_up, applied, analysis, analysis_async, sources


def span_text(sources, span):
    return sources[span.template_name][span.start : span.end]


SOURCE = "{% increment n %}{{ n }}"
out, looked_up, _, analysis, _, _ = run(SOURCE, {"n": "G"})
print("output:", repr(out))
print("expected: 'n' in globals (looked up in globals at render time):", sorted(looked_up))
print("observed: globals =", sorted(analysis.globals), "locals =", sorted(analysis.locals))
if "n" in looked_up and "n" not in analysis.globals:
    print("VIOLATION: 'n' is read from the global namespace but not reported as a global")
    sys.exit(1)
print("ok")
