"""Reported path strings lose the quoting of a non-identifier root, so the helper methods
return strings that are not the variable path and conflate different variables.

Input:    {{ ['a.b'] }}{{ a.b }}{{ ['my var'].c }}
Expected: variable_paths() distinguishes ['a.b'] (one segment) from a.b (two segments)
          and each returned path, read as a path, has the reported segments
Observed: both are reported as 'a.b' (one entry); ['my var'].c is reported as 'my var.c'
Where:    liquid2/static_analysis.py Variable._segments_str(): the root segment is
          written with str() without the RE_PROPERTY check applied to later segments.
"""

import asyncio
import sys
from typing import Any

from liquid2 import DictLoader
from liquid2 import Environment


class RecordingGlobals(dict):
    """A global namespace that records every key that is looked up in it."""

    def __init__(self, *args: Any, **kwargs: Any) -> None:
        super().__init__(*args, **kwargs)
        self.looked_up: set = set()

    def __getitem__(self, key: str) -> Any:
        self.looked_up.add(key)
        return super().__getitem__(key)

    def __contains__(self, key: object) -> bool:
        self.looked_up.add(key)
        return super().__contains__(key)

    def get(self, key: str, default: Any = None) -> Any:
        self.looked_up.add(key)
        return super().get(key, default)


def wrap_filters(env: Environment) -> set:
    """Wrap every registered filter so that applied filter names are recorded."""
    applied: set = set()

    def wrap(name: str, func: Any) -> Any:
        class Wrapped:
            def __call__(self, *args: Any, **kwargs: Any) -> Any:
                applied.add(name)
                return func(*args, **kwargs)

        wrapped = Wrapped()
        for attr in ("with_context", "with_environment", "validate", "filter_async"):
            if hasattr(func, attr):
                setattr(wrapped, attr, getattr(func, attr))
        return wrapped

    for name, func in list(env.filters.items()):
        env.filters[name] = wrap(name, func)
    return applied


def run(source, data=None, partials=None, env_class=Environment, loader=None):
    """Render `source` with instrumented globals and filters, then analyze it."""
    sources = {**(partials or {}), "main": source}
    env = env_class(loader=loader or DictLoader(sources))
    applied = wrap_filters(env)
    template = env.get_template("main")
    recorder = RecordingGlobals(data or {})
    template.global_data = recorder  # the render context's global namespace
    output = template.render()
    analysis = template.analyze()
    analysis_async = asyncio.run(template.analyze_async())
    return output, recorder.looked_up, applied, analysis, analysis_async, sources


def span_text(sources, span):
    return sources[span.template_name][span.start : span.end]


SOURCE = "{{ ['a.b'] }}{{ a.b }}{{ ['my var'].c }}"
out, looked_up, _, analysis, _, sources = run(SOURCE, {"a.b": 1, "a": {"b": 2}, "my var": {"c": 3}})
print("output:", repr(out))
env = Environment()
template = env.from_string(SOURCE)
paths = sorted(template.variable_paths())
segments = sorted(template.variable_segments(), key=str)
print("variable_segments():", segments)
print("variable_paths():   ", paths)
bad = False
if len(paths) != len(segments):
    print("VIOLATION: distinct variables are conflated by variable_paths()")
    bad = True
for variables in analysis.variables.values():
    for var in variables:
        try:
            reparsed = env.from_string("{{ " + str(var) + " }}").variable_segments()
        except Exception as err:  # noqa: BLE001
            reparsed = f"{type(err).__name__}"
        if reparsed != [var.segments]:
            print(f"VIOLATION: reported path {str(var)!r} for segments {var.segments} reads back as {reparsed}")
            bad = True
if bad:
    sys.exit(1)
print("ok")
