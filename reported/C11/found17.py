"""A partial whose name equals the name of the template being analysed is never analysed,
even when it is a different template.

Input:    env.from_string("{% include 'p' %}", name="p") with a loader serving
          p = {{ inner | upcase }}
Expected: variable/global `inner` and filter `upcase` are reported (render prints 'X')
Observed: analyze().variables and .filters are empty
Where:    liquid2/static_analysis.py _visit(): `seen.add(template_name)` marks the root
          template's own name as already analysed, `if partial_name in seen: return`.
"""

import asyncio
import sys
from typing import Any

from liquid2 import DictLoader
from liquid2 import Environment


class RecordingGlobals(dict):
    """A global namespace that records every key that is looked up in it."""

    def __init__(self, *args: Any, **kwargs: Any) -> None:
        super().__init__(*args, **kwargs)
        self.looked_up: set = set()

    def __getitem__(self, key: str) -> Any:
        self.looked_up.add(key)
        return super().__getitem__(key)

    def __contains__(self, key: object) -> bool:
        self.looked_up.add(key)
        return super().__contains__(key)

    def get(self, key: str, default: Any = None) -> Any:
        self.looked_up.add(key)
        return super().get(key, default)


def wrap_filters(env: Environment) -> set:
    """Wrap every registered filter so that applied filter names are recorded."""
    applied: set = set()

    def wrap(name: str, func: Any) -> Any:
        class Wrapped:
            def __call__(self, *args: Any, **kwargs: Any) -> Any:
                applied.add(name)
                return func(*args, **kwargs)

        wrapped = Wrapped()
        for attr in ("with_context", "with_environment", "validate", "filter_async"):
            if hasattr(func, attr):
                setattr(wrapped, attr, getattr(func, attr))
        return wrapped

    for name, func in list(env.filters.items()):
        env.filters[name] = wrap(name, func)
    return applied


def run(source, data=None, partials=None, env_class=Environment, loader=None):
    """Render `source` with instrumented globals and filters, then analyze it."""
    sources = {**(partials or {}), "main": source}
    env = env_class(loader=loader or DictLoader(sources))
    applied = wrap_filters(env)
    template = env.get_template("main")
    recorder = RecordingGlobals(data or {})
    template.global_data = recorder  # the render context's global namespace
    output = template.render()
    analysis = template.analyze()
    analysis_async = asyncio.run(template.analyze_async())
    return output, recorder.looked_up, applied, analysis, analysis_async, sources


def span_text(sources, span):
    return sources[span.template_name][span.start : span.end]


env = Environment(loader=DictLoader({"p": "{{ inner | upcase }}"}))
applied = wrap_filters(env)
template = env.from_string("{% include 'p' %}", name="p")
recorder = RecordingGlobals({"inner": "x"})
template.global_data = recorder
out = template.render()
analysis = template.analyze()
print("output:", repr(out))
print("expected: globals", sorted(recorder.looked_up), "filters", sorted(applied))
print("observed: globals", sorted(analysis.globals), "filters", sorted(analysis.filters))
if recorder.looked_up - set(analysis.globals) or applied - set(analysis.filters):
    print("VIOLATION: the included partial was not analysed")
    sys.exit(1)
print("ok")
