"""Message placeholders of the translation filters are resolved from the render context.

Input:    {{ 'Hello %(you)s' | t }}   with data you='World'
Expected: `you` is reported as a variable / global (the render reads it: 'Hello World')
Observed: analyze().variables and .globals are empty
Where:    liquid2/builtin/filters/translate.py BaseTranslateFilter.format_message()
          -> context.resolve(k) for every %(k)s in the message text.
"""

import asyncio
import sys
from typing import Any

from liquid2 import DictLoader
from liquid2 import Environment


class RecordingGlobals(dict):
    """A global namespace that records every key that is looked up in it."""

    def __init__(self, *args: Any, **kwargs: Any) -> None:
        super().__init__(*args, **kwargs)
        self.looked_up: set = set()

    def __getitem__(self, key: str) -> Any:
        self.looked_up.add(key)
        return super().__getitem__(key)

    def __contains__(self, key: object) -> bool:
        self.looked_up.add(key)
        return super().__contains__(key)

    def get(self, key: str, default: Any = None) -> Any:
        self.looked_up.add(key)
        return super().get(key, default)


def wrap_filters(env: Environment) -> set:
    """Wrap every registered filter so that applied filter names are recorded."""
    applied: set = set()

    def wrap(name: str, func: Any) -> Any:
        class Wrapped:
            def __call__(self, *args: Any, **kwargs: Any) -> Any:
                applied.add(name)
                return func(*args, **kwargs)

        wrapped = Wrapped()
        for attr in ("with_context", "with_environment", "validate", "filter_async"):
            if hasattr(func, attr):
                setattr(wrapped, attr, getattr(func, attr))
        return wrapped

    for name, func in list(env.filters.items()):
        env.filters[name] = wrap(name, func)
    return applied


def run(source, data=None, partials=None, env_class=Environment, loader=None):
    """Render `source` with instrumented globals and filters, then analyze it."""
    sources = {**(partials or {}), "main": source}
    env = env_class(loader=loader or DictLoader(sources))
    applied = wrap_filters(env)
    template = env.get_template("main")
    recorder = RecordingGlobals(data or {})
    template.global_data = recorder  # the render context's global namespace
    output = template.render()
    analysis = template.analyze()
    analysis_async = asyncio.run(template.analyze_async())
    return output, recorder.looked_up, applied, analysis, analysis_async, sources


def span_text(sources, span):
    return sources[span.template_name][span.start : span.end]


SOURCE = "{{ 'Hello %(you)s' | t }}"
out, looked_up, _, analysis, _, _ = run(SOURCE, {"you": "World"})
print("output:", repr(out))
print("expected: 'you' reported as variable and global; looked up:", sorted(looked_up))
print("observed: variables =", sorted(analysis.variables), "globals =", sorted(analysis.globals))
if "you" in looked_up and "you" not in analysis.globals:
    print("VIOLATION: 'you' is read from the global namespace but not reported")
    sys.exit(1)
print("ok")
