"""The span of a single-name variable that starts a range runs to the end of the source.

Input:    {{ (a..b) }}   (also {% for i in (a..5) %})
Expected: the span reported for variable `a` covers exactly 'a'
Observed: span is (start=4, end=-1): source[4:-1] == 'a..b) }'
Where:    liquid2/lexer.py Lexer.accept_path(carry=True): the PathToken is created with
          stop=-1 and stop is only updated when a further segment is scanned.
"""

import asyncio
import sys
from typing import Any

from liquid2 import DictLoader
from liquid2 import Environment


class RecordingGlobals(dict):
    """A global namespace that records every key that is looked up in it."""

    def __init__(self, *args: Any, **kwargs: Any) -> None:
        super().__init__(*args, **kwargs)
        self.looked_up: set = set()

    def __getitem__(self, key: str) -> Any:
        self.looked_up.add(key)
        return super().__getitem__(key)

    def __contains__(self, key: object) -> bool:
        self.looked_up.add(key)
        return super().__contains__(key)

    def get(self, key: str, default: Any = None) -> Any:
        self.looked_up.add(key)
        return super().get(key, default)


def wrap_filters(env: Environment) -> set:
    """Wrap every registered filter so that applied filter names are recorded."""
    applied: set = set()

    def wrap(name: str, func: Any) -> Any:
        class Wrapped:
            def __call__(self, *args: Any, **kwargs: Any) -> Any:
                applied.add(name)
                return func(*args, **kwargs)

        wrapped = Wrapped()
        for attr in ("with_context", "with_environment", "validate", "filter_async"):
            if hasattr(func, attr):
                setattr(wrapped, attr, getattr(func, attr))
        return wrapped

    for name, func in list(env.filters.items()):
        env.filters[name] = wrap(name, func)
    return applied


def run(source, data=None, partials=None, env_class=Environment, loader=None):
    """Render `source` with instrumented globals and filters, then analyze it."""
    sources = {**(partials or {}), "main": source}
    env = env_class(loader=loader or DictLoader(sources))
    applied = wrap_filters(env)
    template = env.get_template("main")
    recorder = RecordingGlobals(data or {})
    template.global_data = recorder  # the render context's global namespace
    output = template.render()
    analysis = template.analyze()
    analysis_async = asyncio.run(template.analyze_async())
    return output, recorder.looked_up, applied, analysis, analysis_async, sources


def span_text(sources, span):
    return sources[span.template_name][span.start : span.end]


SOURCE = "{{ (a..b) }}"
out, _, _, analysis, _, sources = run(SOURCE, {"a": 1, "b": 3})
print("output:", repr(out))
bad = False
for variables in analysis.variables.values():
    for var in variables:
        text = span_text(sources, var.span)
        print(f"variable {var}: span=({var.span.start}, {var.span.end}) text={text!r} expected={str(var)!r}")
        if text != str(var):
            bad = True
if bad:
    print("VIOLATION: a reported span does not contain exactly the variable path")
    sys.exit(1)
print("ok")
