"""With shorthand indexes enabled, spans of paths using `.N` segments are wrong.

Input:    {{ a.b.0 }} and {{ a.0 }}   (Environment.shorthand_indexes = True)
Expected: spans cover exactly 'a.b.0' and 'a.0'
Observed: 'a.b' (index segment left out) and 'a.0 }' (stop == -1)
Where:    liquid2/lexer.py Lexer.accept_path(): the RE_INDEX branch under
          `self.env.shorthand_indexes` does not update path_stack[-1].stop.
"""

import asyncio
import sys
from typing import Any

from liquid2 import DictLoader
from liquid2 import Environment


class RecordingGlobals(dict):
    """A global namespace that records every key that is looked up in it."""

    def __init__(self, *args: Any, **kwargs: Any) -> None:
        super().__init__(*args, **kwargs)
        self.looked_up: set = set()

    def __getitem__(self, key: str) -> Any:
        self.looked_up.add(key)
        return super().__getitem__(key)

    def __contains__(self, key: object) -> bool:
        self.looked_up.add(key)
        return super().__contains__(key)

    def get(self, key: str, default: Any = None) -> Any:
        self.looked_up.add(key)
        return super().get(key, default)


def wrap_filters(env: Environment) -> set:
    """Wrap every registered filter so that applied filter names are recorded."""
    applied: set = set()

    def wrap(name: str, func: Any) -> Any:
        class Wrapped:
            def __call__(self, *args: Any, **kwargs: Any) -> Any:
                applied.add(name)
                return func(*args, **kwargs)

        wrapped = Wrapped()
        for attr in ("with_context", "with_environment", "validate", "filter_async"):
            if hasattr(func, attr):
                setattr(wrapped, attr, getattr(func, attr))
        return wrapped

    for name, func in list(env.filters.items()):
        env.filters[name] = wrap(name, func)
    return applied


def run(source, data=None, partials=None, env_class=Environment, loader=None):
    """Render `source` with instrumented globals and filters, then analyze it."""
    sources = {**(partials or {}), "main": source}
    env = env_class(loader=loader or DictLoader(sources))
    applied = wrap_filters(env)
    template = env.get_template("main")
    recorder = RecordingGlobals(data or {})
    template.global_data = recorder  # the render context's global namespace
    output = template.render()
    analysis = template.analyze()
    analysis_async = asyncio.run(template.analyze_async())
    return output, recorder.looked_up, applied, analysis, analysis_async, sources


def span_text(sources, span):
    return sources[span.template_name][span.start : span.end]


class ShorthandEnvironment(Environment):
    shorthand_indexes = True


SOURCE = "{{ a.b.0 }}{{ c.0 }}"
out, _, _, analysis, _, sources = run(
    SOURCE, {"a": {"b": ["x"]}, "c": ["y"]}, env_class=ShorthandEnvironment
)
print("output:", repr(out))
expected = {"a.b[0]": "a.b.0", "c[0]": "c.0"}
bad = False
for variables in analysis.variables.values():
    for var in variables:
        text = span_text(sources, var.span)
        print(f"variable {var}: span text={text!r} expected={expected[str(var)]!r}")
        if text != expected[str(var)]:
            bad = True
if bad:
    print("VIOLATION: a reported span does not contain exactly the variable path")
    sys.exit(1)
print("ok")
