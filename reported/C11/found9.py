"""`comment` and `raw` tags are executed by a render but never reported as tags.

Input:    {% comment %}x{% endcomment %}{% raw %}{{ y }}{% endraw %}{% # note %}
Expected: tags executed by the render ('comment', 'raw') appear in analyze().tags
Observed: analyze().tags is empty (their nodes carry CommentToken/RawToken, not TagToken)
Where:    liquid2/static_analysis.py _visit(): only is_tag_token()/is_lines_token()
          nodes are recorded.
"""

import asyncio
import sys
from typing import Any

from liquid2 import DictLoader
from liquid2 import Environment


class RecordingGlobals(dict):
    """A global namespace that records every key that is looked up in it."""

    def __init__(self, *args: Any, **kwargs: Any) -> None:
        super().__init__(*args, **kwargs)
        self.looked_up: set = set()

    def __getitem__(self, key: str) -> Any:
        self.looked_up.add(key)
        return super().__getitem__(key)

    def __contains__(self, key: object) -> bool:
        self.looked_up.add(key)
        return super().__contains__(key)

    def get(self, key: str, default: Any = None) -> Any:
        self.looked_up.add(key)
        return super().get(key, default)


def wrap_filters(env: Environment) -> set:
    """Wrap every registered filter so that applied filter names are recorded."""
    applied: set = set()

    def wrap(name: str, func: Any) -> Any:
        class Wrapped:
            def __call__(self, *args: Any, **kwargs: Any) -> Any:
                applied.add(name)
                return func(*args, **kwargs)

        wrapped = Wrapped()
        for attr in ("with_context", "with_environment", "validate", "filter_async"):
            if hasattr(func, attr):
                setattr(wrapped, attr, getattr(func, attr))
        return wrapped

    for name, func in list(env.filters.items()):
        env.filters[name] = wrap(name, func)
    return applied


def run(source, data=None, partials=None, env_class=Environment, loader=None):
    """Render `source` with instrumented globals and filters, then analyze it."""
    sources = {**(partials or {}), "main": source}
    env = env_class(loader=loader or DictLoader(sources))
    applied = wrap_filters(env)
    template = env.get_template("main")
    recorder = RecordingGlobals(data or {})
    template.global_data = recorder  # the render context's global namespace
    output = template.render()
    analysis = template.analyze()
    analysis_async = asyncio.run(template.analyze_async())
    return output, recorder.looked_up, applied, analysis, analysis_async, sources


def span_text(sources, span):
    return sources[span.template_name][span.start : span.end]


from liquid2.ast import Node

SOURCE = "{% comment %}x{% endcomment %}{% raw %}{{ y }}{% endraw %}{% # note %}"
rendered = []
original = Node.render


def traced(self, context, buffer):
    rendered.append(type(self).__name__)
    return original(self, context, buffer)


Node.render = traced
try:
    out, _, _, analysis, _, _ = run(SOURCE, {})
finally:
    Node.render = original

print("output:", repr(out))
print("nodes rendered:", rendered)
print("expected: 'comment' and 'raw' in analyze().tags")
print("observed: analyze().tags =", sorted(analysis.tags))
if ("CommentNode" in rendered and "comment" not in analysis.tags) or (
    "RawNode" in rendered and "raw" not in analysis.tags
):
    print("VIOLATION: executed comment/raw tags are not reported")
    sys.exit(1)
print("ok")
