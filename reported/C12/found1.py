"""Grouping inside an arrow-function (lambda) filter argument is lost by str()."""
import sys
from liquid2 import Environment

env = Environment()
source = "{{ items | where: i => (i.a or i.b) and i.c | map: 'n' | join: ',' }}"
data = {"items": [{"n": 1, "a": True, "b": False, "c": False}, {"n": 2, "a": False, "b": True, "c": True}]}

template = env.from_string(source)
text = str(template)
want = template.render(**data)
got = env.from_string(text).render(**data)
print("source   :", source)
print("str()    :", text)
print("expected :", repr(want), "(output of the original template)")
print("observed :", repr(got), "(output of parse(str(template)))")

# the same happens with `not`
source2 = "{{ items | where: i => (not i.a) and i.c | map: 'n' | join: ',' }}"
t2 = env.from_string(source2)
want2 = t2.render(**data)
got2 = env.from_string(str(t2)).render(**data)
print("source   :", source2)
print("str()    :", str(t2))
print("expected :", repr(want2))
print("observed :", repr(got2))

sys.exit(1 if (want != got or want2 != got2) else 0)
