"""A cycle tag with an empty group name is printed without the name and joins the
unnamed group."""
import sys
from liquid2 import Environment

env = Environment()
source = "{% cycle '': 1, 2 %}{% cycle 1, 2 %}"
template = env.from_string(source)
want = template.render()
text = str(template)
got = env.from_string(text).render()
print("source   :", source)
print("str()    :", text)
print("expected :", repr(want))
print("observed :", repr(got))
sys.exit(0 if got == want else 1)
