"""Inside a {% liquid %} tag, a path that starts with a bracketed index is printed
as a bare number."""
import sys
from liquid2 import Environment

env = Environment()
source = "{% liquid echo [0] %}"


def outcome(template):
    try:
        return "output " + repr(template.render())
    except Exception as err:  # noqa: BLE001
        return "error " + type(err).__name__


template = env.from_string(source)
want = outcome(template)
text = str(template)
got = outcome(env.from_string(text))
print("source   :", source)
print("str()    :", text)
print("expected :", want)
print("observed :", got)
sys.exit(0 if got == want else 1)
