"""Templates cannot be pickled with pickle protocols 0 and 1."""
import pickle
import sys
from liquid2 import Environment

template = Environment().from_string("Hello, {{ you }}!")
want = template.render(you="World")
failed = False
for protocol in range(pickle.HIGHEST_PROTOCOL + 1):
    try:
        got = pickle.loads(pickle.dumps(template, protocol=protocol)).render(you="World")
    except Exception as err:  # noqa: BLE001
        got = f"{type(err).__name__}: {err}"
    status = "ok" if got == want else "VIOLATION"
    failed = failed or got != want
    print(f"{status}: protocol {protocol}: expected {want!r}, observed {got!r}")
sys.exit(1 if failed else 0)
