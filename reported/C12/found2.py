"""str() of a template whose path starts with a bracketed index raises AttributeError."""
import sys
from liquid2 import Environment

env = Environment()
source = "{{ [0] }}"
template = env.from_string(source)  # parses without error
print("source   :", source)
print("expected : str(template) returns Liquid source text")
try:
    text = str(template)
except Exception as err:  # noqa: BLE001
    print(f"observed : str(template) raised {type(err).__name__}: {err}")
    sys.exit(1)
print("observed :", text)
env.from_string(text)
sys.exit(0)
