"""A bracketed root segment that spells a keyword is printed bare, changing its meaning."""
import sys
from liquid2 import Environment
from liquid2.exceptions import LiquidError

env = Environment()
failed = False
data = {"true": "T", "nil": "N", "empty": "E", "blank": "B", "if": "I", "and": "A"}
for name in ("true", "nil", "empty", "blank", "if", "and"):
    source = "{{ ['%s'] }}" % name
    template = env.from_string(source)
    want = template.render(**data)
    text = str(template)
    try:
        got = env.from_string(text).render(**data)
    except LiquidError as err:
        got = f"{type(err).__name__}"
    status = "ok" if got == want else "VIOLATION"
    if got != want:
        failed = True
    print(f"{status}: {source} -> str() {text!r}; expected output {want!r}, observed {got!r}")
sys.exit(1 if failed else 0)
