"""Inside a {% liquid %} tag, a double quoted path segment containing \\" is printed
in single quotes with the \\" escape kept, which the lexer rejects."""
import sys
from liquid2 import Environment
from liquid2.exceptions import LiquidError

env = Environment()
source = '{% liquid echo a["x\\"y"] %}'
data = {"a": {'x"y': "found"}}
template = env.from_string(source)
want = template.render(**data)
text = str(template)
print("source   :", source)
print("str()    :", text)
print("expected : reparses and renders", repr(want))
try:
    got = env.from_string(text).render(**data)
except LiquidError as err:
    print(f"observed : {type(err).__name__}: {str(err).splitlines()[0]}")
    sys.exit(1)
print("observed :", repr(got))
sys.exit(0 if got == want else 1)
