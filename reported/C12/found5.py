"""A template string whose text has both kinds of quote and an interpolated
expression containing a string literal is printed with \\' inside ${...}."""
import sys
from liquid2 import Environment
from liquid2.exceptions import LiquidError

env = Environment()
source = """{{ 'say "hi" ${ y | append: "!" }' }}"""
data = {"y": "there"}
template = env.from_string(source)
want = template.render(**data)
text = str(template)
print("source   :", source)
print("str()    :", text)
print("expected : reparses and renders", repr(want))
try:
    got = env.from_string(text).render(**data)
except LiquidError as err:
    print(f"observed : {type(err).__name__}: {str(err).splitlines()[0]}")
    sys.exit(1)
print("observed :", repr(got))
sys.exit(0 if got == want else 1)
