"""A one item array literal (`'ab',`) is printed without its comma and is read back
as a plain string."""
import sys
from liquid2 import Environment

env = Environment()
failed = False
for source in (
    "{{ 'ab', | size }}",
    "{% for c in 'ab', %}[{{ c }}]{% endfor %}",
    "{% assign z = 'ab', %}{{ z | first }}",
):
    template = env.from_string(source)
    want = template.render()
    text = str(template)
    got = env.from_string(text).render()
    status = "ok" if got == want else "VIOLATION"
    failed = failed or got != want
    print(f"{status}: {source} -> str() {text!r}; expected {want!r}, observed {got!r}")
sys.exit(1 if failed else 0)
