"""Tag names given as quoted strings that spell a keyword are printed unquoted and
do not parse (cycle group, macro/call name, block name, include alias, counters)."""
import sys
from liquid2 import DictLoader
from liquid2 import Environment
from liquid2.exceptions import LiquidError

env = Environment(loader=DictLoader({"p": "{{ ['as'] }}"}))
failed = False
for source in (
    "{% cycle 'true': 1, 2 %}{% cycle 'true': 1, 2 %}",
    "{% macro 'if' a %}<{{ a }}>{% endmacro %}{% call 'if' 1 %}",
    "{% block 'for' %}x{% endblock %}",
    "{% include 'p' with 1 as 'as' %}",
    "{% increment 'in' %}",
):
    template = env.from_string(source)
    want = template.render()
    text = str(template)
    try:
        got = env.from_string(text).render()
    except LiquidError as err:
        got = f"{type(err).__name__}: {str(err).splitlines()[0]}"
    status = "ok" if got == want else "VIOLATION"
    failed = failed or got != want
    print(f"{status}: {source} -> str() {text!r}; expected {want!r}, observed {got!r}")
sys.exit(1 if failed else 0)
