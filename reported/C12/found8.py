"""A template from an environment with a caching loader cannot be pickled."""
import pickle
import sys
from liquid2 import CachingDictLoader
from liquid2 import Environment

env = Environment(loader=CachingDictLoader({"a": "Hello, {{ you }}!"}))
failed = False
for label, template in (
    ("env.get_template('a')", env.get_template("a")),
    ("env.from_string(...)", env.from_string("Hello, {{ you }}!")),
):
    want = template.render(you="World")
    print(f"{label}: expected pickle round trip to render {want!r}")
    try:
        got = pickle.loads(pickle.dumps(template)).render(you="World")
    except Exception as err:  # noqa: BLE001
        print(f"  observed: {type(err).__name__}: {err}")
        failed = True
        continue
    print("  observed:", repr(got))
    failed = failed or got != want
sys.exit(1 if failed else 0)
