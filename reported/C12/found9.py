"""A pickled template that is unpickled in another process no longer shares its
cycle groups with equal cycle tags in templates parsed there (cycle_hash is a
process specific hash() computed at parse time and stored in the pickle)."""
import os
import subprocess
import sys
import tempfile

CHILD = r'''
import pickle, sys
from liquid2 import Environment, DictLoader
mode, path = sys.argv[1], sys.argv[2]
if mode == "dump":
    env = Environment(loader=DictLoader({"p": "{% cycle 'a', 'b', 'c' %}"}))
    t = env.from_string("{% cycle 'a', 'b', 'c' %}{% include 'p' %}{% cycle 'a', 'b', 'c' %}")
    with open(path, "wb") as fd:
        pickle.dump(t, fd)
else:
    with open(path, "rb") as fd:
        t = pickle.load(fd)
print(t.render())
'''

with tempfile.TemporaryDirectory() as tmp:
    path = os.path.join(tmp, "template.pickle")
    outputs = []
    for mode, seed in (("dump", "1"), ("load", "2")):
        proc = subprocess.run(
            [sys.executable, "-c", CHILD, mode, path],
            env=dict(os.environ, PYTHONHASHSEED=seed),
            capture_output=True,
            text=True,
            check=True,
        )
        outputs.append(proc.stdout.strip())

print("template : {% cycle 'a', 'b', 'c' %}{% include 'p' %}{% cycle 'a', 'b', 'c' %}   (p is the same cycle tag)")
print("expected :", repr(outputs[0]), "(output in the process that pickled it)")
print("observed :", repr(outputs[1]), "(output of the unpickled template in another process)")
sys.exit(0 if outputs[0] == outputs[1] else 1)
