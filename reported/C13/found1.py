"""Pre-existing: absolute name "/" with a default extension -> ValueError.

FileSystemLoader.resolve_path applies the default extension (Path.with_suffix)
BEFORE it rejects absolute names, so the absolute name "/" (also "//", "/.",
"/./") escapes as a bare ValueError instead of TemplateNotFoundError - from
Python and from include/render/extends in an untrusted template.
"""
import asyncio
import sys
import tempfile
from pathlib import Path

from liquid2 import CachingFileSystemLoader
from liquid2 import Environment
from liquid2 import FileSystemLoader
from liquid2 import TemplateNotFoundError

root = Path(tempfile.mkdtemp()) / "templates"
root.mkdir()
(root / "a.liquid").write_text("inside")

bad = []


def check(label, fn):
    try:
        fn()
    except TemplateNotFoundError:
        print(f"ok   {label}: TemplateNotFoundError")
    except Exception as err:  # noqa: BLE001
        print(f"BAD  {label}: expected TemplateNotFoundError, got {type(err).__name__}: {err}")
        bad.append(label)
    else:
        print(f"BAD  {label}: expected TemplateNotFoundError, got a template")
        bad.append(label)


for cls in (FileSystemLoader, CachingFileSystemLoader):
    env = Environment(loader=cls(root, ext=".liquid"))
    for name in ("/", "//", "/.", "/./"):
        check(f"{cls.__name__} get_template({name!r})", lambda: env.get_template(name))
        check(
            f"{cls.__name__} get_template_async({name!r})",
            lambda: asyncio.run(env.get_template_async(name)),
        )
    for src in ("{% include '/' %}", "{% render '/' %}", "{% extends '/' %}"):
        check(f"{cls.__name__} {src}", lambda: env.from_string(src).render())

sys.exit(1 if bad else 0)
