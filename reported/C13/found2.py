"""Pre-existing: names that denote the search root itself ("", ".", "./") ->
ValueError (loaders with a default extension) instead of TemplateNotFoundError.

"" and "." do not name a file inside the search directory; they resolve to the
root directory itself. FileSystemLoader(ext=...) and PackageLoader (which always
has an ext) call Path.with_suffix on them, which raises a bare ValueError
("PosixPath('.') has an empty name"). Reachable from `{% include n %}` with
n == "" supplied as data.
"""
import asyncio
import sys
import tempfile
from pathlib import Path

from liquid2 import ChoiceLoader
from liquid2 import Environment
from liquid2 import FileSystemLoader
from liquid2 import PackageLoader
from liquid2 import TemplateNotFoundError

tmp = Path(tempfile.mkdtemp())
root = tmp / "found2pkg" / "templates"
root.mkdir(parents=True)
(tmp / "found2pkg" / "__init__.py").write_text("")
(root / "a.liquid").write_text("inside")
sys.path.insert(0, str(tmp))

bad = []


def check(label, fn):
    try:
        fn()
    except TemplateNotFoundError:
        print(f"ok   {label}: TemplateNotFoundError")
    except Exception as err:  # noqa: BLE001
        print(f"BAD  {label}: expected TemplateNotFoundError, got {type(err).__name__}: {err}")
        bad.append(label)
    else:
        print(f"BAD  {label}: expected TemplateNotFoundError, got a template")
        bad.append(label)


loaders = {
    "FileSystemLoader(ext)": FileSystemLoader(root, ext=".liquid"),
    "PackageLoader": PackageLoader("found2pkg"),
    "ChoiceLoader[PackageLoader]": ChoiceLoader([PackageLoader("found2pkg")]),
}
for lname, loader in loaders.items():
    env = Environment(loader=loader)
    for name in ("", ".", "./"):
        check(f"{lname} get_template({name!r})", lambda: env.get_template(name))
        check(
            f"{lname} get_template_async({name!r})",
            lambda: asyncio.run(env.get_template_async(name)),
        )
    check(f"{lname} include n (n='')", lambda: env.from_string("{% include n %}").render(n=""))
    check(f"{lname} render '.'", lambda: env.from_string("{% render '.' %}").render())
    check(f"{lname} extends ''", lambda: env.from_string("{% extends '' %}").render())

sys.exit(1 if bad else 0)
