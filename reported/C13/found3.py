"""Pre-existing: FileSystemLoader (no default ext) resolves names that denote a
directory ("", ".", "sub", "sub/") because resolve_path tests Path.exists()
rather than is_file(); opening it raises IsADirectoryError, not
TemplateNotFoundError. "" and "." denote the search root itself, which is not a
file inside the root.
"""
import asyncio
import sys
import tempfile
from pathlib import Path

from liquid2 import ChoiceLoader
from liquid2 import Environment
from liquid2 import FileSystemLoader
from liquid2 import TemplateNotFoundError

root = Path(tempfile.mkdtemp()) / "templates"
(root / "sub").mkdir(parents=True)
(root / "sub" / "b.liquid").write_text("inside")

bad = []


def check(label, fn):
    try:
        fn()
    except TemplateNotFoundError:
        print(f"ok   {label}: TemplateNotFoundError")
    except Exception as err:  # noqa: BLE001
        print(f"BAD  {label}: expected TemplateNotFoundError, got {type(err).__name__}: {err}")
        bad.append(label)
    else:
        print(f"BAD  {label}: expected TemplateNotFoundError, got a template")
        bad.append(label)


for lname, loader in {
    "FileSystemLoader": FileSystemLoader(root),
    "ChoiceLoader[FileSystemLoader]": ChoiceLoader([FileSystemLoader(root)]),
}.items():
    env = Environment(loader=loader)
    for name in ("", ".", "sub", "sub/"):
        check(f"{lname} get_template({name!r})", lambda: env.get_template(name))
        check(
            f"{lname} get_template_async({name!r})",
            lambda: asyncio.run(env.get_template_async(name)),
        )
    check(f"{lname} include n (n='')", lambda: env.from_string("{% include n %}").render(n=""))
    check(f"{lname} render 'sub'", lambda: env.from_string("{% render 'sub' %}").render())

sys.exit(1 if bad else 0)
