"""Pre-existing: symbolic links inside a search directory are followed, so the
loaders return the contents of files that live OUTSIDE the configured root
(both a file symlink and a directory symlink). Neither FileSystemLoader nor
PackageLoader resolves the final path and checks containment.

Debatable: the link itself is located inside the root; but the bytes returned
are read from outside it ("never read outside their roots").
"""
import asyncio
import os
import sys
import tempfile
from pathlib import Path

from liquid2 import CachingFileSystemLoader
from liquid2 import Environment
from liquid2 import FileSystemLoader
from liquid2 import PackageLoader
from liquid2 import TemplateNotFoundError

tmp = Path(tempfile.mkdtemp())
root = tmp / "found4pkg" / "templates"
root.mkdir(parents=True)
(tmp / "found4pkg" / "__init__.py").write_text("")
(tmp / "secret.liquid").write_text("OUTSIDE-FILE")
(tmp / "outdir").mkdir()
(tmp / "outdir" / "s.liquid").write_text("OUTSIDE-DIR")
os.symlink(tmp / "secret.liquid", root / "link.liquid")
os.symlink(tmp / "outdir", root / "linkdir")
sys.path.insert(0, str(tmp))

bad = []
real_root = root.resolve()


def check(label, fn):
    try:
        template = fn()
    except TemplateNotFoundError:
        print(f"ok   {label}: TemplateNotFoundError")
        return
    real = Path(template.path).resolve()
    if not real.is_relative_to(real_root):
        print(
            f"BAD  {label}: expected TemplateNotFoundError, got contents "
            f"{template.render()!r} read from {real} (root is {real_root})"
        )
        bad.append(label)


for lname, loader in {
    "FileSystemLoader": FileSystemLoader(root),
    "CachingFileSystemLoader": CachingFileSystemLoader(root),
    "PackageLoader": PackageLoader("found4pkg"),
}.items():
    env = Environment(loader=loader)
    for name in ("link.liquid", "linkdir/s.liquid"):
        check(f"{lname} get_template({name!r})", lambda: env.get_template(name))
        check(
            f"{lname} get_template_async({name!r})",
            lambda: asyncio.run(env.get_template_async(name)),
        )

sys.exit(1 if bad else 0)
