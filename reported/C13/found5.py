"""Pre-existing: a name with a segment longer than NAME_MAX (255 bytes) makes
Path.exists()/is_file() raise OSError(ENAMETOOLONG), which the loaders let
through instead of raising TemplateNotFoundError. Reachable from
`{% include n %}` with attacker-controlled n.
"""
import asyncio
import sys
import tempfile
from pathlib import Path

from liquid2 import Environment
from liquid2 import FileSystemLoader
from liquid2 import PackageLoader
from liquid2 import TemplateNotFoundError

tmp = Path(tempfile.mkdtemp())
root = tmp / "found5pkg" / "templates"
root.mkdir(parents=True)
(tmp / "found5pkg" / "__init__.py").write_text("")
sys.path.insert(0, str(tmp))

bad = []
name = "a" * 300


def check(label, fn):
    try:
        fn()
    except TemplateNotFoundError:
        print(f"ok   {label}: TemplateNotFoundError")
    except Exception as err:  # noqa: BLE001
        print(f"BAD  {label}: expected TemplateNotFoundError, got {type(err).__name__}: {str(err)[:60]}")
        bad.append(label)


for lname, loader in {
    "FileSystemLoader": FileSystemLoader(root),
    "PackageLoader": PackageLoader("found5pkg"),
}.items():
    env = Environment(loader=loader)
    check(f"{lname} get_template('a'*300)", lambda: env.get_template(name))
    check(f"{lname} get_template_async('a'*300)", lambda: asyncio.run(env.get_template_async(name)))
    check(f"{lname} include n", lambda: env.from_string("{% include n %}").render(n=name))

sys.exit(1 if bad else 0)
