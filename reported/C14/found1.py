"""PRE-EXISTING: deleting the source of a cached template makes CachingFileSystemLoader
raise FileNotFoundError (from the freshness check) where FileSystemLoader raises
TemplateNotFoundError. Sync and async."""
import asyncio, sys, tempfile
from pathlib import Path
from liquid2 import CachingFileSystemLoader, Environment, FileSystemLoader

def sync(env):
    try:
        return env.get_template("a.txt").render()
    except Exception as err:
        return type(err).__name__

def asyn(env):
    async def coro():
        return await (await env.get_template_async("a.txt")).render_async()
    try:
        return asyncio.run(coro())
    except Exception as err:
        return type(err).__name__

bad = False
for label, step in (("sync", sync), ("async", asyn)):
    with tempfile.TemporaryDirectory() as tmp:
        path = Path(tmp) / "a.txt"
        path.write_text("A1")
        cached = Environment(loader=CachingFileSystemLoader(tmp))
        plain = Environment(loader=FileSystemLoader(tmp))
        assert step(cached) == step(plain) == "A1"
        path.unlink()
        expected, got = step(plain), step(cached)
        print(f"{label}: after delete, uncached -> {expected}; cached -> {got}")
        bad |= expected != got
sys.exit(1 if bad else 0)
