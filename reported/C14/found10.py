"""PRE-EXISTING: rendering an unrelated template that {% include %}s a cached template
wipes the globals of a copy of that template another caller already holds (the tag
loads it with the environment's globals and the cache hit rebinds global_data)."""
import sys
from liquid2 import CachingDictLoader, DictLoader, Environment

SOURCES = {"a": "hello {{ who }}", "m": "[{% include 'a' %}]"}

def history(loader):
    env = Environment(loader=loader)
    held = env.get_template("a", globals={"who": "alice"})
    other = env.get_template("m").render(who="bob")
    return [other, held.render()]

expected = history(DictLoader(dict(SOURCES)))
got = history(CachingDictLoader(dict(SOURCES)))
print(f"uncached -> {expected}; cached -> {got}")
sys.exit(1 if expected != got else 0)
