"""PRE-EXISTING: CachingChoiceLoader([FileSystemLoader, DictLoader]); the name exists
in both. After the file is deleted ChoiceLoader falls through to the dict source,
the caching loader raises FileNotFoundError."""
import sys, tempfile
from pathlib import Path
from liquid2 import CachingChoiceLoader, ChoiceLoader, DictLoader, Environment, FileSystemLoader

def step(env):
    try:
        return env.get_template("a.txt").render()
    except Exception as err:
        return type(err).__name__

with tempfile.TemporaryDirectory() as tmp:
    path = Path(tmp) / "a.txt"
    path.write_text("from file")
    children = [FileSystemLoader(tmp), DictLoader({"a.txt": "fallback"})]
    cached = Environment(loader=CachingChoiceLoader(children))
    plain = Environment(loader=ChoiceLoader(children))
    assert step(cached) == step(plain) == "from file"
    path.unlink()
    expected, got = step(plain), step(cached)
    print(f"after delete: uncached -> {expected!r}; cached -> {got!r}")
    sys.exit(1 if expected != got else 0)
