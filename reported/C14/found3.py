"""PRE-EXISTING: CachingFileSystemLoader with two search paths. A template cached from
the second path keeps being served after a file of the same name appears in the
first (higher priority) path; freshness is only checked against the old file."""
import sys, tempfile
from pathlib import Path
from liquid2 import CachingFileSystemLoader, Environment, FileSystemLoader

with tempfile.TemporaryDirectory() as hi, tempfile.TemporaryDirectory() as lo:
    (Path(lo) / "a.txt").write_text("low")
    cached = Environment(loader=CachingFileSystemLoader([hi, lo]))
    plain = Environment(loader=FileSystemLoader([hi, lo]))
    assert cached.get_template("a.txt").render() == plain.get_template("a.txt").render() == "low"
    (Path(hi) / "a.txt").write_text("high")
    expected = plain.get_template("a.txt").render()
    got = cached.get_template("a.txt").render()
    print(f"after adding a.txt to the first search path: uncached -> {expected!r}; cached -> {got!r}")
    sys.exit(1 if expected != got else 0)
