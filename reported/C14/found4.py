"""PRE-EXISTING: cache keys are f"{namespace}/{name}", so (namespace "a", name "b/c.txt")
and (namespace "a/b", name "c.txt") share an entry: a template loaded for one
namespace is served to another, and it is not even the requested name."""
import sys, tempfile
from pathlib import Path
from liquid2 import CachingFileSystemLoader, Environment, FileSystemLoader

with tempfile.TemporaryDirectory() as tmp:
    (Path(tmp) / "b").mkdir()
    (Path(tmp) / "b" / "c.txt").write_text("this is b/c.txt")
    (Path(tmp) / "c.txt").write_text("this is c.txt")
    cached = Environment(loader=CachingFileSystemLoader(tmp, namespace_key="uid"))
    plain = Environment(loader=FileSystemLoader(tmp))
    assert cached.get_template("b/c.txt", uid="a").render() == "this is b/c.txt"
    expected = plain.get_template("c.txt", uid="a/b").render()
    got = cached.get_template("c.txt", uid="a/b").render()
    print(f"get_template('c.txt', uid='a/b'): uncached -> {expected!r}; cached -> {got!r}")
    sys.exit(1 if expected != got else 0)
