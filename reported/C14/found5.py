"""PRE-EXISTING: a load with no namespace uses the bare name as cache key, which
collides with namespace + "/" + name: ("u/a.txt", no namespace) vs ("a.txt", uid="u")."""
import sys, tempfile
from pathlib import Path
from liquid2 import CachingFileSystemLoader, Environment, FileSystemLoader

with tempfile.TemporaryDirectory() as tmp:
    (Path(tmp) / "u").mkdir()
    (Path(tmp) / "u" / "a.txt").write_text("this is u/a.txt")
    (Path(tmp) / "a.txt").write_text("this is a.txt")
    cached = Environment(loader=CachingFileSystemLoader(tmp, namespace_key="uid"))
    plain = Environment(loader=FileSystemLoader(tmp))
    assert cached.get_template("u/a.txt").render() == "this is u/a.txt"
    expected = plain.get_template("a.txt", uid="u").render()
    got = cached.get_template("a.txt", uid="u").render()
    print(f"get_template('a.txt', uid='u'): uncached -> {expected!r}; cached -> {got!r}")
    sys.exit(1 if expected != got else 0)
