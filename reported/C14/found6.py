"""PRE-EXISTING: a cache hit rebinds global_data on the one shared Template object, so a
second caller's globals replace the first caller's in a template the first caller
already holds (load A, load B, render A, render B)."""
import sys
from liquid2 import CachingDictLoader, DictLoader, Environment

def history(loader):
    env = Environment(loader=loader)
    t1 = env.get_template("a", globals={"who": "alice"})
    t2 = env.get_template("a", globals={"who": "bob"})
    return [t1.render(), t2.render()]

expected = history(DictLoader({"a": "hello {{ who }}"}))
got = history(CachingDictLoader({"a": "hello {{ who }}"}))
print(f"uncached -> {expected}; cached -> {got}")
sys.exit(1 if expected != got else 0)
