"""PRE-EXISTING: the cache ignores the Environment asking for the template (the `env`
argument of _check_cache is unused). A loader shared by two environments serves
env1's parsed template (bound to env1's filters/tags/settings) to env2."""
import sys
from liquid2 import CachingDictLoader, DictLoader, Environment

def history(loader):
    env1 = Environment(loader=loader)
    env1.filters["mark"] = lambda s: f"{s}-env1"
    env2 = Environment(loader=loader)
    env2.filters["mark"] = lambda s: f"{s}-env2"
    return [env1.get_template("a").render(), env2.get_template("a").render()]

expected = history(DictLoader({"a": "{{ 'x' | mark }}"}))
got = history(CachingDictLoader({"a": "{{ 'x' | mark }}"}))
print(f"uncached -> {expected}; cached -> {got}")
sys.exit(1 if expected != got else 0)
