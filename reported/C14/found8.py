"""PRE-EXISTING: freshness is `mtime == st_mtime` only. A source modification that keeps
the mtime (cp -p / rsync -t / two writes inside one timestamp tick) is never seen by
CachingFileSystemLoader with auto_reload=True."""
import os, sys, tempfile
from pathlib import Path
from liquid2 import CachingFileSystemLoader, Environment, FileSystemLoader

with tempfile.TemporaryDirectory() as tmp:
    path = Path(tmp) / "a.txt"
    path.write_text("v1")
    st = path.stat()
    cached = Environment(loader=CachingFileSystemLoader(tmp, auto_reload=True))
    plain = Environment(loader=FileSystemLoader(tmp))
    assert cached.get_template("a.txt").render() == "v1"
    path.write_text("v2 is longer")
    os.utime(path, ns=(st.st_atime_ns, st.st_mtime_ns))
    expected = plain.get_template("a.txt").render()
    got = cached.get_template("a.txt").render()
    print(f"after same-mtime modification: uncached -> {expected!r}; cached -> {got!r}")
    sys.exit(1 if expected != got else 0)
