"""PRE-EXISTING: CachingChoiceLoader over two FileSystemLoaders. A template cached from
the second child keeps being served after the name appears in the first child."""
import sys, tempfile
from pathlib import Path
from liquid2 import CachingChoiceLoader, ChoiceLoader, Environment, FileSystemLoader

with tempfile.TemporaryDirectory() as hi, tempfile.TemporaryDirectory() as lo:
    (Path(lo) / "a.txt").write_text("low")
    children = [FileSystemLoader(hi), FileSystemLoader(lo)]
    cached = Environment(loader=CachingChoiceLoader(children))
    plain = Environment(loader=ChoiceLoader(children))
    assert cached.get_template("a.txt").render() == plain.get_template("a.txt").render() == "low"
    (Path(hi) / "a.txt").write_text("high")
    expected = plain.get_template("a.txt").render()
    got = cached.get_template("a.txt").render()
    print(f"after adding a.txt to the first child loader: uncached -> {expected!r}; cached -> {got!r}")
    sys.exit(1 if expected != got else 0)
