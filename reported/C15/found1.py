"""PRE-EXISTING VIOLATION 1

ngettext filter with a keyword argument written before the positional plural: extraction takes args[0] (the keyword argument's value) as the plural form, the render passes the first *positional* argument.  Responsible: NGetText.message (also PGetText.message / NPGetText.message) in liquid2/builtin/filters/translate.py.
"""

import sys

from liquid2 import Environment
from liquid2.messages import extract_from_template

SOURCE = '{{ "apple" | ngettext: note: "x", "apples", 2 }}'
DATA = {}


class Recorder:
    def __init__(self):
        self.calls = []

    def gettext(self, message):
        self.calls.append(("gettext", (str(message),)))
        return message

    def ngettext(self, singular, plural, n):
        self.calls.append(("ngettext", (str(singular), str(plural))))
        return singular if n == 1 else plural

    def pgettext(self, ctx, message):
        self.calls.append(("pgettext", ((str(ctx), "c"), str(message))))
        return message

    def npgettext(self, ctx, singular, plural, n):
        self.calls.append(("npgettext", ((str(ctx), "c"), str(singular), str(plural))))
        return singular if n == 1 else plural


def main() -> int:
    env = Environment()
    template = env.from_string(SOURCE)
    rec = Recorder()
    out = template.render(translations=rec, **DATA)
    messages = list(extract_from_template(template))
    reported = {(m.funcname, tuple(m.message)) for m in messages}
    print("template :", repr(SOURCE))
    print("data     :", DATA)
    print("output   :", repr(out))
    print("runtime catalog lookups :", rec.calls)
    print("extracted messages      :", [(m.lineno, m.funcname, m.message) for m in messages])
    print("expected : every runtime lookup (family + message ids/context) is among the extracted messages")
    missing = [c for c in rec.calls if c not in reported]
    if missing:
        print("VIOLATION: lookups not reported by extraction:", missing)
        return 1
    print("ok")
    return 0


if __name__ == "__main__":
    sys.exit(main())
