"""PRE-EXISTING VIOLATION 11 (borderline - depends on how "line number of the
originating tag or expression" is read)

An output statement spans three lines.  The tag opens on line 1, the inline-if
expression starts on line 2 and the translated string literal of the else
branch is on line 3.  Extraction reports the else-branch message on line 2,
which is neither the line of the tag (1) nor the line of the translated
literal/filter application (3): _extract_from_filters / visit_expression in
liquid2/messages.py use the line of the *first* operand of the whole
expression for every message found in it (same for template-string
interpolations nested in filter arguments).
"""

import sys

from liquid2 import Environment
from liquid2.messages import extract_from_template

SOURCE = "{{\n 'Welcome back' | t if user else\n 'Welcome' | t }}\n"


def main() -> int:
    template = Environment().from_string(SOURCE)
    messages = list(extract_from_template(template))
    print("template :", repr(SOURCE))
    print("extracted:", [(m.lineno, m.funcname, m.message) for m in messages])
    got = {m.message: m.lineno for m in messages}
    lineno = got[("Welcome",)]
    print("expected : ('Welcome',) reported on line 1 (the tag) or line 3 (the literal)")
    print("observed : line", lineno)
    if lineno not in (1, 3):
        print("VIOLATION")
        return 1
    return 0


if __name__ == "__main__":
    sys.exit(main())
