"""PRE-EXISTING VIOLATION 12 (borderline - depends on the definition of a line)

line_number()/line_number_factory() in liquid2/messages.py count lines with
str.splitlines(), which also breaks on form feed, vertical tab, FS/GS/RS, NEL,
U+2028 and U+2029.  A template that contains such a character but no newline
at all reports its messages on line 2+, whereas gettext tooling (Babel, Python
file iteration, PO "#: file:line" references) only counts \\n / \\r\\n / \\r.
"""

import io
import sys

from liquid2 import Environment
from liquid2.messages import extract_from_template

SOURCE = "Section 1\x0c{{ 'Hello' | t }}\u2028{% translate %}Bye{% endtranslate %}"


def main() -> int:
    template = Environment().from_string(SOURCE)
    messages = list(extract_from_template(template))
    n_lines = len(list(io.StringIO(SOURCE)))
    print("template :", repr(SOURCE))
    print("lines in the file (universal newlines):", n_lines)
    print("extracted:", [(m.lineno, m.funcname, m.message) for m in messages])
    print("expected : every message on line 1")
    bad = [m for m in messages if m.lineno != 1]
    if bad:
        print("VIOLATION: line numbers beyond the end of the file:", [(m.lineno, m.message) for m in bad])
        return 1
    return 0


if __name__ == "__main__":
    sys.exit(main())
