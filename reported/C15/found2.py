"""PRE-EXISTING VIOLATION 2

t filter whose message context follows a keyword argument: render calls pgettext('menu', 'Open'), extraction only looks at args[0] for the context and reports plain gettext.  Responsible: Translate.message in liquid2/builtin/filters/translate.py.
"""

import sys

from liquid2 import Environment
from liquid2.messages import extract_from_template

SOURCE = '{{ "Open" | t: you: "Sue", "menu" }}'
DATA = {}


class Recorder:
    def __init__(self):
        self.calls = []

    def gettext(self, message):
        self.calls.append(("gettext", (str(message),)))
        return message

    def ngettext(self, singular, plural, n):
        self.calls.append(("ngettext", (str(singular), str(plural))))
        return singular if n == 1 else plural

    def pgettext(self, ctx, message):
        self.calls.append(("pgettext", ((str(ctx), "c"), str(message))))
        return message

    def npgettext(self, ctx, singular, plural, n):
        self.calls.append(("npgettext", ((str(ctx), "c"), str(singular), str(plural))))
        return singular if n == 1 else plural


def main() -> int:
    env = Environment()
    template = env.from_string(SOURCE)
    rec = Recorder()
    out = template.render(translations=rec, **DATA)
    messages = list(extract_from_template(template))
    reported = {(m.funcname, tuple(m.message)) for m in messages}
    print("template :", repr(SOURCE))
    print("data     :", DATA)
    print("output   :", repr(out))
    print("runtime catalog lookups :", rec.calls)
    print("extracted messages      :", [(m.lineno, m.funcname, m.message) for m in messages])
    print("expected : every runtime lookup (family + message ids/context) is among the extracted messages")
    missing = [c for c in rec.calls if c not in reported]
    if missing:
        print("VIOLATION: lookups not reported by extraction:", missing)
        return 1
    print("ok")
    return 0


if __name__ == "__main__":
    sys.exit(main())
