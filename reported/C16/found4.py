"""A caching loader shared by a strict and a default environment.

`CachingLoaderMixin` (liquid2/builtin/loaders/mixins.py) keys its cache by template
name only and ignores the `env` argument. `RenderContext.copy`
(liquid2/context.py), used by `{% render %}`, builds the new context from
`template.env`. So once the strict environment has loaded the partial, a render
from the DEFAULT environment runs the partial under StrictUndefined and raises
UndefinedError for a merely missing variable.
"""

import sys

from liquid2 import CachingDictLoader
from liquid2 import Environment
from liquid2 import StrictUndefined
from liquid2.exceptions import UndefinedError

loader = CachingDictLoader({"partial": "[{{ nosuchthing }}]"})
strict_env = Environment(undefined=StrictUndefined, loader=loader)
default_env = Environment(loader=loader)  # default Undefined policy

source = "{% render 'partial' %}"

try:
    strict_env.from_string(source).render()
except UndefinedError:
    print("strict environment: UndefinedError (fine, the variable is missing)")

print("expected: default environment renders '[]' and never raises UndefinedError")
try:
    out = default_env.from_string(source).render()
except UndefinedError as err:
    print("observed: default environment raised UndefinedError:", str(err).splitlines()[0])
    print("RESULT: violation present")
    sys.exit(1)

print("observed:", repr(out))
print("RESULT:", "no violation" if out == "[]" else "violation present")
sys.exit(0 if out == "[]" else 1)
