"""An array containing a missing variable used as the argument to `append`.

`append` (liquid2/builtin/filters/string.py) converts a non-string argument with
`str(arg)`; for a list that is `repr()` of the items, which does not raise for
StrictUndefined and names the undefined class. The same happens for the `join`
separator and the `truncate`/`truncatewords` end string.
"""

from __future__ import annotations

import sys

from liquid2 import DictLoader
from liquid2 import Environment
from liquid2 import FalsyStrictUndefined
from liquid2 import StrictUndefined
from liquid2 import Undefined
from liquid2.exceptions import LiquidError
from liquid2.exceptions import UndefinedError

POLICIES = (Undefined, StrictUndefined, FalsyStrictUndefined)


def render(
    policy: type[Undefined],
    source: str,
    data: dict[str, object],
    partials: dict[str, str] | None = None,
) -> tuple[str, str]:
    """Render _source_ and return ("ok", output) or (kind-of-failure, message)."""
    env = Environment(undefined=policy, loader=DictLoader(partials or {}))
    try:
        return ("ok", env.from_string(source).render(**data))
    except UndefinedError as err:
        return ("UndefinedError", str(err).splitlines()[0])
    except LiquidError as err:
        return (type(err).__name__, str(err).splitlines()[0])


def compare(source: str, data: dict[str, object], expect_note: str) -> int:
    """Print the three outcomes and return 1 if the property is violated."""
    results = {p.__name__: render(p, source, data) for p in POLICIES}
    default = results["Undefined"]
    print("template:", source)
    print("data:    ", data)
    print("expected:", expect_note)
    for name, res in results.items():
        print(f"  {name:22} -> {res}")

    violated = False
    if default[0] == "UndefinedError":
        print("VIOLATION: the default policy raised UndefinedError")
        violated = True
    for name in ("StrictUndefined", "FalsyStrictUndefined"):
        res = results[name]
        if res[0] == "ok" and res != default:
            print(
                f"VIOLATION: {name} render succeeded with {res[1]!r} "
                f"but the default policy gives {default}"
            )
            violated = True
    print("RESULT:", "violation present" if violated else "no violation")
    return 1 if violated else 0


sys.exit(
    compare(
        "{% assign l = 1, x %}{{ 'a' | append: l }}",
        {},
        "a successful strict render equals the default render, or raises UndefinedError",
    )
)
