"""A path that starts a range expression, `(a..b)`, gets stop == -1."""
import sys
from liquid2 import Environment, tokenize

env = Environment()
source = "{{ (a..b) }}"
rng = tokenize(env, source)[0].expression[0]
tok = rng.range_start
print("source:", repr(source))
print("expected: range start token spans [4, 5) == 'a', inside the range token", (rng.start, rng.stop))
print("observed: ", type(tok).__name__, (tok.start, tok.stop))
spans = [(v.span.start, v.span.end) for v in env.from_string(source).analyze().variables["a"]]
print("analysis span for variable a (expected [(4, 5)]):", spans)
bad = not (rng.start <= tok.start < tok.stop <= rng.stop) or spans != [(4, 5)]
sys.exit(1 if bad else 0)
