"""A template string token's span leaves out the opening quote but includes the closing one."""
import sys
from liquid2 import Environment, tokenize

env = Environment()
source = "{{ 'x${y}z' }}"
tok = tokenize(env, source)[0].expression[0]
text = source[tok.start:tok.stop]
print("source:", repr(source))
print("expected: span text \"'x${y}z'\" (both quotes) or 'x${y}z' (neither, like plain string tokens)")
print(f"observed: {type(tok).__name__} [{tok.start},{tok.stop}) {text!r}")
sys.exit(1 if text not in ("'x${y}z'", "x${y}z") else 0)
