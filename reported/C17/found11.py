"""An error raised inside a child template's block is attributed to the base template:
the reported line does not exist in the named template."""
import sys
from liquid2 import Environment, DictLoader
from liquid2.exceptions import LiquidError

templates = {
    "base": "base line 1\n{% block a %}{% endblock %}",
    "child": "{% extends 'base' %}\n\n\n\n{% block a %}{{ 1 | divided_by: 0 }}{% endblock %}",
}
env = Environment(loader=DictLoader(templates))
try:
    env.get_template("child").render()
except LiquidError as err:
    line, col, *_ = err.context()
    owner = [n for n, s in templates.items() if s == err.token.source]
    named_lines = len(templates[err.template_name].splitlines())
    print(f"expected: template_name == 'child' (the token lives in {owner}) at 5:20")
    print(f"observed: template_name={err.template_name!r} line={line} col={col}; "
          f"{err.template_name!r} has only {named_lines} lines")
    sys.exit(1 if [err.template_name] != owner else 0)
print("no error raised")
sys.exit(1)
