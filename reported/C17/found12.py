"""RequiredBlockError names the template that declared `required` but carries the token of
the base template's block tag."""
import sys
from liquid2 import Environment, DictLoader
from liquid2.exceptions import LiquidError

templates = {
    "base": "base line 1\n{% block a %}{% endblock %}",
    "mid": "{% extends 'base' %}\n\n\n{% block a required %}{% endblock %}",
}
env = Environment(loader=DictLoader(templates))
try:
    env.get_template("mid").render()
except LiquidError as err:
    owner = [n for n, s in templates.items() if s == err.token.source]
    print("expected: template_name and token (line/col) refer to the same template")
    print(f"observed: {type(err).__name__} template_name={err.template_name!r} context={err.context()} "
          f"but the token belongs to {owner}")
    sys.exit(1 if [err.template_name] != owner else 0)
print("no error raised")
sys.exit(1)
