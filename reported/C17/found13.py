"""An error inside a macro defined in an included template is attributed to the calling template."""
import sys
from liquid2 import Environment, DictLoader
from liquid2.exceptions import LiquidError

templates = {
    "mac_def": "\n\n\n{% macro f %}{{ 1 | divided_by: 0 }}{% endmacro %}",
    "mac_use": "{% include 'mac_def' %}{% call f %}",
}
env = Environment(loader=DictLoader(templates))
try:
    env.get_template("mac_use").render()
except LiquidError as err:
    owner = [n for n, s in templates.items() if s == err.token.source]
    line, col, *_ = err.context()
    print(f"expected: template_name == {owner[0]!r} for a token at {line}:{col} of that template")
    print(f"observed: template_name={err.template_name!r} (which has "
          f"{len(templates[err.template_name].splitlines())} line(s))")
    sys.exit(1 if [err.template_name] != owner else 0)
print("no error raised")
sys.exit(1)
