"""`unexpected 'break'` is reported at the enclosing top-level node, not at the break tag."""
import sys
from liquid2 import Environment
from liquid2.exceptions import LiquidError

env = Environment()
source = "x\n\n{% if true %}\n\n  {% break %}{% endif %}"
try:
    env.from_string(source).render()
except LiquidError as err:
    tok = err.token
    want = source.index("{% break %}")
    print(f"{err.args[0]!r}: expected position {want} (line 5, the break tag); observed {tok.start} "
          f"{source[tok.start:tok.stop]!r} context={err.context()[:2]}")
    sys.exit(1 if tok.start != want else 0)
print("no error raised")
sys.exit(1)
