"""The index quoted in unescape() error messages is computed on the string after `\'` has been
collapsed, so it does not point at the offending escape sequence."""
import re, sys
from liquid2 import Environment
from liquid2.exceptions import LiquidError

env = Environment()
source = r"{{ '\'\'\'\u12' }}"
try:
    env.from_string(source)
except LiquidError as err:
    want = source.index("\\u")
    got = int(re.search(r"at index (\d+)", err.args[0]).group(1))
    print(f"source {source!r}: {err.args[0]!r}; expected index {want} ({source[want:want+2]!r}); "
          f"observed {got} ({source[got:got+2]!r})")
    sys.exit(1 if got != want else 0)
print("no error raised")
sys.exit(1)
