"""A duplicate block in a parent template is reported under the child's name."""
import sys
from liquid2 import Environment, DictLoader
from liquid2.exceptions import LiquidError

templates = {
    "base": "\n\n{% block a %}{% endblock %}\n{% block a %}{% endblock %}",
    "child": "{% extends 'base' %}",
}
env = Environment(loader=DictLoader(templates))
try:
    env.get_template("child").render()
except LiquidError as err:
    owner = [n for n, s in templates.items() if s == err.token.source]
    print(f"{err.args[0]!r}: expected template_name {owner[0]!r} for context {err.context()[:2]}; "
          f"observed template_name={err.template_name!r}")
    sys.exit(1 if [err.template_name] != owner else 0)
print("no error raised")
sys.exit(1)
