"""An unclosed bracketed segment `a[b` is accepted and yields a PathToken with stop == -1."""
import sys
from liquid2 import Environment, tokenize
from liquid2.exceptions import LiquidError

env = Environment()
bad = False
for source in ("{{ a[b }}", "{{ [a }}"):
    print("source:", repr(source))
    print("expected: a syntax error located inside the source, or tokens whose spans lie in the markup")
    try:
        markup = tokenize(env, source)[0]
    except LiquidError as err:
        print("observed: error", err.args[0], err.token and (err.token.start, err.token.stop))
        continue
    for tok in markup.expression:
        print("observed:", type(tok).__name__, tok.path, (tok.start, tok.stop))
        if not (markup.start <= tok.start < tok.stop <= markup.stop):
            bad = True
sys.exit(1 if bad else 0)
