"""A path left open in one markup leaks into the next: an expression token that
starts before (outside) its own markup token."""
import sys
from liquid2 import Environment, tokenize
from liquid2.exceptions import LiquidError

env = Environment()
source = "{{ a[b }}{{ c.d] }}"
print("source:", repr(source))
print("expected: a syntax error, or every expression token nested inside its markup token's span")
bad = False
try:
    for markup in tokenize(env, source):
        for tok in markup.expression:
            inside = markup.start <= tok.start < tok.stop <= markup.stop
            print(f"observed: markup [{markup.start},{markup.stop}) holds {type(tok).__name__} "
                  f"[{tok.start},{tok.stop}) {source[max(tok.start, 0):max(tok.stop, 0)]!r}"
                  f"{'' if inside else '   <-- outside its markup'}")
            bad = bad or not inside
except LiquidError as err:
    print("observed: error", err.args[0])
sys.exit(1 if bad else 0)
