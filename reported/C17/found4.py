"""With shorthand_indexes enabled, `a.1` gives a PathToken whose stop is -1 / excludes the index."""
import sys
from liquid2 import Environment

class Env(Environment):
    shorthand_indexes = True

env = Env()
bad = False
for source, want in (("{{ a.1 }}", (3, 6)), ("{{ a.b.1 }}", (3, 8)), ("{{ a.1.b }}", (3, 8))):
    tok = env.tokenize(source)[0].expression[0]
    print(f"source {source!r}: expected path span {want} {source[want[0]:want[1]]!r}; "
          f"observed {(tok.start, tok.stop)} {source[max(tok.start,0):max(tok.stop,0)]!r} path={tok.path}")
    bad = bad or (tok.start, tok.stop) != want
sys.exit(1 if bad else 0)
