"""Lexer.error() builds an ErrorToken with index=pos but value=source[start:pos], so the
token's stop (index + len(value)) can lie beyond the end of the source."""
import sys
from liquid2 import Environment
from liquid2.exceptions import LiquidError

env = Environment()
source = "{% comment %}a{% comment %}"
print("source:", repr(source), "length", len(source))
print("expected: error token with 0 <= start <= stop <= len(source) and value == source[start:stop]")
try:
    env.from_string(source)
except LiquidError as err:
    tok = err.token
    print(f"observed: {err.args[0]!r} token [{tok.start},{tok.stop}) value={tok.value!r} "
          f"source[start:stop]={source[tok.start:tok.stop]!r}")
    sys.exit(1 if not (0 <= tok.start <= tok.stop <= len(source)) else 0)
print("observed: no error")
sys.exit(1)
