"""Errors raised through Lexer.error() after next() point one character past the offender."""
import sys
from liquid2 import Environment
from liquid2.exceptions import LiquidError

env = Environment()
bad = False
for source, offender in (("{% liquid\n echo a &b\n%}", "&"), ("{% liquid\n ]x\n%}", "]")):
    want = source.index(offender)
    try:
        env.from_string(source)
        print("no error for", repr(source))
        bad = True
    except LiquidError as err:
        tok = err.token
        line, col, _p, current, _n = err.context()
        print(f"source {source!r}: {err.args[0]!r}; expected position {want} ({offender!r}); "
              f"observed {tok.start} ({source[tok.start]!r}), line {line} col {col} -> {current[col:col+1]!r}, "
              f"token value {tok.value!r}")
        bad = bad or tok.start != want
sys.exit(1 if bad else 0)
