"""A truncated path raises a syntax error that carries no token/position at all."""
import sys
from liquid2 import Environment
from liquid2.exceptions import LiquidError

env = Environment()
bad = False
for source in ("{{ a[1", "{{ a['b'", "x\n{{ a[-1"):
    try:
        env.from_string(source)
        print("no error for", repr(source)); bad = True
    except LiquidError as err:
        print(f"source {source!r}: {err.args[0]!r}; expected a token positioned inside the source; "
              f"observed token={err.token!r} context={err.context()!r}")
        bad = bad or err.token is None or not (0 <= err.token.start < len(source))
sys.exit(1 if bad else 0)
