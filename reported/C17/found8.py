"""Errors found at the end of an expression / end of the template carry the shared
TokenStream.eoi token: index -1 and source '' -> no line/column, position outside the source."""
import sys
from liquid2 import Environment
from liquid2.exceptions import LiquidError

env = Environment()
bad = False
for source in ("line 1\n{{ a | }}", "line 1\n{% if a %}x", "line 1\n{% assign x = %}", "{% for x in %}{% endfor %}"):
    try:
        env.from_string(source)
        print("no error for", repr(source)); bad = True
    except LiquidError as err:
        tok = err.token
        ok = tok is not None and tok.source == source and 0 <= tok.start < len(source)
        print(f"source {source!r}: {err.args[0]!r}; expected a position inside the source; observed "
              f"start={tok.start} stop={tok.stop} token.source={tok.source!r} context={err.context()!r}")
        bad = bad or not ok
sys.exit(1 if bad else 0)
