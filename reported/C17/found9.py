"""The last line statement of a `{% liquid %}` tag swallows the tag's closing delimiter."""
import sys
from liquid2 import Environment, tokenize

env = Environment()
bad = False
for source in ("{% liquid echo a %}", "{% liquid\n echo a\n assign b = 1 -%}"):
    lines = tokenize(env, source)[0]
    stmt = lines.statements[-1]
    text = source[stmt.start:stmt.stop]
    print(f"source {source!r}: expected the statement span to be its own text (no '%}}'); observed "
          f"[{stmt.start},{stmt.stop}) {text!r}; tag analysis span "
          f"{[(s.start, s.end) for s in env.from_string(source).analyze().tags[stmt.name]]}")
    bad = bad or text.endswith("%}")
sys.exit(1 if bad else 0)
