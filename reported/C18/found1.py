"""A "-" marker written directly after a variable name is lexed as part of the name.

Input:    {{ v-}}   (data: v="val")     versus the unmarked   {{ v}}
Expected: "val" both times; the marker may only change whitespace.
Observed: "" - the lexer's WORD rule ([...a-zA-Z0-9_-]*) swallows the "-", so the
          output statement looks up the undefined variable "v-".
"""
import sys

from liquid2 import Environment

env = Environment()
unmarked = env.from_string("[{{ v}}]").render(v="val")
marked = env.from_string("[{{ v-}}]").render(v="val")
print(f"expected: {unmarked!r} for both '[{{{{ v}}}}]' and '[{{{{ v-}}}}]'")
print(f"observed: '[{{{{ v}}}}]' -> {unmarked!r}, '[{{{{ v-}}}}]' -> {marked!r}")
sys.exit(0 if marked == unmarked == "[val]" else 1)
