"""Whitespace between `case` and the first `when` is dropped without any marker.

Input:    "a{% case 1 %}\n  {% when 1 %}x{% endcase %}b", default_trim="+", no markers,
          suppress_blank_control_flow_blocks off.
Expected: no trimming in force, so literal text is reproduced character for character:
          "a\n  xb".
Observed: "axb" - CaseTag.parse consumes the whitespace content token after `case`
          (kept only as `leading_whitespace` for serialisation) and never renders it.
          (Standard Liquid `case` semantics, listed for completeness.)
"""
import sys

from liquid2 import Environment


class NoSuppress(Environment):
    suppress_blank_control_flow_blocks = False


src = "a{% case 1 %}\n  {% when 1 %}x{% endcase %}b"
want = "a\n  xb"
got = NoSuppress().from_string(src).render()
print(f"expected {want!r}")
print(f"observed {got!r}")
sys.exit(0 if got == want else 1)
