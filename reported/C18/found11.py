"""Output of a custom tag is discarded when it is the only thing in a control-flow block.

Input:    a minimal custom tag `{% hello %}` whose node writes "Hello" (written exactly as
          docs/custom_tags.md describes: subclass Node, implement render_to_output),
          used as "{% if true %}{% hello %}{% endif %}".
Expected: "Hello" - blank block suppression removes only whitespace, never output.
Observed: "" - Node.__init__ defaults `blank` to True, so every node is treated as
          producing no output unless its author remembers to reset the flag; the
          enclosing BlockNode is then considered blank and rendered into a NullIO.
          With suppress_blank_control_flow_blocks = False the output is "Hello".
"""
import sys

from liquid2 import Environment
from liquid2 import Node
from liquid2 import Tag


class HelloNode(Node):
    def render_to_output(self, context, buffer):
        return buffer.write("Hello")


class HelloTag(Tag):
    block = False

    def parse(self, stream):
        return HelloNode(stream.current())


class NoSuppress(Environment):
    suppress_blank_control_flow_blocks = False


def render(env_class):
    env = env_class()
    env.tags["hello"] = HelloTag(env)
    return env.from_string("{% if true %}{% hello %}{% endif %}").render()


off = render(NoSuppress)
on = render(Environment)
print(f"expected 'Hello' (suppression off gives {off!r})")
print(f"observed {on!r} with suppression on")
sys.exit(0 if on == off == "Hello" else 1)
