"""A "-" marker written directly after a keyword in a tag turns it into a variable.

Input:    {% if true-%}yes{% endif %}    versus   {% if true%}yes{% endif %}
Expected: "yes" both times; the marker may only change whitespace.
Observed: "" - `true-` is lexed as a WORD (Lexer.accept_token / WORD rule), i.e. an
          undefined variable, so the block is not rendered. The same happens for
          `{% assign q = v-%}`, `{% echo v-%}` and `{% for i in arr-%}`.
"""
import sys

from liquid2 import Environment

env = Environment()
unmarked = env.from_string("{% if true%}yes{% endif %}").render()
marked = env.from_string("{% if true-%}yes{% endif %}").render()
print("expected: 'yes' for both '{% if true%}yes{% endif %}' and '{% if true-%}yes{% endif %}'")
print(f"observed: unmarked -> {unmarked!r}, marked -> {marked!r}")
sys.exit(0 if marked == unmarked == "yes" else 1)
