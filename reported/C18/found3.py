"""A "-" marker written directly after a dotted path is lexed as part of the property.

Input:    {{ a.b-}}   (data: a={"b": "AB"})   versus   {{ a.b}}
Expected: "AB" both times.
Observed: "" - Lexer.accept_path matches the property with RE_PROPERTY
          ([...a-zA-Z0-9_-]*), which swallows the "-" so `a["b-"]` is looked up.
"""
import sys

from liquid2 import Environment

env = Environment()
data = {"a": {"b": "AB"}}
unmarked = env.from_string("{{ a.b}}").render(**data)
marked = env.from_string("{{ a.b-}}").render(**data)
print("expected: 'AB' for both '{{ a.b}}' and '{{ a.b-}}'")
print(f"observed: unmarked -> {unmarked!r}, marked -> {marked!r}")
sys.exit(0 if marked == unmarked == "AB" else 1)
