"""A "-" marker written directly after a filter name makes the template fail.

Input:    {{ v | upcase-}}   (data: v="val")   versus   {{ v | upcase}}
Expected: "VAL" both times.
Observed: UnknownFilterError: unknown filter 'upcase-' (the WORD rule in
          Lexer.accept_token swallows the marker).
"""
import sys

from liquid2 import Environment

env = Environment()
unmarked = env.from_string("{{ v | upcase}}").render(v="val")
try:
    marked = env.from_string("{{ v | upcase-}}").render(v="val")
except Exception as err:  # noqa: BLE001
    marked = f"{type(err).__name__}: {str(err).splitlines()[0]}"
print("expected: 'VAL' for both '{{ v | upcase}}' and '{{ v | upcase-}}'")
print(f"observed: unmarked -> {unmarked!r}, marked -> {marked!r}")
sys.exit(0 if marked == unmarked == "VAL" else 1)
