"""An empty `case` block applies the wrong marker to the text after `endcase`.

Input A:  "a  {% case 1 -%}{% endcase %}  b"
Expected: "a    b" - `endcase` has no right marker, the text after it is untouched.
Observed: "a  b"   - the text after `endcase` is trimmed by the `-` on `case`.
Input B:  "a  {% case 1 %}{% endcase -%}  b"
Expected: "a  b",  observed "a    b" (the `-` on `endcase` is ignored).

CaseTag.parse only updates stream.trim_carry for `when`/`else` (or via parse_block);
with no `when` and no `else` the carry still holds the `case` tag's right marker when
Parser.parse reads it back after the tag.
"""
import sys

from liquid2 import Environment

env = Environment()
ok = True
for src, want in [
    ("a  {% case 1 -%}{% endcase %}  b", "a    b"),
    ("a  {% case 1 %}{% endcase -%}  b", "a  b"),
]:
    got = env.from_string(src).render()
    print(f"{src!r}: expected {want!r}, observed {got!r}")
    ok = ok and got == want
sys.exit(0 if ok else 1)
