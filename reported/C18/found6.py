"""Templates loaded from the file system do not reproduce "\r" / "\r\n" literally.

Input:    a file containing  "a\r\nb\rc {{ v }}\r\n"  loaded with FileSystemLoader,
          default_trim="+", no markers.
Expected: "a\r\nb\rc V\r\n" (no trimming in force: text reproduced character for
          character), which is what from_string() gives for the same source.
Observed: "a\nb\nc V\n" - FileSystemLoader.get_source opens the file in text mode with
          universal newlines, so "\r\n" and lone "\r" are rewritten to "\n".
          (PackageLoader uses read_text() and has the same behaviour.)
"""
import sys
import tempfile
from pathlib import Path

from liquid2 import Environment
from liquid2 import FileSystemLoader

source = "a\r\nb\rc {{ v }}\r\n"
with tempfile.TemporaryDirectory() as tmp:
    Path(tmp, "t.liquid").write_bytes(source.encode("utf-8"))
    env = Environment(loader=FileSystemLoader(tmp))
    got = env.get_template("t.liquid").render(v="V")

want = Environment().from_string(source).render(v="V")
print(f"expected {want!r}")
print(f"observed {got!r}")
sys.exit(0 if got == want == "a\r\nb\rc V\r\n" else 1)
