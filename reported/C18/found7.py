"""default_trim="-" removes whitespace in the middle of plain text before "{#".

Input:    "[ a {#fff} b ]"  with Environment(default_trim=WhitespaceControl.MINUS).
          "{#fff}" is not a comment (no closing "#}"), the whole source is literal text.
Expected: interior whitespace untouched: "[ a {#fff} b ]" (the default trim mode can
          only act next to markup / at the ends of the text).
Observed: "[ a{#fff} b ]" - the lexer's CONTENT rule stops at every "{#", producing two
          adjacent content tokens, and Content.parse/Parser give the first one
          right_trim=DEFAULT, so the space before "{#" is stripped.
"""
import sys

from liquid2 import Environment
from liquid2 import WhitespaceControl

source = "[ a {#fff} b ]"
got = Environment(default_trim=WhitespaceControl.MINUS).from_string(source).render()
print(f"expected {source!r}")
print(f"observed {got!r}")
sys.exit(0 if got == source else 1)
