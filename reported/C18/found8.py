"""The last newline of a template escapes a "-" / "~" marker when other whitespace precedes it.

Input:    "{{ v -}} \n"  and  "{{ v ~}}\r\n"   (default_trim="+")
Expected: "V" for both: "-" strips all whitespace after the output statement, "~"
          strips the "\r\n"; compare "{{ v -}}\n" -> "V".
Observed: "V\n" for both. The lexer's CONTENT rule uses "$" in a look-ahead, which also
          matches just before a final "\n", so the trailing text is split into two
          content tokens (" " and "\n"); only the first is adjacent to the marker, the
          second gets left_trim=default. Which whitespace a marker affects therefore
          depends on a lexing artefact rather than on adjacency.
"""
import sys

from liquid2 import Environment

env = Environment()
ok = True
for src in ["{{ v -}} \n", "{{ v ~}}\r\n"]:
    got = env.from_string(src).render(v="V")
    print(f"{src!r}: expected 'V', observed {got!r}")
    ok = ok and got == "V"
sys.exit(0 if ok else 1)
