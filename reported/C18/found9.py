"""Text inside `translate` is stripped and its whitespace collapsed without any marker.

Input:    "a  {% translate %}  Hello,\n   World  {% endtranslate %}  b", default_trim="+",
          no markers, no translations loaded.
Expected: no trimming in force, literal text reproduced character for character:
          "a    Hello,\n   World    b"
Observed: "a  Hello, World  b" - TranslateTag.validate_message_block normalises the
          message (trim_messages=True); markers inside the block are ignored too.
          (Documented behaviour of the tag, listed for completeness.)
"""
import sys

from liquid2 import Environment

src = "a  {% translate %}  Hello,\n   World  {% endtranslate %}  b"
want = "a    Hello,\n   World    b"
got = Environment().from_string(src).render()
print(f"expected {want!r}")
print(f"observed {got!r}")
sys.exit(0 if got == want else 1)
