"""PRE-EXISTING: the json filter emits `Infinity` / `NaN`, which are not JSON.

Input:    {{ x | json }} with x = float("inf") (or float("nan")), and {{ 1.0e999 | json }}
Expected: JSON text that a conforming JSON decoder accepts and that decodes to a
          value equal to the input (or an error saying the value is not serializable).
Observed: `Infinity` / `NaN` - not valid JSON (RFC 8259); strict decoders reject it,
          and NaN does not compare equal to its input.
"""

import json
import sys

from liquid2 import render


def strict_loads(text: str) -> object:
    def _reject(name: str) -> object:
        raise ValueError(f"{name!r} is not valid JSON")

    return json.loads(text, parse_constant=_reject)


bad = 0
for source, data in [
    ("{{ x | json }}", {"x": float("inf")}),
    ("{{ x | json }}", {"x": [1.5, float("-inf")]}),
    ("{{ x | json }}", {"x": {"a": float("nan")}}),
    ("{{ 1.0e999 | json }}", {}),
]:
    out = render(source, **data)
    try:
        decoded = strict_loads(out)
        ok = "x" not in data or decoded == data["x"]
        problem = "" if ok else f"decodes to {decoded!r}"
    except ValueError as err:
        ok = False
        problem = str(err)
    print(f"{source!r} data={data!r}\n    emitted {out!r}: {'ok' if ok else problem}")
    bad += not ok

if bad:
    print("VIOLATION: json filter emitted text that is not JSON")
    sys.exit(1)
