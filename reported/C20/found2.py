"""PRE-EXISTING: float literals too big (or too small) for a double lose their value.

Input:    {{ 1.0e999 }} and {% if 1.0e999 == 2.0e999 %}
Expected: each literal evaluates to the number written (or is rejected as out of
          range); two different numbers never compare equal.
Observed: 1.0e999 evaluates to `inf`, so 1.0e999 == 2.0e999 and `{{ 1.0e999 }}` renders
          "inf". (Likewise 1.0e-999 silently evaluates to 0.0.)
"""

import sys

from liquid2 import render

bad = 0

out = render("{{ 1.0e999 }}")
print(f"{{{{ 1.0e999 }}}} -> {out!r} (expected a rendering of 10**999, or an error)")
bad += out == "inf"

out = render("{% if 1.0e999 == 2.0e999 %}equal{% else %}different{% endif %}")
print(f"1.0e999 == 2.0e999 -> {out!r} (expected 'different')")
bad += out != "different"

out = render("{% if 1.0e-999 == 0.0 %}zero{% else %}nonzero{% endif %}")
print(f"1.0e-999 == 0.0 -> {out!r} (expected 'nonzero')")
bad += out != "nonzero"

if bad:
    print("VIOLATION: float literal does not evaluate to the number written")
    sys.exit(1)
