"""PRE-EXISTING: file based loaders rewrite CR / CRLF inside string literals to LF.

Input:    a template file containing  {{ 'a<CR>b' | json }}  loaded with FileSystemLoader
Expected: the string literal evaluates to "a\rb", exactly as written in the file (the
          same source passed to Environment.from_string() does evaluate to "a\rb").
Observed: "a\nb" - FileSystemLoader.get_source() opens the file in text mode with
          universal newlines, so a carriage return (a control character >= U+0008)
          written raw inside a string literal is changed before the lexer sees it.
          CachingFileSystemLoader and PackageLoader (Path.read_text) do the same.
"""

import pathlib
import sys
import tempfile

from liquid2 import Environment
from liquid2 import FileSystemLoader

source = "{{ 'a\rb' | json }} {{ 'c\r\nd' | json }}"
expected = '"a\\rb" "c\\r\\nd"'

with tempfile.TemporaryDirectory() as tmp:
    path = pathlib.Path(tmp) / "t.liquid"
    path.write_bytes(source.encode("utf-8"))
    env = Environment(loader=FileSystemLoader(tmp))
    from_file = env.get_template("t.liquid").render()
    from_string = env.from_string(source).render()

print(f"source       {source!r}")
print(f"expected     {expected!r}")
print(f"from_string  {from_string!r}")
print(f"from file    {from_file!r}")

if from_file != expected:
    print("VIOLATION: string literal loaded from a file does not denote what is written")
    sys.exit(1)
