"""PRE-EXISTING (auto_escape=True only): literal text of an interpolated template
string is HTML escaped on output, literal text of a plain string is not.

Input:    Environment(auto_escape=True):  {{ '<b>' }}  vs  {{ '<b>${x}' }} with x = ""
Expected: a string literal is trusted template text and is output exactly as written
          wherever it appears, so both render "<b>".
Observed: {{ '<b>' }} renders "<b>", but {{ '<b>${x}' }} renders "&lt;b&gt;" -
          TemplateString.evaluate() joins its parts into a plain `str`, discarding the
          Markup that StringLiteral.evaluate() returns for literal segments.
"""

import sys

from liquid2 import Environment

env = Environment(auto_escape=True)
plain = env.from_string("{{ '<b>' }}").render(x="")
interpolated = env.from_string("{{ '<b>${x}' }}").render(x="")
assigned = env.from_string("{% assign s = '<b>${x}' %}{{ s }}").render(x="")

print(f"{{{{ '<b>' }}}}      -> {plain!r}")
print(f"{{{{ '<b>${{x}}' }}}}  -> {interpolated!r} (expected {plain!r})")
print(f"assign, then output -> {assigned!r} (expected {plain!r})")

if interpolated != plain or assigned != plain:
    print("VIOLATION: template string literal text is not output as written")
    sys.exit(1)
