"""Pre-existing violation 1. The `map` filter fills in a private `_Null` placeholder
for missing properties; the placeholder equals nil but is truthy, is not removed by
`compact` and can't be serialized by `json`, so filter results do not compose.

Runs against the ORIGINAL library. Exits non-zero while the violation is present.
"""

import sys

from liquid2 import Environment

env = Environment()
bad = 0


def check(source, data, expected):
    global bad
    try:
        got = env.from_string(source).render(**data)
    except Exception as err:  # noqa: BLE001
        got = f"<{type(err).__name__}: {str(err).splitlines()[0]}>"
    status = "ok  " if got == expected else "FAIL"
    if got != expected:
        bad += 1
    print(f"{status} template: {source!r}\n     data:     {data!r}")
    print(f"     expected: {expected!r}\n     observed: {got!r}")


check("{{ items | map: 'price' | compact | size }}", {'items': [{'price': 1}, {'name': 'x'}]}, '1')
check("{% assign m = items | map: 'price' %}{% if m[1] == nil %}{% if m[1] %}truthy{% else %}falsy{% endif %}{% endif %}", {'items': [{'price': 1}, {'name': 'x'}]}, 'falsy')
check("{{ items | map: 'price' | json }}", {'items': [{'price': 1}, {'name': 'x'}]}, '[1, null]')

sys.exit(1 if bad else 0)
