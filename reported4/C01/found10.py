"""Pre-existing violation 10. `not` is given the highest precedence in the operator
table, and the docs say operators group 'just like in Python', but the parser gives
`not` everything to its right: `not a and b` is evaluated as `not (a and b)`.

Runs against the ORIGINAL library. Exits non-zero while the violation is present.
"""

import sys

from liquid2 import Environment

env = Environment()
bad = 0


def check(source, data, expected):
    global bad
    try:
        got = env.from_string(source).render(**data)
    except Exception as err:  # noqa: BLE001
        got = f"<{type(err).__name__}: {str(err).splitlines()[0]}>"
    status = "ok  " if got == expected else "FAIL"
    if got != expected:
        bad += 1
    print(f"{status} template: {source!r}\n     data:     {data!r}")
    print(f"     expected: {expected!r}\n     observed: {got!r}")


check('{% if not a and b %}T{% else %}F{% endif %}', {'a': False, 'b': False}, 'F')
check('{% if b and not a %}T{% else %}F{% endif %}', {'a': False, 'b': False}, 'F')
check('{% if (not a) and b %}T{% else %}F{% endif %}', {'a': False, 'b': False}, 'F')
check("{{ 'T' if not a and b else 'F' }}", {'a': False, 'b': False}, 'F')

sys.exit(1 if bad else 0)
