"""Pre-existing violation 2. A macro can't call another macro (or itself): macros are
stored on the calling context's tag namespace, and the `call` tag renders the macro
body with a copied context whose macro table is empty, so the inner `call` silently
renders nothing.

Runs against the ORIGINAL library. Exits non-zero while the violation is present.
"""

import sys

from liquid2 import Environment

env = Environment()
bad = 0


def check(source, data, expected):
    global bad
    try:
        got = env.from_string(source).render(**data)
    except Exception as err:  # noqa: BLE001
        got = f"<{type(err).__name__}: {str(err).splitlines()[0]}>"
    status = "ok  " if got == expected else "FAIL"
    if got != expected:
        bad += 1
    print(f"{status} template: {source!r}\n     data:     {data!r}")
    print(f"     expected: {expected!r}\n     observed: {got!r}")


check('{% macro star %}*{% endmacro %}{% macro row %}[{% call star %}{% call star %}]{% endmacro %}{% call row %}', {}, '[**]')
check('{% macro count n %}{{ n }}{% if n < 3 %}{% assign m = n | plus: 1 %},{% call count m %}{% endif %}{% endmacro %}{% call count 1 %}', {}, '1,2,3')

sys.exit(1 if bad else 0)
