"""Pre-existing violation 3. `append` stringifies a non-string argument with Python's
str() instead of the Liquid string form (`prepend` gets it right).

Runs against the ORIGINAL library. Exits non-zero while the violation is present.
"""

import sys

from liquid2 import Environment

env = Environment()
bad = 0


def check(source, data, expected):
    global bad
    try:
        got = env.from_string(source).render(**data)
    except Exception as err:  # noqa: BLE001
        got = f"<{type(err).__name__}: {str(err).splitlines()[0]}>"
    status = "ok  " if got == expected else "FAIL"
    if got != expected:
        bad += 1
    print(f"{status} template: {source!r}\n     data:     {data!r}")
    print(f"     expected: {expected!r}\n     observed: {got!r}")


check("{{ 'a' | append: true }}", {}, 'atrue')
check("{{ 'a' | append: x }}", {'x': None}, 'a')
check("{{ 'a' | append: x }}", {'x': [1, 2]}, 'a12')
check("{{ 'a' | prepend: true }}", {}, 'truea')

sys.exit(1 if bad else 0)
