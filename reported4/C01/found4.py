"""Pre-existing violation 4. `truncate` truncates a string that already fits (length ==
limit) and, when the limit is smaller than the ellipsis, returns MORE text than the
limit because of a negative slice index.

Runs against the ORIGINAL library. Exits non-zero while the violation is present.
"""

import sys

from liquid2 import Environment

env = Environment()
bad = 0


def check(source, data, expected):
    global bad
    try:
        got = env.from_string(source).render(**data)
    except Exception as err:  # noqa: BLE001
        got = f"<{type(err).__name__}: {str(err).splitlines()[0]}>"
    status = "ok  " if got == expected else "FAIL"
    if got != expected:
        bad += 1
    print(f"{status} template: {source!r}\n     data:     {data!r}")
    print(f"     expected: {expected!r}\n     observed: {got!r}")


check("{{ 'abcde' | truncate: 5 }}", {}, 'abcde')
check("{{ 'abcdefgh' | truncate: 2 }}", {}, '...')
check("{{ 'abcdefgh' | truncate: 0 }}", {}, '...')
check("{{ 'abcdefgh' | truncate: 5 }}", {}, 'ab...')

sys.exit(1 if bad else 0)
