"""Pre-existing violation 5. `remove_last` and `replace_last` do nothing when the last
(only) occurrence is at the very start of the string: an empty `before` from
str.rpartition is mistaken for 'not found'.

Runs against the ORIGINAL library. Exits non-zero while the violation is present.
"""

import sys

from liquid2 import Environment

env = Environment()
bad = 0


def check(source, data, expected):
    global bad
    try:
        got = env.from_string(source).render(**data)
    except Exception as err:  # noqa: BLE001
        got = f"<{type(err).__name__}: {str(err).splitlines()[0]}>"
    status = "ok  " if got == expected else "FAIL"
    if got != expected:
        bad += 1
    print(f"{status} template: {source!r}\n     data:     {data!r}")
    print(f"     expected: {expected!r}\n     observed: {got!r}")


check("{{ 'abc' | remove_last: 'a' }}", {}, 'bc')
check("{{ 'abc' | replace_last: 'a', 'x' }}", {}, 'xbc')
check("{{ 'abca' | remove_last: 'a' }}", {}, 'abc')
check("{{ 'abc' | remove_first: 'a' }}", {}, 'bc')

sys.exit(1 if bad else 0)
