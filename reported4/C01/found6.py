"""Pre-existing violation 6. Liquid says `1 == true` is false, but membership and
equality of arrays fall back to Python's `==`, where `1 == True`.

Runs against the ORIGINAL library. Exits non-zero while the violation is present.
"""

import sys

from liquid2 import Environment

env = Environment()
bad = 0


def check(source, data, expected):
    global bad
    try:
        got = env.from_string(source).render(**data)
    except Exception as err:  # noqa: BLE001
        got = f"<{type(err).__name__}: {str(err).splitlines()[0]}>"
    status = "ok  " if got == expected else "FAIL"
    if got != expected:
        bad += 1
    print(f"{status} template: {source!r}\n     data:     {data!r}")
    print(f"     expected: {expected!r}\n     observed: {got!r}")


check('{% if 1 == true %}T{% else %}F{% endif %}', {}, 'F')
check('{% if flags contains 1 %}T{% else %}F{% endif %}', {'flags': [True]}, 'F')
check('{% if nums contains true %}T{% else %}F{% endif %}', {'nums': [1]}, 'F')
check('{% if a == b %}T{% else %}F{% endif %}', {'a': [1], 'b': [True]}, 'F')
check("{{ xs | where: 'n', 1 | size }}", {'xs': [{'n': 1}, {'n': True}]}, '1')

sys.exit(1 if bad else 0)
