"""Pre-existing violation 7. `contains` with a string on the left converts the right
operand with Python's str(), not the Liquid string form: nil becomes 'None' and true
becomes 'True'.

Runs against the ORIGINAL library. Exits non-zero while the violation is present.
"""

import sys

from liquid2 import Environment

env = Environment()
bad = 0


def check(source, data, expected):
    global bad
    try:
        got = env.from_string(source).render(**data)
    except Exception as err:  # noqa: BLE001
        got = f"<{type(err).__name__}: {str(err).splitlines()[0]}>"
    status = "ok  " if got == expected else "FAIL"
    if got != expected:
        bad += 1
    print(f"{status} template: {source!r}\n     data:     {data!r}")
    print(f"     expected: {expected!r}\n     observed: {got!r}")


check("{% if 'true or false' contains true %}T{% else %}F{% endif %}", {}, 'T')
check("{% if 'True' contains true %}T{% else %}F{% endif %}", {}, 'F')
check("{% if 'None of them' contains x %}T{% else %}F{% endif %}", {'x': None}, 'F')

sys.exit(1 if bad else 0)
