"""Pre-existing violation 8. An empty (descending) range loses its bounds: it is
normalised to range(0) and printed as '0..-1' instead of its Liquid string form
'start..stop'.

Runs against the ORIGINAL library. Exits non-zero while the violation is present.
"""

import sys

from liquid2 import Environment

env = Environment()
bad = 0


def check(source, data, expected):
    global bad
    try:
        got = env.from_string(source).render(**data)
    except Exception as err:  # noqa: BLE001
        got = f"<{type(err).__name__}: {str(err).splitlines()[0]}>"
    status = "ok  " if got == expected else "FAIL"
    if got != expected:
        bad += 1
    print(f"{status} template: {source!r}\n     data:     {data!r}")
    print(f"     expected: {expected!r}\n     observed: {got!r}")


check('{{ (3..1) }}', {}, '3..1')
check('{% assign r = (a..b) %}{{ r }}', {'a': 5, 'b': 2}, '5..2')
check('{{ (1..3) }}', {}, '1..3')

sys.exit(1 if bad else 0)
