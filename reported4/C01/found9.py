"""Pre-existing violation 9. `sum` is documented to return the sum of all numeric
elements, and passes a default of 0 for anything else, but a non-numeric string
raises decimal.InvalidOperation (not the ValueError that is caught) and the render
fails.

Runs against the ORIGINAL library. Exits non-zero while the violation is present.
"""

import sys

from liquid2 import Environment

env = Environment()
bad = 0


def check(source, data, expected):
    global bad
    try:
        got = env.from_string(source).render(**data)
    except Exception as err:  # noqa: BLE001
        got = f"<{type(err).__name__}: {str(err).splitlines()[0]}>"
    status = "ok  " if got == expected else "FAIL"
    if got != expected:
        bad += 1
    print(f"{status} template: {source!r}\n     data:     {data!r}")
    print(f"     expected: {expected!r}\n     observed: {got!r}")


check('{{ xs | sum }}', {'xs': [1, '2', 'n/a', 3]}, '6')
check("{{ xs | sum: 'v' }}", {'xs': [{'v': 1}, {'v': 'x'}, {'v': 2}]}, '3')
check('{{ xs | sum }}', {'xs': [1, None, [2, 3]]}, '6')

sys.exit(1 if bad else 0)
