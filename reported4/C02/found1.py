"""Pre-existing violation 1: the `datetime` filter lets OSError escape.

Input:    `{{ 99999999999999999 | datetime }}` (an out of range Unix timestamp;
          the same happens when the number arrives as data or as a string of digits).
Expected: output or a LiquidError (the `date` filter returns such input unchanged).
Observed: OSError [Errno 75] "Value too large for defined data type", raised by
          babel.dates.format_datetime and not caught by
          liquid2/builtin/filters/babel.py::DateTime.__call__ nor by
          liquid2/builtin/expressions.py::Filter.evaluate (OSError is not in its list).
"""

import sys

from liquid2 import Environment
from liquid2.exceptions import LiquidError

env = Environment()
failures = 0

for source, data in [
    ("{{ 99999999999999999 | datetime }}", {}),
    ("{{ x | datetime }}", {"x": -99999999999999999}),
    ("{{ x | datetime: format: 'short' }}", {"x": "67768036191676800"}),
]:
    try:
        result = env.from_string(source).render(**data)
    except LiquidError as err:
        print(f"ok: {source!r}: {type(err).__name__}: {err.message}")
    except BaseException as err:  # noqa: BLE001
        failures += 1
        print(f"VIOLATION: {source!r}: expected output or a LiquidError")
        print(f"           observed {type(err).__name__}: {err}")
    else:
        print(f"ok: {source!r}: rendered {result!r}")

sys.exit(1 if failures else 0)
