"""Pre-existing violation 10: nested template strings overflow the lexer's recursion.

Input:    a 1.8 KB output statement, `{{ "${"${"${ ... ` (600 levels of string
          interpolation, never closed; a closed one behaves the same). This is
          expression nesting inside a single output statement, not block nesting.
Expected: LiquidSyntaxError (or a successful parse for the closed form).
Observed: RecursionError from liquid2/lexer.py::Lexer.accept_template_string <->
          Lexer.accept_token, which recurse once per level with no depth limit.
"""

import sys

from liquid2 import Environment
from liquid2.exceptions import LiquidError

env = Environment()
failures = 0

depth = 600
sources = {
    "unclosed": "{{ " + '"${' * depth,
    "closed": "{{ " + '"${' * depth + "x" + '}"' * depth + " }}",
}

for label, source in sources.items():
    try:
        env.from_string(source).render(x=1)
    except LiquidError as err:
        print(f"ok: {label}: {type(err).__name__}: {err.message}")
    except BaseException as err:  # noqa: BLE001
        failures += 1
        print(f"VIOLATION: {label} ({len(source)} chars): expected a LiquidError or output")
        print(f"           observed {type(err).__name__}: {err}")
    else:
        print(f"ok: {label}: rendered")

sys.exit(1 if failures else 0)
