"""Pre-existing violation 2: a caching loader's namespace key is stringified unguarded.

Input:    Environment(loader=CachingDictLoader({...}, namespace_key="site")), template
          `{% include 'a' %}` rendered with site = 10**5000 (a huge int in the data).
Expected: output or a LiquidError (everywhere else a huge int becomes LiquidValueError).
Observed: ValueError "Exceeds the limit (4300 digits) for integer string conversion"
          from liquid2/builtin/loaders/mixins.py::CachingLoaderMixin.cache_key
          (`f"{context.globals[self.namespace_key]}/{name}"`).
"""

import asyncio
import sys

from liquid2 import CachingDictLoader
from liquid2 import Environment
from liquid2.exceptions import LiquidError

env = Environment(
    loader=CachingDictLoader({"a": "partial {{ site }}"}, namespace_key="site")
)
failures = 0

probes = {
    "include": lambda: env.from_string("{% include 'a' %}").render(site=10**5000),
    "render": lambda: env.from_string("{% render 'a' %}").render(site=10**5000),
    "include (async)": lambda: asyncio.run(
        env.from_string("{% include 'a' %}").render_async(site=10**5000)
    ),
}

# A small namespace value is fine.
assert env.from_string("{% include 'a' %}").render(site=7) == "partial 7"

for label, probe in probes.items():
    try:
        probe()
    except LiquidError as err:
        print(f"ok: {label}: {type(err).__name__}")
    except BaseException as err:  # noqa: BLE001
        failures += 1
        print(f"VIOLATION: {label}: expected output or a LiquidError")
        print(f"           observed {type(err).__name__}: {str(err)[:90]}")
    else:
        print(f"ok: {label}: rendered")

sys.exit(1 if failures else 0)
