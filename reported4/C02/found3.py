"""Pre-existing violation 3: a self-rendering partial with modest block nesting hits
Python's recursion limit before the context depth limit.

Input:    DictLoader({"a": "{% if true %}" * 6 + "{% render 'a' %}" + "{% endif %}" * 6});
          render template "a" with the default Environment (context_depth_limit = 30,
          default interpreter recursion limit 1000). Only six nested blocks.
Expected: ContextDepthError ("maximum context depth reached, possible recursive
          render") - which is what nesting of 0..5 blocks gives.
Observed: RecursionError. Each level of `render` costs ~33 Python frames once six
          `if` blocks surround it (Node.render -> render_to_output -> BlockNode.render
          -> ...), so 30 levels do not fit in 1000 frames; the guard in
          liquid2/context.py::RenderContext.copy counts partials only. The async
          path fails from nesting 7, `include` from nesting 14, `for`/`with` blocks
          from nesting 6, `capture` from nesting 8.
"""

import asyncio
import sys

from liquid2 import DictLoader
from liquid2 import Environment
from liquid2.exceptions import LiquidError

failures = 0

for nesting, mode in [(5, "sync"), (6, "sync"), (7, "sync"), (7, "async")]:
    source = "{% if true %}" * nesting + "{% render 'a' %}" + "{% endif %}" * nesting
    env = Environment(loader=DictLoader({"a": source}))
    template = env.get_template("a")
    try:
        if mode == "sync":
            template.render()
        else:
            asyncio.run(template.render_async())
    except LiquidError as err:
        print(f"ok: nesting {nesting} ({mode}): {type(err).__name__}: {err.message}")
    except BaseException as err:  # noqa: BLE001
        failures += 1
        print(f"VIOLATION: nesting {nesting} ({mode}): expected ContextDepthError")
        print(f"           observed {type(err).__name__}: {err}")
    else:
        failures += 1
        print(f"VIOLATION: nesting {nesting} ({mode}): recursive render returned")

sys.exit(1 if failures else 0)
