"""Pre-existing violation 4: a partial that is not valid UTF-8 escapes as UnicodeDecodeError.

Input:    FileSystemLoader search path holding `bad.liquid` with bytes ff fe; the
          template `{% include 'bad.liquid' %}` (same for `render`, `extends` and
          `Environment.get_template`).
Expected: a LiquidError (the loader turns every other read failure into
          TemplateNotFoundError).
Observed: UnicodeDecodeError from
          liquid2/builtin/loaders/file_system_loader.py::FileSystemLoader._read, which
          only catches OSError. PackageLoader._read has the same hole.
"""

import asyncio
import shutil
import sys
import tempfile
from pathlib import Path

from liquid2 import Environment
from liquid2 import FileSystemLoader
from liquid2.exceptions import LiquidError

root = Path(tempfile.mkdtemp(prefix="liquid2-found3-"))
failures = 0

try:
    (root / "bad.liquid").write_bytes(b"\xff\xfe not utf-8 {{ x }}")
    env = Environment(loader=FileSystemLoader(root))

    probes = {
        "include": lambda: env.from_string("{% include 'bad.liquid' %}").render(),
        "render": lambda: env.from_string("{% render 'bad.liquid' %}").render(),
        "extends": lambda: env.from_string("{% extends 'bad.liquid' %}").render(),
        "include (async)": lambda: asyncio.run(
            env.from_string("{% include 'bad.liquid' %}").render_async()
        ),
    }

    for label, probe in probes.items():
        try:
            probe()
        except LiquidError as err:
            print(f"ok: {label}: {type(err).__name__}")
        except BaseException as err:  # noqa: BLE001
            failures += 1
            print(f"VIOLATION: {label}: expected a LiquidError")
            print(f"           observed {type(err).__name__}: {err}")
        else:
            print(f"ok: {label}: rendered")
finally:
    shutil.rmtree(root, ignore_errors=True)

sys.exit(1 if failures else 0)
