r"""Pre-existing violation 5: a lone surrogate inside a \uXXXX escape escapes as UnicodeEncodeError.

Input:    source text `{{ "\u00<U+D800>a" }}` - the four characters after `\u` include a
          lone surrogate code point (a valid Python str, e.g. from json.loads or
          surrogateescape decoding). Same in a quoted path segment `a["\u<U+D800>000"]`.
Expected: LiquidSyntaxError ("invalid \uXXXX escape sequence"), like any other
          non-hex character in that position.
Observed: UnicodeEncodeError from liquid2/unescape.py::_parse_hex_digits, which calls
          `digits.encode()`.
"""

import sys

from liquid2 import Environment
from liquid2.exceptions import LiquidError

env = Environment()
failures = 0

for source in [
    '{{ "\\u00\ud800a" }}',
    "{{ '\\u\udfff000' }}",
    '{{ a["\\u\ud800000"] }}',
    # Control: any other non-hex character is a syntax error.
    '{{ "\\u00\u00e9a" }}',
]:
    try:
        env.from_string(source).render(a={})
    except LiquidError as err:
        print(f"ok: {ascii(source)}: {type(err).__name__}: {err.message}")
    except BaseException as err:  # noqa: BLE001
        failures += 1
        print(f"VIOLATION: {ascii(source)}: expected a LiquidSyntaxError")
        print(f"           observed {type(err).__name__}: {err}")
    else:
        print(f"ok: {ascii(source)}: rendered")

sys.exit(1 if failures else 0)
