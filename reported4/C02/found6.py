"""Pre-existing violation 6: deeply nested data escapes as RecursionError.

Input:    `{{ x }}` rendered with x = a list nested 3000 levels deep.
Expected: the rendered text, or an exception derived from LiquidError.
Observed: RecursionError from liquid2/stringify.py::to_liquid_string.
"""

import sys

from liquid2 import Environment
from liquid2.exceptions import LiquidError

deep: list[object] = []
for _ in range(3000):
    deep = [deep]

template = Environment().from_string("{{ x }}")

try:
    result = template.render(x=deep)
except LiquidError as err:
    print(f"expected behaviour: LiquidError ({type(err).__name__}: {err.message})")
    sys.exit(0)
except BaseException as err:  # noqa: BLE001
    print("expected: output or a LiquidError")
    print(f"observed: {type(err).__name__}: {err}")
    sys.exit(1)

print(f"expected behaviour: rendered {len(result)} characters")
sys.exit(0)
