"""Pre-existing violation 7: `reversed` materialises the whole range before the loop limit.

Input:    Environment with loop_iteration_limit = 1000 and the 50 character template
          `{% for i in (1..4000000) reversed %}x{% endfor %}`.
Expected: LoopIterationLimitError in time bounded by the input size and the
          configured limit - as it is without `reversed`, which raises at once.
Observed: liquid2/builtin/expressions.py::LoopExpression._slice runs
          `reversed(list(it))` over all 4,000,000 items (hundreds of megabytes, time
          proportional to the range) before RenderContext.loop() checks the limit.
          `(1..3000000000) reversed` takes minutes / exhausts memory the same way.
          `tablerow ... reversed` shares the code.
"""

import sys
import time

from liquid2 import Environment
from liquid2.exceptions import LoopIterationLimitError


class LimitedEnvironment(Environment):
    loop_iteration_limit = 1000


env = LimitedEnvironment()


def timed(source: str) -> float:
    template = env.from_string(source)
    start = time.perf_counter()
    try:
        template.render()
    except LoopIterationLimitError:
        pass
    else:
        raise AssertionError("expected a LoopIterationLimitError")
    return time.perf_counter() - start


forward = min(timed("{% for i in (1..4000000) %}x{% endfor %}") for _ in range(3))
backward = min(
    timed("{% for i in (1..4000000) reversed %}x{% endfor %}") for _ in range(2)
)

print(f"limit error without `reversed`: {forward * 1000:.3f} ms")
print(f"limit error with `reversed`:    {backward * 1000:.3f} ms")

if backward > 0.05 and backward > forward * 100:
    print("VIOLATION: time to refuse the loop grows with the range, not with the limit")
    sys.exit(1)

print("ok: both refusals are immediate")
sys.exit(0)
