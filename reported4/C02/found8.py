"""Pre-existing violation 8: `offset:` is applied by stepping through the range one item at a time.

Input:    Environment with loop_iteration_limit = 1000 and
          `{% for i in (1..20000001) limit: 1 offset: 20000000 %}{{ i }}{% endfor %}`.
          The loop has ONE iteration, so the loop limit is (rightly) not reached.
Expected: "20000001" in time bounded by the input size and the configured limits.
Observed: liquid2/builtin/expressions.py::LoopExpression._slice does
          `islice(it, offset, stop)` on a plain iterator, so the render steps over
          20,000,000 items first. Run time is proportional to the offset VALUE:
          `(1..1000000000000) limit: 1 offset: 999999999999` (a 70 character template)
          would not return for hours, and no configured limit stops it.
          `tablerow` shares the code.
"""

import sys
import time

from liquid2 import Environment


class LimitedEnvironment(Environment):
    loop_iteration_limit = 1000
    output_stream_limit = 10000
    local_namespace_limit = 100000


env = LimitedEnvironment()


def timed(source: str, expect: str) -> float:
    template = env.from_string(source)
    start = time.perf_counter()
    result = template.render()
    elapsed = time.perf_counter() - start
    assert result == expect, result
    return elapsed


small = min(
    timed("{% for i in (1..21) limit: 1 offset: 20 %}{{ i }}{% endfor %}", "21")
    for _ in range(3)
)
large = min(
    timed(
        "{% for i in (1..20000001) limit: 1 offset: 20000000 %}{{ i }}{% endfor %}",
        "20000001",
    )
    for _ in range(2)
)

print(f"one iteration at offset 20:       {small * 1000:.3f} ms")
print(f"one iteration at offset 20000000: {large * 1000:.3f} ms")

if large > 0.05 and large > small * 100:
    print("VIOLATION: a one-iteration loop takes time proportional to the offset value")
    sys.exit(1)

print("ok: both loops are immediate")
sys.exit(0)
