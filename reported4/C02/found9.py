"""Pre-existing violation 9: filters materialise range literals that no limit covers.

Input:    Environment with every resource limit configured (loop_iteration_limit = 1000,
          output_stream_limit = 10000, local_namespace_limit = 100000) and the 36
          character template `{{ (1..3000000) | reverse | first }}`.
Expected: output or a ResourceLimitError in time bounded by the input size and the
          configured limits (a `for` loop over the same range is refused at once).
Observed: liquid2/filter.py::sequence_arg -> _flatten builds a 3,000,000 item list,
          `reverse` builds another; run time and memory are proportional to the range
          bound. `(1..3000000000)` exhausts memory, and `{% assign x = (1..30000000) |
          join: "," %}` ran for 53 s here before the namespace limit was checked.
"""

import sys
import time

from liquid2 import Environment
from liquid2.exceptions import LoopIterationLimitError


class LimitedEnvironment(Environment):
    loop_iteration_limit = 1000
    output_stream_limit = 10000
    local_namespace_limit = 100000


env = LimitedEnvironment()


def timed(source: str, expect: str) -> float:
    template = env.from_string(source)
    start = time.perf_counter()
    result = template.render()
    elapsed = time.perf_counter() - start
    assert result == expect, result
    return elapsed


# The loop limit does refuse the range when it is looped over.
try:
    env.from_string("{% for i in (1..3000000) %}{% endfor %}").render()
except LoopIterationLimitError:
    print("for loop over (1..3000000): refused by loop_iteration_limit")

small = min(timed("{{ (1..3) | reverse | first }}", "3") for _ in range(3))
large = min(timed("{{ (1..3000000) | reverse | first }}", "3000000") for _ in range(2))

print(f"(1..3) | reverse | first:       {small * 1000:.3f} ms")
print(f"(1..3000000) | reverse | first: {large * 1000:.3f} ms")

if large > 0.05 and large > small * 100:
    print("VIOLATION: time grows with the range bound; no configured limit applies")
    sys.exit(1)

print("ok: both renders are immediate")
sys.exit(0)
