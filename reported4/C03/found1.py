"""Deeply nested (or recursive) templates hit Python's recursion limit in render()
before they do in render_async(): the sync BlockNode renders its children through a
generator expression (one extra interpreter frame per block level), the async one
through a list comprehension.

Input A: a partial that renders itself from inside 6 nested `if` blocks.
Input B: 220 nested `if` blocks around some text.
Expected: render() and render_async() give the same output or the same error class.
"""

import asyncio
import sys

from liquid2 import DictLoader
from liquid2 import Environment


def outcome(fn):
    try:
        return ("output", fn())
    except BaseException as err:  # noqa: BLE001
        return ("error", type(err).__name__)


violations = 0

# A
env = Environment(
    loader=DictLoader(
        {"tree": "{% if true %}" * 6 + "{% render 'tree' %}" + "{% endif %}" * 6}
    )
)
template = env.from_string("{% render 'tree' %}")
sync_result = outcome(template.render)
async_result = outcome(lambda: asyncio.run(template.render_async()))
print("A (recursive partial inside 6 nested ifs)")
print("   expected: the same outcome from render() and render_async()")
print("   sync :", sync_result)
print("   async:", async_result)
violations += sync_result != async_result

# B
n = 220
template = Environment().from_string("{% if true %}" * n + "x" + "{% endif %}" * n)
sync_result = outcome(template.render)
async_result = outcome(lambda: asyncio.run(template.render_async()))
print(f"B ({n} nested ifs)")
print("   expected: the same outcome from render() and render_async()")
print("   sync :", sync_result)
print("   async:", async_result)
violations += sync_result != async_result

print("VIOLATION" if violations else "ok")
sys.exit(1 if violations else 0)
