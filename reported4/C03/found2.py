"""An arrow function argument of a filter is evaluated with the synchronous
`Expression.evaluate()` even when the template is rendered with render_async()
(`LambdaExpression.map` in liquid2/builtin/expressions.py). A lazily awaited drop
reached from inside the arrow function is read with `__getitem__`, not with
`__getitem_async__` as docs/variables_and_drops.md promises.

The drop below implements `__getitem__` by running its async getter to completion,
which is fine for render() (no event loop running) and impossible inside a running
loop.

Input: `{{ items | map: i => i.title | join: ',' }}` with lazily awaited drops.
Expected: render_async() gives the same output as render(): 'a,b'.
"""

import asyncio
import sys

from liquid2 import Environment


class LazyDrop:
    def __init__(self, data):
        self.data = data

    async def __getitem_async__(self, key):
        await asyncio.sleep(0)  # stands for async IO
        return self.data[key]

    def __getitem__(self, key):
        coro = self.__getitem_async__(key)
        try:
            return asyncio.run(coro)
        finally:
            coro.close()


def data():
    return {"items": [LazyDrop({"title": "a"}), LazyDrop({"title": "b"})]}


def outcome(fn):
    try:
        return ("output", fn())
    except Exception as err:  # noqa: BLE001
        return ("error", type(err).__name__, str(err))


env = Environment()

# The same path outside an arrow function is fine in both modes.
control = env.from_string("{% for i in items %}{{ i.title }},{% endfor %}")
assert control.render(**data()) == asyncio.run(control.render_async(**data())) == "a,b,"

template = env.from_string("{{ items | map: i => i.title | join: ',' }}")
sync_result = outcome(lambda: template.render(**data()))
async_result = outcome(lambda: asyncio.run(template.render_async(**data())))

print("expected: ('output', 'a,b') from both render() and render_async()")
print("sync :", sync_result)
print("async:", async_result)

bad = sync_result != async_result
print("VIOLATION" if bad else "ok")
sys.exit(1 if bad else 0)
