"""`{{ block.super }}` renders the parent block with the synchronous
`BlockNode.render()` even inside render_async() (`BlockDrop.__getitem__` in
liquid2/builtin/tags/extends_tag.py). Everything in the parent block - lazily awaited
drops, `{% render %}`/`{% include %}` of further partials - goes through the sync
code path: `__getitem__` instead of `__getitem_async__`, `loader.get_source()`
instead of `loader.get_source_async()`.

Input: base "{% block b %}{{ lazy.a }}{% endblock %}",
       child "{% extends 'base' %}{% block b %}[{{ block.super }}]{% endblock %}"
Expected: render_async() gives the same output as render(): '[7]'.
"""

import asyncio
import sys

from liquid2 import DictLoader
from liquid2 import Environment


class LazyDrop:
    def __init__(self, data):
        self.data = data

    async def __getitem_async__(self, key):
        await asyncio.sleep(0)  # stands for async IO
        return self.data[key]

    def __getitem__(self, key):
        # Fine when no event loop is running, as in render().
        coro = self.__getitem_async__(key)
        try:
            return asyncio.run(coro)
        finally:
            coro.close()


def outcome(fn):
    try:
        return ("output", fn())
    except Exception as err:  # noqa: BLE001
        return ("error", type(err).__name__, str(err))


env = Environment(
    loader=DictLoader({"base": "{% block b %}{{ lazy.a }}{% endblock %}"})
)

# Without block.super the parent block renders the same in both modes.
control = env.from_string("{% extends 'base' %}")
assert (
    control.render(lazy=LazyDrop({"a": 7}))
    == asyncio.run(control.render_async(lazy=LazyDrop({"a": 7})))
    == "7"
)

template = env.from_string(
    "{% extends 'base' %}{% block b %}[{{ block.super }}]{% endblock %}"
)
sync_result = outcome(lambda: template.render(lazy=LazyDrop({"a": 7})))
async_result = outcome(
    lambda: asyncio.run(template.render_async(lazy=LazyDrop({"a": 7})))
)

print("expected: ('output', '[7]') from both render() and render_async()")
print("sync :", sync_result)
print("async:", async_result)

bad = sync_result != async_result
print("VIOLATION" if bad else "ok")
sys.exit(1 if bad else 0)
