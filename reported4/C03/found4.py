"""`.first` / `.last` on a lazily awaited sequence drop: when the drop has no item
called "first", `RenderContext.get_item_async()` (liquid2/context.py) falls back to
`obj[0]` / `obj[-1]`, which is the synchronous `__getitem__`, not
`await obj.__getitem_async__(0)`. (`{{ rows[0] }}` in the same render does use
`__getitem_async__`.)

Input: `{{ rows.first }}-{{ rows.last }}` where `rows` is a Sequence drop with
       `__getitem_async__`.
Expected: render_async() gives the same output as render(): 'a-c'.
"""

import asyncio
import sys
from collections.abc import Sequence

from liquid2 import Environment


class LazyRows(Sequence):
    def __init__(self, rows):
        self.rows = rows

    def __len__(self):
        return len(self.rows)

    async def __getitem_async__(self, index):
        await asyncio.sleep(0)  # stands for async IO
        return self.rows[index]

    def __getitem__(self, index):
        # Fine when no event loop is running, as in render().
        coro = self.__getitem_async__(index)
        try:
            return asyncio.run(coro)
        finally:
            coro.close()


def outcome(fn):
    try:
        return ("output", fn())
    except Exception as err:  # noqa: BLE001
        return ("error", type(err).__name__, str(err))


env = Environment()

control = env.from_string("{{ rows[0] }}-{{ rows[-1] }}-{{ rows.size }}")
assert (
    control.render(rows=LazyRows(["a", "b", "c"]))
    == asyncio.run(control.render_async(rows=LazyRows(["a", "b", "c"])))
    == "a-c-3"
)

template = env.from_string("{{ rows.first }}-{{ rows.last }}")
sync_result = outcome(lambda: template.render(rows=LazyRows(["a", "b", "c"])))
async_result = outcome(
    lambda: asyncio.run(template.render_async(rows=LazyRows(["a", "b", "c"])))
)

print("expected: ('output', 'a-c') from both render() and render_async()")
print("sync :", sync_result)
print("async:", async_result)

bad = sync_result != async_result
print("VIOLATION" if bad else "ok")
sys.exit(1 if bad else 0)
