"""A template loaded with get_template_async() from a FileSystemLoader is not the
same thing as the one loaded with get_template(): its `uptodate` callable is a
coroutine function (`FileSystemLoader.get_source_async` in
liquid2/builtin/loaders/file_system_loader.py), so the public, synchronous
`Template.is_up_to_date()` reports it as stale although the file has not changed
(and leaves a never-awaited coroutine behind). With a caching loader, every later
synchronous load of that name (`get_template()`, or a `{% render %}` / `{% include %}`
reached from `render()`) re-reads and re-parses the file instead of using the cache.

Expected: the template yielded by get_template_async() behaves like the one yielded
by get_template(): is_up_to_date() is True for an unchanged file, and a second
synchronous get_template() returns the cached object.
"""

import asyncio
import pathlib
import sys
import tempfile
import warnings

from liquid2 import CachingFileSystemLoader
from liquid2 import Environment

warnings.simplefilter("ignore", RuntimeWarning)

root = pathlib.Path(tempfile.mkdtemp())
(root / "page.html").write_text("Hello")

env_sync = Environment(loader=CachingFileSystemLoader(root))
t_sync = env_sync.get_template("page.html")
sync_fresh = t_sync.is_up_to_date()
sync_cached = env_sync.get_template("page.html") is t_sync

env_async = Environment(loader=CachingFileSystemLoader(root))
t_async = asyncio.run(env_async.get_template_async("page.html"))
async_fresh = t_async.is_up_to_date()
async_cached = env_async.get_template("page.html") is t_async

print("expected: is_up_to_date() True and cache hit True for both")
print(f"loaded with get_template()      : is_up_to_date()={sync_fresh} cache hit={sync_cached}")
print(f"loaded with get_template_async(): is_up_to_date()={async_fresh} cache hit={async_cached}")

bad = (sync_fresh, sync_cached) != (async_fresh, async_cached)
print("VIOLATION" if bad else "ok")
sys.exit(1 if bad else 0)
