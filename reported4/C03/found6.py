"""Filters that take a property name (`map`, `where`, `sort`, `sum`, `find`, ...)
read that property with the synchronous `__getitem__` even in render_async()
(`_getitem` helpers in liquid2/builtin/filters/*.py, called from
`Filter.evaluate_async` in liquid2/builtin/expressions.py, which never awaits
anything on behalf of a filter). docs/variables_and_drops.md says a drop's
`__getitem_async__` "will be awaited instead of calling `__getitem__()`" in a
render_async() context.

Input: `{{ items | map: 'title' | join: ',' }}` / `{{ items | sum: 'n' }}` with
       lazily awaited drops.
Expected: render_async() gives the same output as render(): 'a,b 3'.
"""

import asyncio
import sys

from liquid2 import Environment


class LazyDrop:
    def __init__(self, data):
        self.data = data

    async def __getitem_async__(self, key):
        await asyncio.sleep(0)  # stands for async IO
        return self.data[key]

    def __getitem__(self, key):
        # Fine when no event loop is running, as in render().
        coro = self.__getitem_async__(key)
        try:
            return asyncio.run(coro)
        finally:
            coro.close()


def data():
    return {
        "items": [LazyDrop({"title": "a", "n": 1}), LazyDrop({"title": "b", "n": 2})]
    }


def outcome(fn):
    try:
        return ("output", fn())
    except Exception as err:  # noqa: BLE001
        return ("error", type(err).__name__, str(err))


template = Environment().from_string(
    "{{ items | map: 'title' | join: ',' }} {{ items | sum: 'n' }}"
)
sync_result = outcome(lambda: template.render(**data()))
async_result = outcome(lambda: asyncio.run(template.render_async(**data())))

print("expected: ('output', 'a,b 3') from both render() and render_async()")
print("sync :", sync_result)
print("async:", async_result)

bad = sync_result != async_result
print("VIOLATION" if bad else "ok")
sys.exit(1 if bad else 0)
