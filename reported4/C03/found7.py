"""A StopIteration escaping from template data (here a drop that hands out the next
value of an iterator) comes out of render() as StopIteration but out of
render_async() as RuntimeError("coroutine raised StopIteration"): the error class
depends on the mode. (Inside a block tag the sync side turns it into a RuntimeError
too, because BlockNode renders through a generator expression.)

Input: `{{ seq.next }}{{ seq.next }}` at the top level of a template, where the
       second `seq.next` raises StopIteration.
Expected: the same error class from render() and render_async().
"""

import asyncio
import sys

from liquid2 import Environment


class Seq:
    def __init__(self, items):
        self.it = iter(items)

    def __getitem__(self, key):
        if key == "next":
            return next(self.it)
        raise KeyError(key)


def outcome(fn):
    try:
        return ("output", fn())
    except BaseException as err:  # noqa: BLE001
        return ("error", type(err).__name__)


template = Environment().from_string("{{ seq.next }}{{ seq.next }}")
sync_result = outcome(lambda: template.render(seq=Seq([1])))
async_result = outcome(lambda: asyncio.run(template.render_async(seq=Seq([1]))))

print("expected: the same error class from render() and render_async()")
print("sync :", sync_result)
print("async:", async_result)

bad = sync_result != async_result
print("VIOLATION" if bad else "ok")
sys.exit(1 if bad else 0)
