"""Minor: same error class and position, different message. With auto_escape on, a
string literal given as a `for` loop `offset` is reported as 'str' by render() and as
'Markup' by render_async(): `LoopExpression.evaluate()` takes the literal's `value`,
`LoopExpression.evaluate_async()` calls `StringLiteral.evaluate()`, which wraps it in
Markup (liquid2/builtin/expressions.py).

Input: `{% for i in arr offset: 'a' %}{% endfor %}` with Environment(auto_escape=True)
Expected: identical errors from render() and render_async().
"""

import asyncio
import sys

from liquid2 import Environment
from liquid2.exceptions import LiquidError


def outcome(fn):
    try:
        return ("output", fn())
    except LiquidError as err:
        return ("error", type(err).__name__, err.token.start, str(err.message))


template = Environment(auto_escape=True).from_string(
    "{% for i in arr offset: 'a' %}{{ i }}{% endfor %}"
)
sync_result = outcome(lambda: template.render(arr=[1, 2]))
async_result = outcome(lambda: asyncio.run(template.render_async(arr=[1, 2])))

print("expected: identical error (class, position, message) from both")
print("sync :", sync_result)
print("async:", async_result)

bad = sync_result != async_result
print("VIOLATION (message only)" if bad else "ok")
sys.exit(1 if bad else 0)
