"""BORDERLINE pre-existing behaviour: a bare `&` derived from untrusted data.

A captured block is stored as Markup holding the *escaped* text. String filters then
operate on that escaped representation and can cut an entity in half, so untrusted
`<` (escaped to `&lt;`) ends up in the output as a bare, unescaped `&`.

No raw < > ' " can be produced this way; only `&`.
"""

import re
import sys

from liquid2 import Environment

ENTITY = re.compile(r"&(amp|lt|gt|#39|#34|quot);", re.IGNORECASE)

env = Environment(auto_escape=True)
cases = [
    "{% capture c %}{{ d }}{% endcapture %}{{ c | slice: 0 }}",
    "{% capture c %}{{ d }}{% endcapture %}{{ c | remove: 'lt;' }}",
    "{% capture c %}{{ d }}{% endcapture %}{{ c | split: 'lt' | first }}",
]

status = 0
for source in cases:
    out = env.from_string(source).render(d="<")
    leftover = ENTITY.sub("", out)
    print(f"template: {source}")
    print("  expected: every & in the output is part of an entity (e.g. '&lt;')")
    print(f"  observed: {out!r}")
    if "&" in leftover:
        print("  -> bare '&' originating from untrusted '<'")
        status = 1

sys.exit(status)
