"""The `default` filter reads the Python attribute `force_liquid_default` of
whatever object it is given. The attribute is not part of the documented drop
protocol, and its value decides what is rendered."""

import sys

from liquid2 import Environment


class Product:
    """A plain, truthy, non-empty object."""

    reads: list[str] = []

    def __init__(self, flag: bool) -> None:
        self.force_liquid_default = flag

    def __getattribute__(self, name: str):
        if not name.startswith("__"):
            Product.reads.append(name)
        return object.__getattribute__(self, name)

    def __str__(self) -> str:
        return "product"


env = Environment()
template = env.from_string("{{ product | default: 'fallback' }}")
out_false = template.render(product=Product(False))
out_true = template.render(product=Product(True))

print("template: {{ product | default: 'fallback' }}")
print("expected: 'product' both times, no Python attribute of the object is read")
print(f"observed: {out_false!r} (attribute False) / {out_true!r} (attribute True)")
print(f"python attributes read: {sorted(set(Product.reads))!r}")

if Product.reads or out_false != out_true:
    print("VIOLATION: liquid2/builtin/filters/misc.py default() reads obj.force_liquid_default")
    sys.exit(1)
