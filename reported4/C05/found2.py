"""The `datetime` filter forwards its `format` keyword argument to Babel without
checking it is a string. Babel then calls `.replace()` on it, so a Python method
of a context object is called and what it returns is rendered."""

import sys

from liquid2 import Environment

SECRET = "S3CR3T"


class Pattern:
    calls: list[str] = []

    def __init__(self) -> None:
        self.secret = SECRET  # only ever held in a Python attribute

    def replace(self, old: str, new: str) -> str:
        Pattern.calls.append("replace")
        return f"'{self.secret}'"

    def __str__(self) -> str:
        return "pattern"


env = Environment()
source = "{{ 0 | datetime: format: pattern }}"
try:
    out = env.from_string(source).render(pattern=Pattern())
except Exception as err:  # noqa: BLE001
    out = f"<{type(err).__name__}>"

print(f"template: {source}")
print("expected: an error or a formatted date; no method of `pattern` is called")
print(f"observed: {out!r}; methods called on the object: {Pattern.calls!r}")

if Pattern.calls or SECRET in out:
    print("VIOLATION: liquid2/builtin/filters/babel.py DateTime.__call__ passes `format` to babel unchecked")
    sys.exit(1)
