"""The `unit` filter forwards its `format` keyword argument to Babel's number
pattern parser without checking it is a string. Babel does `';' in format` and
then `format.split(';', 1)`, so a Python method of a context object is called
and what it returns is rendered."""

import sys

from liquid2 import Environment

SECRET = "S3CR3T"


class Pattern:
    calls: list[str] = []

    def __init__(self) -> None:
        self.secret = SECRET  # only ever held in a Python attribute

    def __contains__(self, item: object) -> bool:
        return True

    def split(self, sep: str, maxsplit: int = -1) -> list[str]:
        Pattern.calls.append("split")
        return [f"'{self.secret}' 0", "-0"]

    def __str__(self) -> str:
        return "pattern"


env = Environment()
source = "{{ 1 | unit: 'meter', format: pattern }}"
try:
    out = env.from_string(source).render(pattern=Pattern())
except Exception as err:  # noqa: BLE001
    out = f"<{type(err).__name__}>"

print(f"template: {source}")
print("expected: an error or '1 meter'; no method of `pattern` is called")
print(f"observed: {out!r}; methods called on the object: {Pattern.calls!r}")

if Pattern.calls or SECRET in out:
    print("VIOLATION: liquid2/builtin/filters/babel.py Unit.__call__ passes `format` to babel unchecked")
    sys.exit(1)
