"""The `for` tag does not iterate a mapping with iteration + item access. It
calls the Python method `.items()` of the object. A drop that implements the
documented trio (__getitem__, __iter__, __len__) on top of `dict` to expose a
strict subset of its keys leaks every hidden entry to a `for` loop."""

import sys

from liquid2 import Environment

SECRET = "S3CR3T"


class UserDrop(dict):
    """Exposes `name` only."""

    public = ("name",)

    def __getitem__(self, key: object) -> object:
        if key in self.public:
            return super().__getitem__(key)
        raise KeyError(key)

    def __iter__(self):
        return iter(self.public)

    def __len__(self) -> int:
        return len(self.public)

    def __contains__(self, key: object) -> bool:
        return key in self.public


env = Environment()
user = UserDrop(name="Sue", password=SECRET)

# The protocol as documented keeps the hidden entry hidden ...
assert env.from_string("{{ user.password }}|{{ user['password'] }}").render(user=user) == "|"
assert env.from_string("{{ user.size }}").render(user=user) == "1"

# ... but the for tag reads it through user.items().
source = "{% for pair in user %}{{ pair[0] }}={{ pair[1] }};{% endfor %}"
out = env.from_string(source).render(user=user)

print(f"template: {source}")
print("expected: 'name=Sue;' (iteration yields 'name' only, len() is 1)")
print(f"observed: {out!r}")

if SECRET in out:
    print("VIOLATION: liquid2/builtin/expressions.py LoopExpression._to_iter calls obj.items()")
    sys.exit(1)
