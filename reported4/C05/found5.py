"""The `json` filter hands the object to `json.dumps`, which serialises a dict
subclass through its `.items()` method instead of iteration + item access, so
entries a drop does not expose through the documented protocol are rendered."""

import sys

from liquid2 import Environment

SECRET = "S3CR3T"


class UserDrop(dict):
    """Exposes `name` only."""

    public = ("name",)

    def __getitem__(self, key: object) -> object:
        if key in self.public:
            return super().__getitem__(key)
        raise KeyError(key)

    def __iter__(self):
        return iter(self.public)

    def __len__(self) -> int:
        return len(self.public)

    def __contains__(self, key: object) -> bool:
        return key in self.public


env = Environment()
user = UserDrop(name="Sue", password=SECRET)
assert env.from_string("{{ user.password }}").render(user=user) == ""

source = "{{ user | json }}"
out = env.from_string(source).render(user=user)

print(f"template: {source}")
print("""expected: '{"name": "Sue"}' or an error""")
print(f"observed: {out!r}")

if SECRET in out:
    print("VIOLATION: liquid2/builtin/filters/misc.py JSON.__call__ (json.dumps reads obj.items())")
    sys.exit(1)
