"""The special path segment `.first` (and the `first` filter) on a mapping call
the Python method `.items()` of the object instead of using iteration + item
access, so `.first` returns an entry the drop does not expose."""

import sys

from liquid2 import Environment

SECRET = "S3CR3T"


class UserDrop(dict):
    """Exposes `name` only."""

    public = ("name",)

    def __getitem__(self, key: object) -> object:
        if key in self.public:
            return super().__getitem__(key)
        raise KeyError(key)

    def __iter__(self):
        return iter(self.public)

    def __len__(self) -> int:
        return len(self.public)

    def __contains__(self, key: object) -> bool:
        return key in self.public


env = Environment()
user = UserDrop(password=SECRET, name="Sue")  # the hidden entry comes first
assert env.from_string("{{ user.password }}").render(user=user) == ""

source = "{{ user.first | join: '=' }}"
out = env.from_string(source).render(user=user)

print(f"template: {source}")
print("expected: 'name=Sue' (the first key iteration yields) or nothing")
print(f"observed: {out!r}")

if SECRET in out:
    print("VIOLATION: liquid2/context.py RenderContext.get_item 'first' calls obj.items()")
    sys.exit(1)
