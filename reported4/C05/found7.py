"""String filters call ordinary Python methods (`upper`, `split`, ...) on the
value they are given when it is a `str` subclass, so a method defined by the
context object's class runs and its return value is rendered."""

import sys

from liquid2 import Environment

SECRET = "S3CR3T"


class Title(str):
    calls: list[str] = []

    def upper(self) -> str:
        Title.calls.append("upper")
        return SECRET

    def split(self, *args: object) -> list[str]:
        Title.calls.append("split")
        return [SECRET]


env = Environment()
source = "{{ title | upcase }}|{{ title | split: ',' | join: '+' }}"
out = env.from_string(source).render(title=Title("a,b"))

print(f"template: {source}")
print("expected: 'A,B|a+b' from string conversion of the value alone")
print(f"observed: {out!r}; methods called on the object: {Title.calls!r}")

if Title.calls or SECRET in out:
    print("VIOLATION: liquid2/filter.py string_filter / to_liquid_string keep a str subclass as is; "
          "liquid2/builtin/filters/string.py upcase()/split() then call its methods")
    sys.exit(1)
