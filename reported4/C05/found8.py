"""Comparison and membership operators (and many filters) put the name of the
Python class of a context object, read from `obj.__class__.__name__`, into the
error the template author gets back. It is not in the rendered output, but it
is an attribute of the object's class and it is not reachable through the
documented protocol."""

import sys

from liquid2 import Environment
from liquid2.exceptions import LiquidError


class InternalBillingAccountV2:
    def __str__(self) -> str:
        return "account"


env = Environment()
messages = []
for source in (
    "{% if account < 1 %}x{% endif %}",
    "{% if account contains 'a' %}x{% endif %}",
    "{% for i in (1..3) limit: account %}x{% endfor %}",
    "{{ 'a,b' | split: ',' | concat: account }}",
):
    try:
        env.from_string(source).render(account=InternalBillingAccountV2())
    except LiquidError as err:
        messages.append((source, str(err).splitlines()[0]))

print("expected: errors that do not name the Python class of the value")
for source, message in messages:
    print(f"observed: {source!r} -> {message!r}")

if any("InternalBillingAccountV2" in message for _, message in messages):
    print("VIOLATION: liquid2/builtin/expressions.py _lt/_contains/LoopExpression._to_int, "
          "liquid2/builtin/filters/array.py concat report obj.__class__.__name__")
    sys.exit(1)
