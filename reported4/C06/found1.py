"""Pre-existing violation 1: `{% include ... for items %}` is not part of the loop nest.

main: {% include 'row' for items %}      (10 items)
row:  {% for x in (1..10) %}.{% endfor %}

The nest runs 10 * 10 = 100 iterations. With loop_iteration_limit = 50 the render
must fail with LoopIterationLimitError (the docs say `include ... for` contributes
to the loop iteration counter). The same nest written as for > include fails.
"""

import sys

from liquid2 import DictLoader
from liquid2 import Environment
from liquid2.exceptions import LoopIterationLimitError


class Env(Environment):
    loop_iteration_limit = 50


def outcome(templates: dict[str, str]) -> str:
    env = Env(loader=DictLoader(templates))
    try:
        out = env.get_template("main").render(items=list(range(10)))
    except LoopIterationLimitError:
        return "LoopIterationLimitError"
    return f"rendered {out.count('.')} iterations"


row = "{% for x in (1..10) %}.{% endfor %}"
control = outcome(
    {"main": "{% for i in items %}{% include 'row' %}{% endfor %}", "row": row}
)
observed = outcome({"main": "{% include 'row' for items %}", "row": row})

print("limit 50, nest of 10 x 10 = 100 iterations")
print("control  (for > include > for):    ", control)
print("expected (include-for > for):       LoopIterationLimitError")
print("observed (include-for > for):      ", observed)

assert control == "LoopIterationLimitError"
if observed != "LoopIterationLimitError":
    print("VIOLATION: the loop nest ran past loop_iteration_limit")
    sys.exit(1)
