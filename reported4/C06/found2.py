"""Pre-existing violation 2: `{% render ... for items %}` is not part of the loop nest.

main: {% render 'row' for items %}      (10 items)
row:  {% for x in (1..10) %}.{% endfor %}

The nest runs 10 * 10 = 100 iterations. With loop_iteration_limit = 50 the render
must fail with LoopIterationLimitError (the docs say `render ... for` contributes to
the loop iteration counter). The same nest written as for > render fails.
"""

import asyncio
import sys

from liquid2 import DictLoader
from liquid2 import Environment
from liquid2.exceptions import LoopIterationLimitError


class Env(Environment):
    loop_iteration_limit = 50


def outcome(templates: dict[str, str], mode: str = "sync") -> str:
    env = Env(loader=DictLoader(templates))
    template = env.get_template("main")
    try:
        if mode == "sync":
            out = template.render(items=list(range(10)))
        else:
            out = asyncio.run(template.render_async(items=list(range(10))))
    except LoopIterationLimitError:
        return "LoopIterationLimitError"
    return f"rendered {out.count('.')} iterations"


row = "{% for x in (1..10) %}.{% endfor %}"
control = outcome(
    {"main": "{% for i in items %}{% render 'row' %}{% endfor %}", "row": row}
)
observed = outcome({"main": "{% render 'row' for items %}", "row": row})
observed_async = outcome({"main": "{% render 'row' for items %}", "row": row}, "async")

print("limit 50, nest of 10 x 10 = 100 iterations")
print("control  (for > render > for):     ", control)
print("expected (render-for > for):        LoopIterationLimitError")
print("observed (render-for > for, sync): ", observed)
print("observed (render-for > for, async):", observed_async)

assert control == "LoopIterationLimitError"
if observed != "LoopIterationLimitError" or observed_async != "LoopIterationLimitError":
    print("VIOLATION: the loop nest ran past loop_iteration_limit")
    sys.exit(1)
