"""Pre-existing violation 3: loops inside `{% tablerow %}` don't multiply with it.

{% tablerow i in (1..10) %}{% for x in (1..10) %}.{% endfor %}{% endtablerow %}

runs 10 * 10 = 100 iterations. With loop_iteration_limit = 50 the render must fail
with LoopIterationLimitError (the docs say tablerow contributes to the loop
iteration counter). for > tablerow does fail; tablerow > for does not.
"""

import sys

from liquid2.exceptions import LoopIterationLimitError
from liquid2.shopify import Environment


class Env(Environment):
    loop_iteration_limit = 50


def outcome(source: str) -> str:
    try:
        out = Env().from_string(source).render()
    except LoopIterationLimitError:
        return "LoopIterationLimitError"
    return f"rendered {out.count('.')} iterations"


control = outcome(
    "{% for x in (1..10) %}{% tablerow i in (1..10) %}.{% endtablerow %}{% endfor %}"
)
observed = outcome(
    "{% tablerow i in (1..10) %}{% for x in (1..10) %}.{% endfor %}{% endtablerow %}"
)

print("limit 50, nest of 10 x 10 = 100 iterations")
print("control  (for > tablerow): ", control)
print("expected (tablerow > for):  LoopIterationLimitError")
print("observed (tablerow > for): ", observed)

assert control == "LoopIterationLimitError"
if observed != "LoopIterationLimitError":
    print("VIOLATION: the loop nest ran past loop_iteration_limit")
    sys.exit(1)
