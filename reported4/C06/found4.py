"""Pre-existing violation 4: mutual recursion ends in RecursionError, not a depth error.

With the default context_depth_limit (30), a cycle of partials whose templates nest a
few blocks around the `render` tag overflows the Python stack before 30 context
copies are reached. The property says mutually recursive partials always terminate
with a depth or inheritance error instead of exhausting the interpreter.

    child:  {% extends 'layout' %}{% block x %} 3 nested loops around {% include 'child' %} {% endblock %}
    layout: 3 nested loops around {% block x %}{% endblock %}

    a:      4 nested loops, a capture and an if around {% render 'a' %}
"""

import asyncio
import sys

from liquid2 import DictLoader
from liquid2 import Environment
from liquid2.exceptions import ContextDepthError
from liquid2.exceptions import TemplateInheritanceError


def nest(inner: str, depth: int) -> str:
    for i in range(depth):
        inner = "{% for x" + str(i) + " in (1..1) %}" + inner + "{% endfor %}"
    return inner


GRAPHS = {
    "child <-> layout, three loops each": {
        "main": "{% include 'child' %}",
        "child": "{% extends 'layout' %}{% block x %}"
        + nest("{% include 'child' %}", 3)
        + "{% endblock %}",
        "layout": nest("{% block x %}{% endblock %}", 3),
    },
    "a -> a, four loops, a capture and an if": {
        "main": "{% render 'a' %}",
        "a": nest(
            "{% capture c %}{% if true %}{% render 'a' %}{% endif %}{% endcapture %}"
            "{{ c }}",
            4,
        ),
    },
}

failed = False
for name, templates in GRAPHS.items():
    for mode in ("sync", "async"):
        template = Environment(loader=DictLoader(templates)).get_template("main")
        try:
            if mode == "sync":
                template.render()
            else:
                asyncio.run(template.render_async())
            observed = "rendered"
        except (ContextDepthError, TemplateInheritanceError) as err:
            observed = type(err).__name__
        except BaseException as err:  # noqa: BLE001
            observed = type(err).__name__
            failed = True
        print(f"{name} [{mode}]: expected ContextDepthError, observed {observed}")

if failed:
    print("VIOLATION: recursion exhausted the interpreter stack before the depth limit")
    sys.exit(1)
