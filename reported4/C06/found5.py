"""Pre-existing violation 5: captured text that is never output counts as output.

    aaaa{% capture x %}bbbbbbb{% endcapture %}      output_stream_limit = 10

The unrestricted output is 'aaaa' (4 bytes), well within the limit, so the limit is
not exceeded and must not change what is rendered. The render fails with
OutputStreamLimitError because the capture buffer gets `limit - bytes written so
far` as its own limit. Wrapping the same capture in `{% if true %}` (a blank block,
rendered to a null buffer) makes the error go away, so the accounting is not even
consistent.
"""

import sys

from liquid2 import Environment
from liquid2.exceptions import OutputStreamLimitError


class Env(Environment):
    output_stream_limit = 10


def outcome(env: Environment, source: str) -> str:
    try:
        return "rendered " + repr(env.from_string(source).render())
    except OutputStreamLimitError:
        return "OutputStreamLimitError"


plain = "aaaa{% capture x %}bbbbbbb{% endcapture %}"
in_blank_if = "aaaa{% if true %}{% capture x %}bbbbbbb{% endcapture %}{% endif %}"

unrestricted = outcome(Environment(), plain)
observed = outcome(Env(), plain)
observed_if = outcome(Env(), in_blank_if)

print("unrestricted:                 ", unrestricted)
print("expected with limit 10:        rendered 'aaaa'")
print("observed with limit 10:       ", observed)
print("observed, capture in blank if:", observed_if)

if observed != unrestricted:
    print("VIOLATION: a limit that the output does not exceed changed the result")
    sys.exit(1)
