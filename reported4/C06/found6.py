"""Pre-existing violation 6: context_depth_limit below 4 fails every template.

`RenderContext.extend` compares the limit with the number of maps in the scope
chain, which starts at 4 (locals, globals, built-ins, counters). A template that
never extends or copies its context therefore fails with ContextDepthError when
context_depth_limit <= 3, although "the number of times a render context can be
extended or wrapped" is zero. A chain of three nested `render` tags passes with
limit 4 while a single `include` needs 6, so the two measures don't agree either.
"""

import sys

from liquid2 import DictLoader
from liquid2 import Environment
from liquid2.exceptions import ContextDepthError


def outcome(limit: int, templates: dict[str, str]) -> str:
    class Env(Environment):
        context_depth_limit = limit

    try:
        return "rendered " + repr(
            Env(loader=DictLoader(templates)).get_template("main").render()
        )
    except ContextDepthError:
        return "ContextDepthError"


failed = False
for limit in (1, 2, 3):
    observed = outcome(limit, {"main": "hello"})
    print(
        f"context_depth_limit={limit}, template 'hello': "
        f"expected rendered 'hello', observed {observed}"
    )
    failed = failed or observed != "rendered 'hello'"

print(
    "for reference, limit=4: three nested renders ->",
    outcome(
        4,
        {
            "main": "{% render 'a' %}",
            "a": "{% render 'b' %}",
            "b": "{% render 'c' %}",
            "c": "x",
        },
    ),
    "| one include ->",
    outcome(4, {"main": "{% include 'a' %}", "a": "x"}),
)

if failed:
    print("VIOLATION: a depth limit that nothing exceeds changed the result")
    sys.exit(1)
