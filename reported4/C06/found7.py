"""Pre-existing violation 7: `reversed` walks the whole iterable before the limit check.

    {% for i in (1..2000000) reversed %}{% endfor %}     loop_iteration_limit = 10

`LoopExpression._slice` builds `reversed(list(it))` while evaluating the loop
expression, before `RenderContext.loop` compares the length with the limit. The
render does fail with LoopIterationLimitError, but only after iterating over and
storing every item, so the work done is proportional to the unrestricted loop, not
to the limit. Without `reversed` the same loop is rejected without touching the
range.
"""

import sys
import tracemalloc

from liquid2 import Environment
from liquid2.exceptions import LoopIterationLimitError


class Env(Environment):
    loop_iteration_limit = 10


def peak(source: str) -> int:
    template = Env().from_string(source)
    tracemalloc.start()
    try:
        template.render()
    except LoopIterationLimitError:
        pass
    else:
        raise AssertionError("expected LoopIterationLimitError")
    finally:
        _, peak_bytes = tracemalloc.get_traced_memory()
        tracemalloc.stop()
    return peak_bytes


forward = peak("{% for i in (1..2000000) %}{% endfor %}")
backward = peak("{% for i in (1..2000000) reversed %}{% endfor %}")

print(f"limit 10, loop over (1..2000000):          peak {forward:>12,} bytes")
print(f"limit 10, loop over (1..2000000) reversed: peak {backward:>12,} bytes")
print("expected: both rejected without materialising two million items")

if backward > 10_000_000:
    print("VIOLATION: the loop limit did not bound the work done for a reversed loop")
    sys.exit(1)
