"""Pre-existing violation 8: `with` bindings are never measured by the namespace limit.

    {% with v0: 'xxxxxxxx' %}{% with v1: "${v0}${v0}" %}{% with v2: "${v1}${v1}" %} ...

Each level doubles the size of a template-created variable. With
local_namespace_limit = 100 the same doubling written with `assign` stops at the
fourth step, but 18 nested `with` tags happily build a 2 MiB string (26 levels would
be 512 MiB; the context depth limit is the only bound).
"""

import sys

from liquid2 import Environment
from liquid2.exceptions import LocalNamespaceLimitError


class Env(Environment):
    local_namespace_limit = 100


def outcome(source: str) -> str:
    try:
        return "rendered " + Env().from_string(source).render()
    except LocalNamespaceLimitError:
        return "LocalNamespaceLimitError"


levels = 18
with_source = (
    "{% with v0: 'xxxxxxxx' %}"
    + "".join(
        '{% with v' + str(i + 1) + ': "${v' + str(i) + "}${v" + str(i) + '}" %}'
        for i in range(levels)
    )
    + "{{ v" + str(levels) + " | size }}"
    + "{% endwith %}" * (levels + 1)
)
assign_source = "{% assign v = 'xxxxxxxx' %}" + '{% assign v = "${v}${v}" %}' * levels

control = outcome(assign_source)
observed = outcome(with_source)

print("local_namespace_limit = 100 bytes")
print("control  (assign, doubling 18 times):", control)
print("expected (with, doubling 18 times):   LocalNamespaceLimitError")
print("observed (with, doubling 18 times):  ", observed, "bytes in one variable")

assert control == "LocalNamespaceLimitError"
if observed != "LocalNamespaceLimitError":
    print("VIOLATION: template-created variables grew far past the namespace limit")
    sys.exit(1)
