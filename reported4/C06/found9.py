"""Pre-existing violation 9: the loop limit is applied to loop lengths, not iterations.

    {% for i in (1..100) %}x{% break %}{% endfor %}      loop_iteration_limit = 50

The loop runs exactly one iteration, so the limit is not exceeded and the property
says it must not change what is rendered. The render fails with
LoopIterationLimitError because the check multiplies the *lengths* of the loops
before the first iteration.
"""

import sys

from liquid2 import Environment
from liquid2.exceptions import LoopIterationLimitError


class Env(Environment):
    loop_iteration_limit = 50


source = "{% for i in (1..100) %}x{% break %}{% endfor %}"
unrestricted = Environment().from_string(source).render()

try:
    observed = "rendered " + repr(Env().from_string(source).render())
except LoopIterationLimitError:
    observed = "LoopIterationLimitError"

print("unrestricted render:", repr(unrestricted), "(one iteration)")
print("expected with limit 50: rendered 'x'")
print("observed with limit 50:", observed)

if observed != "rendered 'x'":
    print("VIOLATION: a loop limit that was not exceeded changed the result")
    sys.exit(1)
