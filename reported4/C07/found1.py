"""Pre-existing violation 1: macro parameter defaults are evaluated in the caller's scope.

A macro invoked with `call` should see only global data and the arguments passed
to it. The default expression of a parameter that is NOT passed is evaluated by
`CallNode.render_to_output` against the *caller's* context, so the macro body can
read variables the caller assigned, captured, counted or loop-bound.
"""

import sys

from liquid2 import Environment

env = Environment()
failures = 0


def check(label, source, expected, **data):
    global failures
    got = env.from_string(source).render(**data)
    ok = got == expected
    print(f"{'ok  ' if ok else 'FAIL'} {label}\n     template: {source}\n     expected {expected!r}, got {got!r}")
    if not ok:
        failures += 1


MACRO = "{% macro m v=x %}<{{ v }}>{% endmacro %}"

# Non-interference: the only thing that changes is a local of the caller; the
# macro is called without arguments, `x` is not global data.
check("assigned by caller", MACRO + "{% assign x = 'secret' %}{% call m %}", "<>")
check("captured by caller", MACRO + "{% capture x %}cap{% endcapture %}{% call m %}", "<>")
check("counted by caller", MACRO + "{% increment x %}{% increment x %}{% call m %}", "01<>")
check("loop-bound by caller", MACRO + "{% for x in (1..2) %}{% call m %}{% endfor %}", "<><>")
check(
    "caller's forloop",
    "{% macro m v=forloop.index %}<{{ v }}>{% endmacro %}{% for i in (1..2) %}{% call m %}{% endfor %}",
    "<><>",
)
# A default that names an earlier parameter reads the caller's variable of that
# name, not the parameter.
check(
    "default naming another parameter",
    "{% macro m a, b=a %}<{{ a }}|{{ b }}>{% endmacro %}{% assign a = 'callerA' %}{% call m 1 %}",
    "<1|1>",
)

sys.exit(1 if failures else 0)
