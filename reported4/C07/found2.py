"""Pre-existing violation 2: a lambda parameter scope survives an error raised by the filter.

`LambdaExpression.map()` is a generator that pushes the lambda's parameter scope
with `with context.extend(scope)` and only pops it when the generator is finished
or finalized. If the *filter* (not the lambda body) raises while the generator is
suspended (here `sum` fails to convert 'abc' to a number), the generator stays
alive for as long as the exception (its traceback) is alive. The enclosing
constructs' `finally: scope.pop()` then pop the wrong namespaces (front of the
chain = the lambda scope), and the outermost block namespace is left behind.

So a name bound for the duration of one construct is still visible after that
construct was left through an error, until the exception object is dropped. When
it is dropped later (or collected by the cyclic GC after an async render) the
generator's pop removes whatever happens to be at the front of the scope then,
e.g. the namespace of a `for` loop that is running.
"""

import io
import sys

from liquid2 import Environment
from liquid2 import RenderContext
from liquid2.exceptions import LiquidError

env = Environment()
held = []


def release(value):
    held.clear()
    return value


env.filters["release"] = release

failing = env.from_string("{{ arr | sum: i => s }}")
probe = env.from_string("[{{ x }}]")

ctx = RenderContext(failing, global_data={"arr": [1, 2], "s": "abc"})

try:
    # `x` is bound only for the duration of this call.
    failing.render_with_context(ctx, io.StringIO(), x="inner")
except LiquidError as err:
    held.append(err)  # e.g. collected to be reported later

buf = io.StringIO()
probe.render_with_context(ctx, buf)
after_error = buf.getvalue()
size_after_error = ctx.scope.size()

# Now the stale generator is finalized in the middle of a loop.
loop = env.from_string("{% for v in arr %}{{ 0 | release }}[{{ v }}]{% endfor %}")
buf = io.StringIO()
loop.render_with_context(ctx, buf)
in_loop = buf.getvalue()

print("after the failed render, expected '[]' and 4 maps in scope")
print(f"  got {after_error!r} and {size_after_error} maps in scope")
print("loop rendered while the old error is released, expected '0[1]0[2]'")
print(f"  got {in_loop!r}")

sys.exit(0 if (after_error == "[]" and size_after_error == 4 and in_loop == "0[1]0[2]") else 1)
