"""Pre-existing violation 3: `include` is only refused by tag *name*.

`render` and `call` disable the string "include". `Node.raise_for_disabled`
compares that string with the name the tag was written with, so the standard
include tag registered under one more name (a documented way to alias a tag:
`env.tags[name] = Tag(env)`) is not refused inside a rendered partial or a macro,
and the included template shares the partial's scope.
"""

import sys

from liquid2 import DictLoader
from liquid2 import Environment
from liquid2.builtin.tags.include_tag import IncludeTag
from liquid2.exceptions import DisabledTagError

env = Environment(
    loader=DictLoader(
        {
            "p": "{% assign t = 'T' %}{% embed 'q' %}",
            "q": "<{{ t }}>",
        }
    )
)
env.tags["embed"] = IncludeTag(env)

failures = 0
for label, source in (
    ("render", "{% render 'p' %}"),
    ("call", "{% macro m %}{% embed 'q' %}{% endmacro %}{% call m %}"),
):
    try:
        got = env.from_string(source).render()
    except DisabledTagError:
        print(f"ok   {label}: include refused")
    else:
        failures += 1
        print(f"FAIL {label}: expected DisabledTagError, the include tag ran and gave {got!r}")

sys.exit(1 if failures else 0)
