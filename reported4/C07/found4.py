"""Pre-existing violation 4: static analysis does not isolate a macro body (reads).

At render time a macro body sees only global data and its arguments, so `x` in the
macro body below is a *global* lookup (the caller's `assign` is invisible to it).
`Template.analyze()` walks the macro body with the caller's template scope, so it
treats `x` as the caller's local and does not report it as a global.
"""

import sys

from liquid2 import Environment

env = Environment()
source = "{% assign x = 1 %}{% macro m %}{{ x }}{% endmacro %}{% call m %}"
template = env.from_string(source)

print("template:", source)
print("render with x='GLOBAL':", repr(template.render(x="GLOBAL")), "(the macro reads the global)")
reported = sorted(template.analyze().globals)
print("expected analyze().globals to contain 'x'; got", reported)

# Same thing for names the caller binds with a block construct.
source2 = "{% for i in arr %}{% macro m %}{{ i }}{% endmacro %}{% call m %}{% endfor %}"
reported2 = sorted(env.from_string(source2).analyze().globals)
print("template:", source2)
print("expected analyze().globals to contain 'i'; got", reported2)

sys.exit(0 if ("x" in reported and "i" in reported2) else 1)
