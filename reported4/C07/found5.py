"""Pre-existing violation 5: static analysis lets a macro body's assignments leak out.

Nothing a macro assigns is visible to the caller afterwards, so `y` after the
`call` below is a global lookup. `Template.analyze()` adds the macro body's
`assign`/`capture`/`increment` names to the caller's template scope, so `y` is
not reported as a global.
"""

import sys

from liquid2 import Environment

env = Environment()
source = "{% macro m %}{% assign y = 1 %}{% endmacro %}{% call m %}[{{ y }}]"
template = env.from_string(source)

print("template:", source)
print("render with y='GLOBAL':", repr(template.render(y="GLOBAL")), "(the caller reads the global)")
reported = sorted(template.analyze().globals)
print("expected analyze().globals to contain 'y'; got", reported)

sys.exit(0 if "y" in reported else 1)
