"""Pre-existing violation 6: static analysis of `extends` inside a rendered partial uses the caller's scope.

`_analyze()` visits the children of an `extends` (and `include`) node with
`root_scope`, the scope of the top-level template, instead of the scope of the
template being visited. When the template being visited is an isolated partial
(loaded with `render`), its parent template is analysed as if it shared the
top-level caller's variables, in both directions.
"""

import sys

from liquid2 import DictLoader
from liquid2 import Environment

failures = 0

# (a) reads: `secret` in "base" is reported as the caller's local, not as a global.
env = Environment(
    loader=DictLoader({"p": "{% extends 'base' %}", "base": "<{{ secret }}>"})
)
source = "{% assign secret = 1 %}{% render 'p' %}"
template = env.from_string(source, name="main")
print("template:", source, "| p: {% extends 'base' %} | base: <{{ secret }}>")
print("render with secret='GLOBAL':", repr(template.render(secret="GLOBAL")))
reported = sorted(template.analyze().globals)
print("expected analyze().globals to contain 'secret'; got", reported)
failures += "secret" not in reported

# (b) writes: an assign in "base" makes `leaked` a local of the caller.
env = Environment(
    loader=DictLoader({"p": "{% extends 'base' %}", "base": "{% assign leaked = 1 %}"})
)
source = "{% render 'p' %}[{{ leaked }}]"
template = env.from_string(source, name="main")
print("template:", source, "| p: {% extends 'base' %} | base: {% assign leaked = 1 %}")
print("render with leaked='GLOBAL':", repr(template.render(leaked="GLOBAL")))
reported = sorted(template.analyze().globals)
print("expected analyze().globals to contain 'leaked'; got", reported)
failures += "leaked" not in reported

sys.exit(1 if failures else 0)
