"""Pre-existing violation 7: static analysis keeps the first call's render arguments in scope for later calls.

Arguments of a `render` tag are visible only inside that one rendering of the
partial. `_analyze()` analyses each partial once (the `seen` set), with the
argument names of the first `render` tag that loads it. A later `render` of the
same partial without that argument reads a global, which is never reported.
"""

import sys

from liquid2 import DictLoader
from liquid2 import Environment

env = Environment(loader=DictLoader({"p": "<{{ x }}>"}))
source = "{% render 'p', x: 1 %}{% render 'p' %}"
template = env.from_string(source, name="main")

print("template:", source, "| p: <{{ x }}>")
print("render with x='GLOBAL':", repr(template.render(x="GLOBAL")), "(second call reads the global)")
reported = sorted(template.analyze().globals)
print("expected analyze().globals to contain 'x'; got", reported)

sys.exit(0 if "x" in reported else 1)
