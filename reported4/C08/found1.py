"""Text (and tags) in front of `{% extends %}` in a child template are rendered.

Property: text outside blocks in child templates is discarded.
"""

import asyncio
import sys

from liquid2 import DictLoader
from liquid2 import Environment

TEMPLATES = {
    "root": "ROOT[{% block a %}ra{% endblock %}]{{ leaked }}",
    # A leading comment line, some text and an assign, all outside any block.
    "leaf": (
        "{# page template #}\n"
        "intro {% assign leaked = 'LEAK' %}"
        "{% extends 'root' %}"
        "outro {% block a %}la{% endblock %}"
    ),
}

EXPECT = "ROOT[la]"

env = Environment(loader=DictLoader(TEMPLATES))
template = env.get_template("leaf")
got_sync = template.render()
got_async = asyncio.run(template.render_async())

print(f"expected: {EXPECT!r}")
print(f"sync    : {got_sync!r}")
print(f"async   : {got_async!r}")

sys.exit(0 if got_sync == EXPECT and got_async == EXPECT else 1)
