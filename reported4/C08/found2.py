"""A block whose text is only whitespace renders nothing at all.

Property: the output is the root's text with each block replaced by its most
derived override. Here the most derived definition of `sep` is a single space (in
the root for `leaf1`, in the child for `leaf2`), so the space must be in the output.
`block` is not a conditional tag, but its body goes through the "suppress blank
control flow blocks" path in `liquid2.ast.BlockNode.render_to_output`.
"""

import asyncio
import sys

from liquid2 import DictLoader
from liquid2 import Environment

TEMPLATES = {
    "root1": "Hello,{% block sep %} {% endblock %}World",
    "leaf1": "{% extends 'root1' %}",
    "root2": "Hello,{% block sep %}-{% endblock %}World",
    "leaf2": "{% extends 'root2' %}{% block sep %} {% endblock %}",
    "root3": "Hello,{% block sep %}-{% endblock %}World",
    "leaf3": "{% extends 'root3' %}{% block sep %}\n{% assign x = 1 %}\n{% endblock %}",
}

EXPECT = {
    "leaf1": "Hello, World",
    "leaf2": "Hello, World",
    "leaf3": "Hello,\n\nWorld",
    "root1": "Hello, World",  # the base rendered directly
}

env = Environment(loader=DictLoader(TEMPLATES))
bad = 0
for name, want in EXPECT.items():
    template = env.get_template(name)
    for mode, got in (
        ("sync", template.render()),
        ("async", asyncio.run(template.render_async())),
    ):
        ok = got == want
        bad += not ok
        print(f"{name} {mode:5} expected {want!r} got {got!r} {'' if ok else '<-- WRONG'}")

sys.exit(1 if bad else 0)
