"""Duplicate block names go unnoticed unless the template is part of an `extends` chain.

Property: duplicate block names in one template are rejected with a
template-inheritance error. The check lives in `_stack_blocks`, which only runs
when an `extends` tag is rendered, so a template with duplicate blocks that is
rendered directly, or pulled in with `include`, renders both blocks silently.
"""

import asyncio
import sys

from liquid2 import DictLoader
from liquid2 import Environment
from liquid2.exceptions import TemplateInheritanceError

TEMPLATES = {
    "dups": "{% block a %}one{% endblock %}|{% block a %}two{% endblock %}",
    "nested_dups": "{% block a %}one{% block a %}two{% endblock %}{% endblock %}",
    "includer": "{% include 'dups' %}",
    # Control: the same template is rejected once something extends it.
    "child": "{% extends 'dups' %}",
}

env = Environment(loader=DictLoader(TEMPLATES))


def outcome(name: str, mode: str) -> str:
    template = env.get_template(name)
    try:
        if mode == "sync":
            return "rendered " + repr(template.render())
        return "rendered " + repr(asyncio.run(template.render_async()))
    except TemplateInheritanceError as err:
        return "TemplateInheritanceError: " + str(err).splitlines()[0]


bad = 0
for name in ("child", "dups", "nested_dups", "includer"):
    for mode in ("sync", "async"):
        got = outcome(name, mode)
        ok = got.startswith("TemplateInheritanceError")
        bad += not ok
        print(
            f"{name:12} {mode:5} expected TemplateInheritanceError, got {got}"
            f"{'' if ok else '  <-- NOT REJECTED'}"
        )

sys.exit(1 if bad else 0)
