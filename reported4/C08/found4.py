"""A base template pulled in with `include` has its blocks hijacked by the includer's chain.

`widget` is a chain of depth one entered through `include`. Nothing extends it in
this render, so its `title` block has to show its own text ("Widget"), and a
`required` block in it has nothing overriding it. But `include` shares the render
context, and `BlockNode.render_to_output` looks the block name up in whatever block
stacks are in `context.tag_namespace["extends"]`, which belong to the chain
`page -> layout`. (`{% render 'widget' %}` gets this right.)
"""

import asyncio
import sys

from liquid2 import DictLoader
from liquid2 import Environment
from liquid2.exceptions import RequiredBlockError

TEMPLATES = {
    "layout": "<h1>{% block title %}Site{% endblock %}</h1><aside>{% include 'widget' %}</aside>",
    "widget": "<b>{% block title %}Widget{% endblock %}</b>",
    "page": "{% extends 'layout' %}{% block title %}Page{% endblock %}",
    "strict_layout": "<h1>{% block title %}Site{% endblock %}</h1><aside>{% include 'strict_widget' %}</aside>",
    "strict_widget": "<b>{% block title required %}x{% endblock %}</b>",
    "strict_page": "{% extends 'strict_layout' %}{% block title %}Page{% endblock %}",
}

EXPECT = {
    "page": "<h1>Page</h1><aside><b>Widget</b></aside>",
    "strict_page": "RequiredBlockError",
}

env = Environment(loader=DictLoader(TEMPLATES))


def outcome(name: str, mode: str) -> str:
    template = env.get_template(name)
    try:
        if mode == "sync":
            return template.render()
        return asyncio.run(template.render_async())
    except RequiredBlockError:
        return "RequiredBlockError"


bad = 0
for name, want in EXPECT.items():
    for mode in ("sync", "async"):
        got = outcome(name, mode)
        ok = got == want
        bad += not ok
        print(f"{name:12} {mode:5} expected {want!r} got {got!r}{'' if ok else '  <-- WRONG'}")

sys.exit(1 if bad else 0)
