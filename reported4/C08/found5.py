"""A `required` block nobody overrides is only rejected if it happens to be rendered.

Property: a `required` block that no descendant overrides is rejected with a
template-inheritance error, never a silently wrong page. The check is made in
`BlockNode.render_to_output`, when the block is reached while rendering. A required
block that sits inside another block that was overridden, or that is introduced by
the leaf itself (so it can have no descendant at all), is never reached and the page
renders as if nothing was wrong.
"""

import asyncio
import sys

from liquid2 import DictLoader
from liquid2 import Environment
from liquid2.exceptions import RequiredBlockError

TEMPLATES = {
    # `inner` is required, nothing overrides it, `outer` is overridden.
    "root1": "[{% block outer %}<{% block inner required %}x{% endblock %}>{% endblock %}]",
    "leaf1": "{% extends 'root1' %}{% block outer %}replaced{% endblock %}",
    # The most derived template introduces a required block. No descendant exists.
    "root2": "[{% block a %}ra{% endblock %}]",
    "leaf2": "{% extends 'root2' %}{% block extra required %}x{% endblock %}",
    # Control: reached while rendering, so it is rejected.
    "root3": "[{% block inner required %}x{% endblock %}]",
    "leaf3": "{% extends 'root3' %}",
}

env = Environment(loader=DictLoader(TEMPLATES))


def outcome(name: str, mode: str) -> str:
    template = env.get_template(name)
    try:
        if mode == "sync":
            return "rendered " + repr(template.render())
        return "rendered " + repr(asyncio.run(template.render_async()))
    except RequiredBlockError:
        return "RequiredBlockError"


bad = 0
for name in ("leaf3", "leaf1", "leaf2"):
    for mode in ("sync", "async"):
        got = outcome(name, mode)
        ok = got == "RequiredBlockError"
        bad += not ok
        print(
            f"{name} {mode:5} expected RequiredBlockError, got {got}"
            f"{'' if ok else '  <-- NOT REJECTED'}"
        )

sys.exit(1 if bad else 0)
