"""With async rendering, `block.super` renders the parent block synchronously.

Property: the same result with sync and async rendering. `BlockDrop.__getitem__`
always calls `self.parent.block.block.render(...)`, the blocking version, even when
it is reached from `render_async`. Anything in the parent's block that needs to
await something - here an `include` served by a loader that can only load
asynchronously - is run through its blocking twin instead. The same parent block
renders fine under `render_async` when it is not reached through `block.super`.
"""

import asyncio
import sys

from liquid2 import DictLoader
from liquid2 import Environment


class AsyncOnlyLoader(DictLoader):
    """A loader whose backend (think: an async database driver) has no sync API."""

    def get_source(self, env, template_name, *, context=None, **kwargs):  # noqa: ANN
        raise RuntimeError(f"blocking load of {template_name!r} during async render")

    async def get_source_async(self, env, template_name, *, context=None, **kwargs):  # noqa: ANN
        await asyncio.sleep(0)
        return DictLoader.get_source(self, env, template_name, context=context, **kwargs)


TEMPLATES = {
    "root": "[{% block a %}{% include 'inc' %}{% endblock %}]",
    "inc": "included",
    "plain_leaf": "{% extends 'root' %}",
    "super_leaf": "{% extends 'root' %}{% block a %}{{ block.super }}!{% endblock %}",
}

EXPECT = {"plain_leaf": "[included]", "super_leaf": "[included!]"}

env = Environment(loader=AsyncOnlyLoader(TEMPLATES))


async def render(name: str) -> str:
    template = await env.get_template_async(name)
    return await template.render_async()


bad = 0
for name, want in EXPECT.items():
    try:
        got = asyncio.run(render(name))
    except Exception as err:  # noqa: BLE001
        got = f"{type(err).__name__}: {err}"
    ok = got == want
    bad += not ok
    print(f"{name:10} async expected {want!r} got {got!r}{'' if ok else '  <-- WRONG'}")

sys.exit(1 if bad else 0)
