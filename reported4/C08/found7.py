"""An `extends` tag inside a `capture` block swallows the whole page.

Property: the output of a chain is the root's text with the blocks resolved, never
a silently wrong page. `ExtendsNode` renders the base template into the buffer it is
given and then raises `StopRender` to drop the rest of the child. Inside
`{% capture %}` that buffer is the capture buffer, and `StopRender` unwinds through
the capture tag before it can assign anything, so the rendered parent is thrown
away and the result is an empty string, with no error.
(`extends` inside `{% if %}` works and is found by the same static scan.)
"""

import asyncio
import sys

from liquid2 import DictLoader
from liquid2 import Environment

TEMPLATES = {
    "root": "ROOT[{% block a %}ra{% endblock %}]",
    "leaf_if": "{% if true %}{% extends 'root' %}{% endif %}{% block a %}la{% endblock %}",
    "leaf_capture": (
        "{% capture page %}{% extends 'root' %}{% endcapture %}"
        "{% block a %}la{% endblock %}"
    ),
}

EXPECT = "ROOT[la]"

env = Environment(loader=DictLoader(TEMPLATES))
bad = 0
for name in ("leaf_if", "leaf_capture"):
    template = env.get_template(name)
    for mode in ("sync", "async"):
        try:
            got = (
                template.render()
                if mode == "sync"
                else asyncio.run(template.render_async())
            )
        except Exception as err:  # noqa: BLE001
            got = f"{type(err).__name__}: {str(err).splitlines()[0]}"
        # Either the page or an inheritance error would be acceptable.
        ok = got == EXPECT or got.startswith("TemplateInheritanceError")
        bad += not ok
        print(
            f"{name:12} {mode:5} expected {EXPECT!r} (or a TemplateInheritanceError) "
            f"got {got!r}{'' if ok else '  <-- WRONG'}"
        )

sys.exit(1 if bad else 0)
