"""Any word after a block's name is swallowed, so a misspelt `required` is ignored.

`BlockTag.parse` does `required = tokens.next().type_ == TokenType.REQUIRED` and
then `tokens.expect_eos()`. The token after the name is consumed whatever it is, so
`{% block content requierd %}` parses as an ordinary, optional block. The author
asked for a required block, no descendant overrides it, and the page renders
silently with the placeholder text. (`{% endblock content junk %}` is a syntax
error, as is `{% block content required junk %}`.)
"""

import asyncio
import sys

from liquid2 import DictLoader
from liquid2 import Environment
from liquid2.exceptions import LiquidError

TEMPLATES = {
    "root": "[{% block content requierd %}PLACEHOLDER{% endblock %}]",
    "leaf": "{% extends 'root' %}",
    "root_ok": "[{% block content required %}PLACEHOLDER{% endblock %}]",
    "leaf_ok": "{% extends 'root_ok' %}",
}

env = Environment(loader=DictLoader(TEMPLATES))


def outcome(name: str, mode: str) -> str:
    try:
        template = env.get_template(name)
        if mode == "sync":
            return "rendered " + repr(template.render())
        return "rendered " + repr(asyncio.run(template.render_async()))
    except LiquidError as err:
        return type(err).__name__


bad = 0
for name in ("leaf_ok", "leaf"):
    for mode in ("sync", "async"):
        got = outcome(name, mode)
        ok = not got.startswith("rendered")
        bad += not ok
        print(
            f"{name:8} {mode:5} expected an error (syntax or required-block), got {got}"
            f"{'' if ok else '  <-- ACCEPTED SILENTLY'}"
        )

sys.exit(1 if bad else 0)
