"""PRE-EXISTING: a later get_template()/include changes what an earlier Template renders.

Caching loaders hand out ONE shared Template object per name and, on every cache
hit, overwrite its `global_data` with the globals of the latest caller
(liquid2/builtin/loaders/mixins.py, CachingLoaderMixin._check_cache).
"""

import sys

from liquid2 import CachingDictLoader
from liquid2 import DictLoader
from liquid2 import Environment

TEMPLATES = {"greeting": "Hello, {{ who }}!", "page": "{% include 'greeting' %}"}


def run(loader_class: type) -> list[str]:
    env = Environment(loader=loader_class(dict(TEMPLATES)))
    out = []
    t_alice = env.get_template("greeting", globals={"who": "Alice"})
    out.append(t_alice.render())
    # Unrelated calls on the same environment/loader.
    env.get_template("greeting", globals={"who": "Bob"})
    out.append(t_alice.render())
    env.get_template("page").render(who="Carol")
    out.append(t_alice.render())
    return out


expected = run(DictLoader)  # no shared state: every step as on fresh objects
observed = run(CachingDictLoader)

print("expected (same calls, nothing shared):", expected)
print("observed (CachingDictLoader)         :", observed)

if observed != expected:
    print("VIOLATION: t_alice.render() depends on later get_template()/include calls")
    sys.exit(1)
