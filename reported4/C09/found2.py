"""PRE-EXISTING: CachingDictLoader never notices that the loader's contents changed.

DictLoader.get_source() returns `uptodate=None`, and Template.is_up_to_date() treats
that as "always up to date", so with the default `auto_reload=True` the first parse
of a name is served for ever (liquid2/builtin/loaders/dict_loader.py,
DictLoader.get_source + liquid2/template.py, Template.is_up_to_date).
"""

import sys

from liquid2 import CachingDictLoader
from liquid2 import Environment

loader = CachingDictLoader({"page": "version 1", "main": "[{% render 'page' %}]"})
env = Environment(loader=loader)  # auto_reload defaults to True

first = env.get_template("main").render()

loader.templates["page"] = "version 2"  # the loader contents change

observed = env.get_template("main").render()

# Same call on freshly built objects with the same (current) loader contents.
expected = Environment(
    loader=CachingDictLoader(dict(loader.templates))
).get_template("main").render()

print("first render                        :", repr(first))
print("expected after the change (fresh env):", repr(expected))
print("observed after the change (same env) :", repr(observed))

if observed != expected:
    print("VIOLATION: output depends on what was loaded before, not on loader contents")
    sys.exit(1)
