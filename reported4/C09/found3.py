"""PRE-EXISTING: CachingFileSystemLoader keeps serving a shadowed file.

The cache's freshness check only looks at the mtime of the file the template was
first read from. A file of the same name that appears later in an EARLIER search
path (which a fresh loader would pick) is never noticed
(liquid2/builtin/loaders/file_system_loader.py, FileSystemLoader.get_source/_uptodate
+ liquid2/builtin/loaders/mixins.py, CachingLoaderMixin._check_cache).
"""

import sys
import tempfile
from pathlib import Path

from liquid2 import CachingFileSystemLoader
from liquid2 import Environment

with tempfile.TemporaryDirectory() as tmp:
    theme = Path(tmp) / "theme"  # searched first
    default = Path(tmp) / "default"  # fallback
    theme.mkdir()
    default.mkdir()
    (default / "header.liquid").write_text("default header")

    def build() -> Environment:
        return Environment(
            loader=CachingFileSystemLoader([theme, default], auto_reload=True)
        )

    env = build()
    page = env.from_string("{% render 'header.liquid' %}")
    first = page.render()

    # The theme now overrides the header.
    (theme / "header.liquid").write_text("theme header")

    observed = page.render()
    expected = build().from_string("{% render 'header.liquid' %}").render()

print("first render                  :", repr(first))
print("expected (fresh env and loader):", repr(expected))
print("observed (same env and loader) :", repr(observed))

if observed != expected:
    print("VIOLATION: result depends on an earlier load, not on the loader contents")
    sys.exit(1)
