"""PRE-EXISTING: a file rewritten without a change of mtime is served stale for ever.

`FileSystemLoader._uptodate` compares `st_mtime` for equality and nothing else (no
size, no content hash). Two writes inside one timestamp tick of the file system, or
a deploy tool that preserves timestamps (`cp -p`, `rsync -t`, `git checkout` +
`touch -r`), leave the cached parse of the OLD text "up to date"
(liquid2/builtin/loaders/file_system_loader.py, FileSystemLoader._uptodate).
"""

import os
import sys
import tempfile
from pathlib import Path

from liquid2 import CachingFileSystemLoader
from liquid2 import Environment

with tempfile.TemporaryDirectory() as tmp:
    path = Path(tmp) / "page.liquid"
    path.write_text("old text")
    stat = path.stat()

    def build() -> Environment:
        return Environment(loader=CachingFileSystemLoader(tmp, auto_reload=True))

    env = build()
    first = env.get_template("page.liquid").render()

    # New contents (even a different size), same modification time.
    path.write_text("new and longer text")
    os.utime(path, ns=(stat.st_atime_ns, stat.st_mtime_ns))

    observed = env.get_template("page.liquid").render()
    expected = build().get_template("page.liquid").render()

print("first render                  :", repr(first))
print("expected (fresh env and loader):", repr(expected))
print("observed (same env and loader) :", repr(observed))

if observed != expected:
    print("VIOLATION: result depends on an earlier load, not on the loader contents")
    sys.exit(1)
