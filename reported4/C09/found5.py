"""PRE-EXISTING: namespaced cache keys collide with plain template names.

With `namespace_key="uid"` the cache key is the string f"{uid}/{name}". A template
whose real name is "42/footer" (or a namespace "4" with the name "2/footer"...) maps
to the same key as the template "footer" loaded for uid 42, so which source you get
for a name depends on what was loaded before
(liquid2/builtin/loaders/mixins.py, CachingLoaderMixin.cache_key).
"""

import sys

from liquid2 import CachingDictLoader
from liquid2 import Environment

TEMPLATES = {
    "footer": "shared footer",
    "42/footer": "the footer of shop 42",
    "page": "{% render 'footer' %}",
}


def build() -> Environment:
    return Environment(loader=CachingDictLoader(dict(TEMPLATES), namespace_key="uid"))


# On fresh objects.
expected = build().get_template("42/footer").render()

env = build()
# An earlier render, for the user with uid 42, renders the partial called "footer".
earlier = env.get_template("page").render(uid=42)
observed = env.get_template("42/footer").render()

print("earlier render of 'page' for uid=42        :", repr(earlier))
print("expected get_template('42/footer') (fresh) :", repr(expected))
print("observed get_template('42/footer') (shared):", repr(observed))

if observed != expected:
    print("VIOLATION: get_template() result depends on an earlier render")
    sys.exit(1)
