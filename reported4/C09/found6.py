"""PRE-EXISTING: the documented SnippetsFileSystemLoader is order dependent.

docs/loading_templates.md ("Load context") shows a CachingFileSystemLoader subclass
whose get_source() picks a different file depending on the `tag` keyword argument.
The cache key built by CachingLoaderMixin.cache_key() ignores every loader argument
except `namespace_key`, so whichever of `foo` / `snippets/foo` is loaded first is
served for both from then on
(liquid2/builtin/loaders/mixins.py, CachingLoaderMixin.load/cache_key).
"""

import sys
import tempfile
from pathlib import Path

from liquid2 import CachingFileSystemLoader
from liquid2 import Environment
from liquid2 import RenderContext
from liquid2 import TemplateSource


# Verbatim from docs/loading_templates.md
class SnippetsFileSystemLoader(CachingFileSystemLoader):
    def get_source(
        self,
        env: Environment,
        template_name: str,
        *,
        context: RenderContext | None = None,
        **kwargs: object,
    ) -> TemplateSource:
        if kwargs.get("tag") in ("include", "render"):
            snippet = Path("snippets").joinpath(template_name)
            return super().get_source(
                env, template_name=str(snippet), context=context, **kwargs
            )
        return super().get_source(
            env, template_name=template_name, context=context, **kwargs
        )


with tempfile.TemporaryDirectory() as tmp:
    root = Path(tmp)
    (root / "snippets").mkdir()
    (root / "card.liquid").write_text("top-level card page")
    (root / "snippets" / "card.liquid").write_text("card snippet")
    (root / "index.liquid").write_text("{% render 'card.liquid' %}")

    def build() -> Environment:
        return Environment(loader=SnippetsFileSystemLoader(root))

    # On fresh objects.
    expected = build().get_template("index.liquid").render()

    env = build()
    earlier = env.get_template("card.liquid").render()  # the top-level page
    observed = env.get_template("index.liquid").render()

print("earlier get_template('card.liquid').render():", repr(earlier))
print("expected render of index.liquid (fresh)     :", repr(expected))
print("observed render of index.liquid (shared)    :", repr(observed))

if observed != expected:
    print("VIOLATION: render result depends on which template was loaded before")
    sys.exit(1)
