"""PRE-EXISTING: concurrent async renders see each other's template globals.

Same root cause as found1.py, under concurrency: two tasks each load "the same"
template with their own globals and render it. The caching loader hands both tasks
one shared Template object and overwrites its `global_data` on every cache hit, so
the task that renders last-but-loaded-first prints the other task's data
(liquid2/builtin/loaders/mixins.py, CachingLoaderMixin._check_cache_async).
"""

import asyncio
import sys

from liquid2 import CachingDictLoader
from liquid2 import DictLoader
from liquid2 import Environment

TEMPLATES = {"mail": "Dear {{ customer }}, your order {{ order }} has shipped."}


async def send(env: Environment, customer: str, order: int) -> str:
    template = await env.get_template_async(
        "mail", globals={"customer": customer, "order": order}
    )
    await asyncio.sleep(0)  # any other await between loading and rendering
    return await template.render_async()


async def run(loader_class: type) -> list[str]:
    env = Environment(loader=loader_class(dict(TEMPLATES)))
    await env.get_template_async("mail")  # warm the cache
    return list(await asyncio.gather(send(env, "Alice", 1), send(env, "Bob", 2)))


expected = asyncio.run(run(DictLoader))
observed = asyncio.run(run(CachingDictLoader))

print("expected (nothing shared) :", expected)
print("observed (caching loader) :", observed)

if observed != expected:
    print("VIOLATION: a render's output depends on a concurrent render")
    sys.exit(1)
