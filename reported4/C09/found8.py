"""PRE-EXISTING (borderline): analysis helpers return a hash-seed dependent order.

Template.variable_paths(), global_variable_paths(), variable_segments() and
global_variable_segments() (and their *_async twins) build their result with
`list({...})` / `list(set(...))`, so the order of the returned list is decided by
string hash randomisation, not by the template. The same call on the same source in
another process (or with another PYTHONHASHSEED) returns a different list
(liquid2/template.py, Template.variable_paths & co).
"""

import os
import subprocess
import sys

CHILD = r"""
from liquid2 import Environment
t = Environment().from_string(
    "{{ alpha.a }}{{ bravo.b }}{{ charlie.c }}{{ delta.d }}{{ echo.e }}{{ foxtrot.f }}"
)
print(t.variable_paths())
"""

results = {}
for seed in ("1", "2", "3", "4"):
    env = dict(os.environ, PYTHONHASHSEED=seed)
    out = subprocess.run(
        [sys.executable, "-c", CHILD], env=env, capture_output=True, text=True, check=True
    ).stdout.strip()
    results[seed] = out
    print(f"PYTHONHASHSEED={seed}: {out}")

print("expected: the same list for the same template source in every process")
if len(set(results.values())) > 1:
    print("VIOLATION: the result is not a function of the template source alone")
    sys.exit(1)
