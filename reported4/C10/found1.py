"""An enclosing block-scoped binding loses to a local assigned in an overriding block.

The same block body, `{% assign x = 'L' %}{{ x }}`, inside `{% with x: 'W' %}` or
`{% for x in (1..2) %}`: the innermost block-scoped binding of `x` must win over the
template-local `x`. It does when the base template is rendered directly, it does not
when the block is overridden from a child template (`RenderContext.copy(block_scope=True)`
puts a fresh local namespace in front of the whole parent scope).
"""

import sys

from liquid2 import DictLoader
from liquid2 import Environment

BODY = "{% assign x = 'L' %}{{ x }}"

env = Environment(
    loader=DictLoader(
        {
            "base": (
                "{% with x: 'W' %}{% block b %}" + BODY + "{% endblock %}{% endwith %}|"
                "{% for x in (1..2) %}{% block c %}" + BODY + "{% endblock %}{% endfor %}"
            ),
            "child": (
                "{% extends 'base' %}"
                "{% block b %}" + BODY + "{% endblock %}"
                "{% block c %}" + BODY + "{% endblock %}"
            ),
        }
    )
)

expected = "W|12"
direct = env.get_template("base").render()
inherited = env.get_template("child").render()
print("expected             :", expected)
print("base rendered direct :", direct)
print("child overriding b, c:", inherited)

if direct != expected or inherited != expected:
    sys.exit(1)
