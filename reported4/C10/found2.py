"""A local assigned in a macro or a `render` partial shadows the tag's own bindings.

Macro arguments, `render` keyword arguments and the `render ... for` loop variable are
block-scoped bindings (they exist for the duration of the tag). The innermost
block-scoped binding should win over a template-local variable of the same name, as it
does for `with` and for `include` keyword arguments. `RenderContext.copy()` puts the
tag's namespace below a fresh local namespace instead.
"""

import sys

from liquid2 import DictLoader
from liquid2 import Environment

env = Environment(
    loader=DictLoader(
        {
            "p": "{% assign x = 'L' %}{{ x }}",
            "q": "{% assign q = 'L' %}{{ q }}",
        }
    )
)

cases = [
    ("with", "{% with x: 'arg' %}{% assign x = 'L' %}{{ x }}{% endwith %}", "arg"),
    ("include kwargs", "{% include 'p', x: 'arg' %}", "arg"),
    ("include for", "{% include 'q' for l %}", "12"),
    ("render kwargs", "{% render 'p', x: 'arg' %}", "arg"),
    ("render for", "{% render 'q' for l %}", "12"),
    (
        "macro argument",
        "{% macro m x %}{% assign x = 'L' %}{{ x }}{% endmacro %}{% call m 'arg' %}",
        "arg",
    ),
]

failed = False
for label, source, expect in cases:
    got = env.from_string(source).render(l=[1, 2])
    status = "ok" if got == expect else "VIOLATION"
    print(f"{label:15} expected {expect!r:6} got {got!r:6} {status}")
    failed = failed or got != expect

if failed:
    sys.exit(1)
