"""Template globals of a loaded template are replaced by later loads and renders.

With a caching loader, `get_template(name, globals=...)` hands out one shared `Template`
and overwrites its `global_data` on every cache hit, including the hits made by
`{% render %}` / `{% include %}` while some other template is rendering
(`CachingLoaderMixin._check_cache`).
"""

import copy
import sys

from liquid2 import CachingDictLoader
from liquid2 import Environment

env = Environment(
    loader=CachingDictLoader({"t": "{{ x }}", "u": "[{% render 't' %}]"}),
)

failed = False

a = env.get_template("t", globals={"x": "A"})
before = copy.deepcopy(dict(a.global_data))
assert a.render() == "A"

# Rendering an unrelated template changes the template globals of `a`.
env.get_template("u").render()
after = dict(a.global_data)
print("template globals of 'a' before rendering 'u':", before)
print("template globals of 'a' after rendering 'u' :", after)
got = a.render()
print("a.render() expected 'A', got", repr(got))
failed = failed or after != before or got != "A"

# Two handles with different template globals.
a = env.get_template("t", globals={"x": "A"})
b = env.get_template("t", globals={"x": "B"})
got_a, got_b = a.render(), b.render()
print("a.render(), b.render() expected ('A', 'B'), got", (got_a, got_b))
failed = failed or (got_a, got_b) != ("A", "B")

if failed:
    sys.exit(1)
