"""Loader matter of a partial or parent template is never consulted.

Matter takes priority over template and environment globals for the template it was
loaded with, but inside `{% include %}`, `{% render %}` and a parent reached through
`{% extends %}` the name resolves to the environment global instead: those tags only
ever look at the root template's globals (`IncludeNode`, `RenderNode`, `ExtendsNode`,
`RenderContext.copy`).
"""

import sys

from liquid2 import DictLoader
from liquid2 import Environment
from liquid2.exceptions import TemplateNotFoundError
from liquid2.loader import TemplateSource


class MatterLoader(DictLoader):
    def __init__(self, templates, matter):
        super().__init__(templates)
        self.matter = matter

    def get_source(self, env, template_name, *, context=None, **kwargs):
        try:
            source = self.templates[template_name]
        except KeyError as err:
            raise TemplateNotFoundError(template_name) from err
        return TemplateSource(source, template_name, None, self.matter.get(template_name))


env = Environment(
    loader=MatterLoader(
        {
            "p": "{{ x }}",
            "inc": "{% include 'p' %}",
            "ren": "{% render 'p' %}",
            "base": "{{ x }}",
            "child": "{% extends 'base' %}",
        },
        {"p": {"x": "matter"}, "base": {"x": "matter"}},
    ),
    globals={"x": "env global"},
)

failed = False
for name in ("p", "base", "inc", "ren", "child"):
    got = env.get_template(name).render()
    status = "ok" if got == "matter" else "VIOLATION"
    print(f"{name:6} expected 'matter' got {got!r} {status}")
    failed = failed or got != "matter"

if failed:
    sys.exit(1)
