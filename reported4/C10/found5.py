"""Reading a missing key from a `defaultdict` in the render arguments changes it.

`RenderContext.get_item` (and the `map`, `where`, `sort`, `sum`, ... filters) index caller
data with `obj[key]`, which inserts the default into a `collections.defaultdict`.
"""

import collections
import copy
import sys

from liquid2 import Environment

data = {"d": collections.defaultdict(list, {"a": 1})}
before = copy.deepcopy(data)

out = Environment().from_string("{{ d.nosuch }}{{ d.size }}").render(**data)

print("output  :", repr(out))
print("expected:", before)
print("got     :", data)
if data != before:
    sys.exit(1)
