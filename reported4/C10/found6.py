"""Loader matter that is a `defaultdict` is written to by every name lookup.

`Template.overlay_data` is the loader's matter object itself. `ReadOnlyChainMap` tries
`mapping[key]` on it for every name not found in the render arguments, which inserts the
default and hides the template globals, environment globals, built-ins and counters.
"""

import collections
import copy
import sys

from liquid2 import DictLoader
from liquid2 import Environment
from liquid2.loader import TemplateSource

matter = collections.defaultdict(str, {"title": "T"})


class MatterLoader(DictLoader):
    def get_source(self, env, template_name, *, context=None, **kwargs):
        return TemplateSource(self.templates[template_name], template_name, None, matter)


env = Environment(
    loader=MatterLoader({"t": "{{ title }}|{{ site }}"}), globals={"site": "S"}
)
before = copy.deepcopy(matter)
out = env.get_template("t").render()

print("output expected 'T|S', got", repr(out))
print("matter expected", dict(before), "got", dict(matter))
if out != "T|S" or matter != before:
    sys.exit(1)
