"""A one-shot iterator in the render arguments is consumed by sequence filters.

`sequence_arg` does `list(val)` on any iterable, so after one render the caller's
iterator is exhausted and a second render of the same data gives different output.
"""

import copy
import sys

from liquid2 import Environment

it = iter([1, 2, 3])
snapshot = copy.copy(it)  # an independent iterator at the same position
template = Environment().from_string("{{ it | join: ',' }}")

first = template.render(it=it)
second = template.render(it=it)
remaining_before = list(snapshot)
remaining_after = list(it)

print("first render :", repr(first))
print("second render:", repr(second), "(expected the same as the first)")
print("items left in the caller's iterator: expected", remaining_before, "got", remaining_after)
if first != second or remaining_before != remaining_after:
    sys.exit(1)
