"""`include ... with <expr>` evaluates <expr> inside the partial's own scope.

The keyword arguments of `include` are bound for the partial only. The tag's own
`with`/`for` expression belongs to the enclosing scope (as for `render`, and as for the
arguments of `with`), but `IncludeNode.render_to_output` evaluates it after pushing the
keyword arguments, so a name in it resolves to a binding that is not in scope yet.
"""

import sys

from liquid2 import DictLoader
from liquid2 import Environment

env = Environment(loader=DictLoader({"p": "{{ y }}"}))

cases = [
    ("with   ", "{% with y: x, x: 'kw' %}{{ y }}{% endwith %}"),
    ("render ", "{% render 'p' with x as y, x: 'kw' %}"),
    ("include", "{% include 'p' with x as y, x: 'kw' %}"),
]

failed = False
for label, source in cases:
    got = env.from_string(source).render(x="outer")
    status = "ok" if got == "outer" else "VIOLATION"
    print(f"{label} expected 'outer' got {got!r} {status}")
    failed = failed or got != "outer"

if failed:
    sys.exit(1)
