"""PRE-EXISTING: a filter applied to the left operand of a ternary (inline if)
expression is applied at render time but is not reported by analyze()."""
import sys
from liquid2 import Environment

env = Environment()
applied = []
upcase = env.filters["upcase"]
env.filters["upcase"] = lambda *a, **k: (applied.append("upcase"), upcase(*a, **k))[1]

template = env.from_string("{{ name | upcase if shout else name }}")
out = template.render(name="sue", shout=True)
reported = sorted(template.analyze().filters)

print("template :", "{{ name | upcase if shout else name }}")
print("rendered :", repr(out), "- filters applied at render time:", applied)
print("expected : 'upcase' in analyze().filters / filter_names()")
print("observed : analyze().filters =", reported, " filter_names() =", template.filter_names())
sys.exit(1 if "upcase" in applied and "upcase" not in reported else 0)
