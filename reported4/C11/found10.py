"""PRE-EXISTING: `{% raw %}` is a documented tag that is executed at render time (it
writes its text), but it is never reported in analyze().tags / tag_names()."""
import sys
from liquid2 import Environment

source = "{% if x %}{% raw %}{{ literal }}{% endraw %}{% endif %}"
template = Environment().from_string(source)
out = template.render(x=True)
tags = template.tag_names()
print("template :", source)
print("rendered :", repr(out), "(the raw tag ran)")
print("expected : 'raw' in tag_names()")
print("observed : tag_names() =", tags)
sys.exit(1 if "raw" not in tags and out == "{{ literal }}" else 0)
