"""PRE-EXISTING: the built-in `currency`/`money`/`decimal`/`datetime`/`unit` filters
look names up in the render context (`locale`, `currency_code`, ...). Those global
lookups are not reported by static analysis."""
import sys
from collections.abc import Mapping
from io import StringIO
from liquid2 import Environment, RenderContext


class Recorder(Mapping):
    def __init__(self, data):
        self.data, self.looked_up = data, set()
    def __getitem__(self, key):
        self.looked_up.add(key)
        return self.data[key]
    def __iter__(self):
        return iter(self.data)
    def __len__(self):
        return len(self.data)


env = Environment()
template = env.from_string("{{ price | currency }}")
rec = Recorder({"price": 1.5, "locale": "de", "currency_code": "EUR"})
buf = StringIO()
template.render_with_context(RenderContext(template, global_data=rec), buf)
reported = set(template.analyze().globals)
missing = sorted(rec.looked_up - reported)

print("template :", "{{ price | currency }}  with globals locale='de', currency_code='EUR'")
print("rendered :", repr(buf.getvalue()), "(the globals changed the output)")
print("looked up in the global namespace at render time:", sorted(rec.looked_up))
print("expected : all of them reported by analyze().globals")
print("observed : analyze().globals =", sorted(reported), "-> missing", missing)
sys.exit(1 if missing else 0)
