"""PRE-EXISTING: the `translate` tag (and the `t`/`gettext` filters) read the
`translations` global, and message variables named only by the translated text,
from the render context. None of these lookups is reported by static analysis."""
import sys
from collections.abc import Mapping
from io import StringIO
from liquid2 import Environment, RenderContext


class Catalog:
    """A message catalog whose translation mentions a variable of its own."""
    def gettext(self, message):
        return "Hallo %(who)s" if message == "Hello" else message
    def ngettext(self, s, p, n):
        return s if n == 1 else p
    def pgettext(self, c, m):
        return m
    def npgettext(self, c, s, p, n):
        return s if n == 1 else p


class Recorder(Mapping):
    def __init__(self, data):
        self.data, self.looked_up = data, set()
    def __getitem__(self, key):
        self.looked_up.add(key)
        return self.data[key]
    def get(self, key, default=None):
        self.looked_up.add(key)
        return self.data.get(key, default)
    def __iter__(self):
        return iter(self.data)
    def __len__(self):
        return len(self.data)


env = Environment()
template = env.from_string("{% translate %}Hello{% endtranslate %}")
rec = Recorder({"translations": Catalog(), "who": "Welt"})
buf = StringIO()
template.render_with_context(RenderContext(template, global_data=rec), buf)
reported = set(template.analyze().globals)
missing = sorted(rec.looked_up - reported)

print("template :", "{% translate %}Hello{% endtranslate %}")
print("rendered :", repr(buf.getvalue()))
print("looked up in the global namespace at render time:", sorted(rec.looked_up))
print("expected : all of them reported by analyze().globals")
print("observed : analyze().globals =", sorted(reported), "-> missing", missing)
sys.exit(1 if missing else 0)
