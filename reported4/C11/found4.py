"""PRE-EXISTING: `{% include name %}` where `name` comes from environment/template
globals renders fine, but analyze() evaluates the name in a context without any
globals and raises TemplateNotFoundError instead of reporting the partial's usage."""
import asyncio
import sys
from liquid2 import DictLoader, Environment

env = Environment(
    loader=DictLoader({"main": "{% include layout %}", "wide": "{{ title | upcase }}"}),
    globals={"layout": "wide"},
)
template = env.get_template("main")
out = template.render(title="hi")
print("template : main = {% include layout %}, environment globals = {'layout': 'wide'}")
print("rendered :", repr(out), "(the partial 'wide' was loaded and rendered)")
print("expected : analyze() reports variable 'title', filter 'upcase', tag 'include'")
failed = False
for label, run in (
    ("analyze()", lambda: template.analyze()),
    ("analyze_async()", lambda: asyncio.run(template.analyze_async())),
):
    try:
        a = run()
        ok = "title" in a.globals and "upcase" in a.filters
        print(f"observed : {label} -> globals={sorted(a.globals)} filters={sorted(a.filters)}")
        failed |= not ok
    except Exception as err:
        print(f"observed : {label} raised {type(err).__name__}")
        failed = True
sys.exit(1 if failed else 0)
