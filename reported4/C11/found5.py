"""PRE-EXISTING: a partial is analyzed only the first time it is reached. If it is
rendered again with different bound names, names that are now read from the global
namespace are not reported as globals."""
import sys
from collections.abc import Mapping
from io import StringIO
from liquid2 import DictLoader, Environment, RenderContext


class Recorder(Mapping):
    def __init__(self, data):
        self.data, self.looked_up = data, set()
    def __getitem__(self, key):
        self.looked_up.add(key)
        return self.data[key]
    def __iter__(self):
        return iter(self.data)
    def __len__(self):
        return len(self.data)


templates = {
    "main": "{% render 'price', amount: 1 %}|{% render 'price' %}",
    "price": "{{ amount }}",
}
env = Environment(loader=DictLoader(templates))
template = env.get_template("main")
rec = Recorder({"amount": 99})
buf = StringIO()
template.render_with_context(RenderContext(template, global_data=rec), buf)
reported = set(template.analyze().globals)
missing = sorted(rec.looked_up - reported)

print("templates:", templates)
print("rendered :", repr(buf.getvalue()), "(second render read the global 'amount')")
print("looked up in the global namespace at render time:", sorted(rec.looked_up))
print("expected : 'amount' in analyze().globals / global_variables()")
print("observed : analyze().globals =", sorted(reported), " global_variables() =", template.global_variables())
sys.exit(1 if missing else 0)
