"""PRE-EXISTING: the span reported for the last line statement of a `{% liquid %}`
tag, when it shares its line with the closing delimiter, also covers the closing
`%}` of the enclosing liquid tag (it is not exactly the reported tag)."""
import sys
from liquid2 import Environment

source = "{% liquid assign x = 1\n  echo x -%}"
template = Environment().from_string(source)
analysis = template.analyze()
texts = {name: [source[s.start : s.end] for s in spans] for name, spans in analysis.tags.items()}

print("template :", repr(source))
print("expected : span of 'assign' == 'assign x = 1', span of 'echo' == 'echo x'")
print("observed :", {k: v for k, v in texts.items() if k != "liquid"})
bad = texts.get("echo") != ["echo x"] or texts.get("assign") != ["assign x = 1"]
sys.exit(1 if bad else 0)
