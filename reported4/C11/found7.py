"""PRE-EXISTING: a caching loader configured with `namespace_key` reads that key from
the render context's globals every time a partial is loaded during a render. The
lookup is not reported by static analysis."""
import sys
from collections.abc import Mapping
from io import StringIO
from liquid2 import CachingDictLoader, Environment, RenderContext


class Recorder(Mapping):
    def __init__(self, data):
        self.data, self.looked_up = data, set()
    def __getitem__(self, key):
        self.looked_up.add(key)
        return self.data[key]
    def __iter__(self):
        return iter(self.data)
    def __len__(self):
        return len(self.data)


loader = CachingDictLoader({"main": "{% include 'footer' %}", "footer": "bye"}, namespace_key="site")
env = Environment(loader=loader)
template = env.get_template("main")
rec = Recorder({"site": "shop-1"})
buf = StringIO()
template.render_with_context(RenderContext(template, global_data=rec), buf)
reported = set(template.analyze().globals)
missing = sorted(rec.looked_up - reported)

print("template : main = {% include 'footer' %}, loader = CachingDictLoader(namespace_key='site')")
print("rendered :", repr(buf.getvalue()))
print("looked up in the global namespace at render time:", sorted(rec.looked_up))
print("expected : 'site' reported by analyze().globals")
print("observed : analyze().globals =", sorted(reported), "-> missing", missing)
sys.exit(1 if missing else 0)
