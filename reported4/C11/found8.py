"""PRE-EXISTING: after `{% increment n %}` (or decrement) the analysis treats `n` as a
template local, but `{{ n }}` resolves globals before counters, so the render reads
the global `n`; it is not reported as a global."""
import sys
from collections.abc import Mapping
from io import StringIO
from liquid2 import Environment, RenderContext


class Recorder(Mapping):
    def __init__(self, data):
        self.data, self.looked_up = data, set()
    def __getitem__(self, key):
        self.looked_up.add(key)
        return self.data[key]
    def __iter__(self):
        return iter(self.data)
    def __len__(self):
        return len(self.data)


source = "{% increment n %} {{ n }}"
template = Environment().from_string(source)
rec = Recorder({"n": "from-globals"})
buf = StringIO()
template.render_with_context(RenderContext(template, global_data=rec), buf)
a = template.analyze()
missing = sorted(rec.looked_up - set(a.globals))

print("template :", source, " with global n='from-globals'")
print("rendered :", repr(buf.getvalue()))
print("looked up in the global namespace at render time:", sorted(rec.looked_up))
print("expected : 'n' in analyze().globals")
print("observed : analyze().globals =", sorted(a.globals), " locals =", sorted(a.locals))
sys.exit(1 if missing else 0)
