"""PRE-EXISTING: the `else` block of a `for` tag is analyzed with the loop variable
(and `forloop`) in scope, but at render time they are not bound there, so the names
are read from the global namespace without being reported as globals."""
import sys
from collections.abc import Mapping
from io import StringIO
from liquid2 import Environment, RenderContext


class Recorder(Mapping):
    def __init__(self, data):
        self.data, self.looked_up = data, set()
    def __getitem__(self, key):
        self.looked_up.add(key)
        return self.data[key]
    def __iter__(self):
        return iter(self.data)
    def __len__(self):
        return len(self.data)


source = "{% for item in cart %}{{ item }}{% else %}no {{ item }}{% endfor %}"
template = Environment().from_string(source)
rec = Recorder({"cart": [], "item": "GLOBAL-ITEM"})
buf = StringIO()
template.render_with_context(RenderContext(template, global_data=rec), buf)
a = template.analyze()
missing = sorted(rec.looked_up - set(a.globals))

print("template :", source, " with cart=[] and a global 'item'")
print("rendered :", repr(buf.getvalue()))
print("looked up in the global namespace at render time:", sorted(rec.looked_up))
print("expected : 'item' in analyze().globals")
print("observed : analyze().globals =", sorted(a.globals))
sys.exit(1 if missing else 0)
