"""An array literal in a `for` tag whose second item is a variable named like a loop
argument (`reversed`, `limit`, `offset`, `cols`), written in bracket notation.

`{% for x in a, ['reversed'] %}` loops over the two-item array [a, reversed].
str() prints the item as the bare word `reversed`, which reads back as the loop
argument: the loop now runs over `a`, reversed.

Responsible: liquid2/builtin/expressions.py, LoopExpression.__str__ /
ArrayLiteral.__str__ / Path.__str__ (LoopExpression.parse treats a comma followed by
one of those words as the start of the loop arguments).
"""

import sys

import pickle

from liquid2 import Environment


def behaviour(template, data):
    try:
        return ("ok", template.render(**data))
    except Exception as err:  # noqa: BLE001
        return ("error", type(err).__name__)


def check(source, datas, env=None, rounds=2):
    """Return 0 if `source` round trips with the same behaviour, 1 otherwise."""
    env = env or Environment()
    original = env.from_string(source)
    want = [behaviour(original, d) for d in datas]
    print(f"source:            {source!r}")
    print(f"original renders:  {want}")

    clone = pickle.loads(pickle.dumps(original))
    got = [behaviour(clone, d) for d in datas]
    if got != want:
        print(f"VIOLATION: unpickled template renders {got}")
        return 1

    current = original
    for n in range(1, rounds + 1):
        text = str(current)
        print(f"str() round {n}:     {text!r}")
        try:
            current = env.from_string(text)
        except Exception as err:  # noqa: BLE001
            first = str(err).split("\n")[0]
            print("expected: the serialised template parses and behaves like the original")
            print(f"VIOLATION: it does not parse: {type(err).__name__}: {first}")
            return 1
        got = [behaviour(current, d) for d in datas]
        if got != want:
            print(f"expected: {want}")
            print(f"VIOLATION: the reparsed template renders {got}")
            return 1

    print("no violation: behaviour preserved")
    return 0


DATA = [{}, {"a": [1, 2], "reversed": "R"}]
sys.exit(check("{% for x in a, ['reversed'] %}({{ x }}){% endfor %}", DATA))
