r"""Inside a `liquid` tag, a single quoted path segment holding an escaped backslash
followed by a double quote: x['a\\"b'] (the key is  a\"b ).

A `liquid` tag is printed from its tokens. token._quote() sees the characters \" in the
segment, takes them for an escaped double quote and switches to double quotes:
x["a\\"b"], where the string now ends after the backslash. The text does not parse.

Responsible: liquid2/token.py, _quote() (used by PathToken.__str__).
"""

import sys

import pickle

from liquid2 import Environment


def behaviour(template, data):
    try:
        return ("ok", template.render(**data))
    except Exception as err:  # noqa: BLE001
        return ("error", type(err).__name__)


def check(source, datas, env=None, rounds=2):
    """Return 0 if `source` round trips with the same behaviour, 1 otherwise."""
    env = env or Environment()
    original = env.from_string(source)
    want = [behaviour(original, d) for d in datas]
    print(f"source:            {source!r}")
    print(f"original renders:  {want}")

    clone = pickle.loads(pickle.dumps(original))
    got = [behaviour(clone, d) for d in datas]
    if got != want:
        print(f"VIOLATION: unpickled template renders {got}")
        return 1

    current = original
    for n in range(1, rounds + 1):
        text = str(current)
        print(f"str() round {n}:     {text!r}")
        try:
            current = env.from_string(text)
        except Exception as err:  # noqa: BLE001
            first = str(err).split("\n")[0]
            print("expected: the serialised template parses and behaves like the original")
            print(f"VIOLATION: it does not parse: {type(err).__name__}: {first}")
            return 1
        got = [behaviour(current, d) for d in datas]
        if got != want:
            print(f"expected: {want}")
            print(f"VIOLATION: the reparsed template renders {got}")
            return 1

    print("no violation: behaviour preserved")
    return 0


DATA = [{}, {"x": {'a\\"b': "found"}}]
sys.exit(check(r"""{% liquid echo x['a\\"b'] %}""", DATA))
