"""A bracketed (nested) path that is a single reserved word: a[true], a[nil], a[empty].

Inside brackets the lexer reads `true` as a variable name, so `a[true]` means "the item
of `a` selected by the variable `true`". str() prints the inner one-word path in its
quoted, bracketed form, giving a[['true']], which the lexer rejects.
The same happens for `{% liquid echo a[true] %}` (PathToken.__str__).

Responsible: liquid2/builtin/expressions.py, Path.__str__ (and liquid2/token.py,
PathToken.__str__): the reserved-word rule for a lone root is applied to nested paths.
"""

import sys

import pickle

from liquid2 import Environment


def behaviour(template, data):
    try:
        return ("ok", template.render(**data))
    except Exception as err:  # noqa: BLE001
        return ("error", type(err).__name__)


def check(source, datas, env=None, rounds=2):
    """Return 0 if `source` round trips with the same behaviour, 1 otherwise."""
    env = env or Environment()
    original = env.from_string(source)
    want = [behaviour(original, d) for d in datas]
    print(f"source:            {source!r}")
    print(f"original renders:  {want}")

    clone = pickle.loads(pickle.dumps(original))
    got = [behaviour(clone, d) for d in datas]
    if got != want:
        print(f"VIOLATION: unpickled template renders {got}")
        return 1

    current = original
    for n in range(1, rounds + 1):
        text = str(current)
        print(f"str() round {n}:     {text!r}")
        try:
            current = env.from_string(text)
        except Exception as err:  # noqa: BLE001
            first = str(err).split("\n")[0]
            print("expected: the serialised template parses and behaves like the original")
            print(f"VIOLATION: it does not parse: {type(err).__name__}: {first}")
            return 1
        got = [behaviour(current, d) for d in datas]
        if got != want:
            print(f"expected: {want}")
            print(f"VIOLATION: the reparsed template renders {got}")
            return 1

    print("no violation: behaviour preserved")
    return 0


DATA = [{}, {"a": {"k": "value"}, "true": "k"}]
sys.exit(check("{{ a[true] }}", DATA))
