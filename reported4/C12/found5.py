"""Inside a `liquid` tag, a variable whose name starts or ends with a non-ASCII space.

The lexer accepts any character from U+0080 to U+FFFF in a word, so `a` followed by a
no-break space (U+00A0) is one variable name. token._expression_as_string() finishes
with str.strip(), which also removes Unicode white space: the line statement is printed
as `echo a` and now outputs a different variable.

Responsible: liquid2/token.py, _expression_as_string() (used for every line statement
of a `liquid` tag).
"""

import sys

import pickle

from liquid2 import Environment


def behaviour(template, data):
    try:
        return ("ok", template.render(**data))
    except Exception as err:  # noqa: BLE001
        return ("error", type(err).__name__)


def check(source, datas, env=None, rounds=2):
    """Return 0 if `source` round trips with the same behaviour, 1 otherwise."""
    env = env or Environment()
    original = env.from_string(source)
    want = [behaviour(original, d) for d in datas]
    print(f"source:            {source!r}")
    print(f"original renders:  {want}")

    clone = pickle.loads(pickle.dumps(original))
    got = [behaviour(clone, d) for d in datas]
    if got != want:
        print(f"VIOLATION: unpickled template renders {got}")
        return 1

    current = original
    for n in range(1, rounds + 1):
        text = str(current)
        print(f"str() round {n}:     {text!r}")
        try:
            current = env.from_string(text)
        except Exception as err:  # noqa: BLE001
            first = str(err).split("\n")[0]
            print("expected: the serialised template parses and behaves like the original")
            print(f"VIOLATION: it does not parse: {type(err).__name__}: {first}")
            return 1
        got = [behaviour(current, d) for d in datas]
        if got != want:
            print(f"expected: {want}")
            print(f"VIOLATION: the reparsed template renders {got}")
            return 1

    print("no violation: behaviour preserved")
    return 0


DATA = [{}, {"a ": "nbsp", "a": "plain"}]
sys.exit(check("{% liquid echo a  %}", DATA))
