"""Pickling a template with pickle protocol 0 or 1.

The property says pickling and unpickling a template preserves its behaviour. With the
default protocol it does; with protocols 0 and 1 `pickle.dumps(template)` fails, because
`Template`, the nodes and the expressions define `__slots__` and no `__getstate__`.

Responsible: liquid2/template.py (Template.__slots__), liquid2/ast.py (Node.__slots__),
liquid2/expression.py and others.
"""

import pickle
import sys

from liquid2 import Environment

template = Environment().from_string("Hello, {{ you }}!")
want = template.render(you="World")
failed = 0
for protocol in range(pickle.HIGHEST_PROTOCOL + 1):
    try:
        clone = pickle.loads(pickle.dumps(template, protocol=protocol))
        got = clone.render(you="World")
        status = "ok" if got == want else f"renders {got!r}"
        failed += got != want
    except Exception as err:  # noqa: BLE001
        status = f"VIOLATION: {type(err).__name__}: {err}"
        failed += 1
    print(f"protocol {protocol}: {status}")

print(f"expected: every protocol gives a template that renders {want!r}")
sys.exit(1 if failed else 0)
