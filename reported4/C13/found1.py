"""Pre-existing: FileSystemLoader follows a symlinked FILE out of its search path."""

import asyncio
import os
import sys
import tempfile
from pathlib import Path

from liquid2 import CachingFileSystemLoader
from liquid2 import Environment
from liquid2 import FileSystemLoader
from liquid2 import TemplateNotFoundError

root = Path(tempfile.mkdtemp())
(root / "templates").mkdir()
(root / "secret.txt").write_text("SECRET-OUTSIDE")
os.symlink(root / "secret.txt", root / "templates" / "link.liquid")

bad = []
for cls in (FileSystemLoader, CachingFileSystemLoader):
    env = Environment(loader=cls(root / "templates"))
    for label, func in (
        ("get_template", lambda: env.get_template("link.liquid").render()),
        (
            "get_template_async",
            lambda: asyncio.run(env.get_template_async("link.liquid")).render(),
        ),
        ("include", lambda: env.from_string("{% include 'link.liquid' %}").render()),
        ("render", lambda: env.from_string("{% render 'link.liquid' %}").render()),
        ("extends", lambda: env.from_string("{% extends 'link.liquid' %}").render()),
    ):
        try:
            out = func()
        except TemplateNotFoundError:
            continue
        bad.append(f"{cls.__name__} {label}: got {out!r}")

print("input: templates/link.liquid is a symlink to ../secret.txt (outside the root)")
print("expected: TemplateNotFoundError, the name resolves outside the search path")
if bad:
    print("observed: contents of the outside file were returned:")
    for line in bad:
        print("  " + line)
    sys.exit(1)
print("observed: TemplateNotFoundError")
