"""Pre-existing: FileSystemLoader follows a symlinked DIRECTORY out of its root.

No `..` in the name, no absolute name: `up/secret.liquid` where `up -> ..`.
"""

import asyncio
import os
import sys
import tempfile
from pathlib import Path

from liquid2 import Environment
from liquid2 import FileSystemLoader
from liquid2 import TemplateNotFoundError

root = Path(tempfile.mkdtemp())
(root / "templates").mkdir()
(root / "private").mkdir()
(root / "secret.liquid").write_text("SECRET-PARENT")
(root / "private" / "s.liquid").write_text("SECRET-SIBLING")
os.symlink("..", root / "templates" / "up")
os.symlink(root / "private", root / "templates" / "shared")

env = Environment(loader=FileSystemLoader(root / "templates", ext=".liquid"))
bad = []
for name in ("up/secret.liquid", "up/private/s", "shared/s.liquid"):
    for label, func in (
        ("get_template", lambda: env.get_template(name).render()),
        (
            "get_template_async",
            lambda: asyncio.run(env.get_template_async(name)).render(),
        ),
        ("include", lambda: env.from_string("{% include n %}").render(n=name)),
    ):
        try:
            out = func()
        except TemplateNotFoundError:
            continue
        bad.append(f"{label}({name!r}): got {out!r}")

print("input: names that pass through a directory symlink pointing outside the root")
print("expected: TemplateNotFoundError, the names resolve outside the search path")
if bad:
    print("observed: contents of outside files were returned:")
    for line in bad:
        print("  " + line)
    sys.exit(1)
print("observed: TemplateNotFoundError")
