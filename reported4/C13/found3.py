"""Pre-existing: PackageLoader follows symlinks out of <package>/<package_path>."""

import asyncio
import os
import sys
import tempfile
from pathlib import Path

from liquid2 import Environment
from liquid2 import PackageLoader
from liquid2 import TemplateNotFoundError

root = Path(tempfile.mkdtemp())
pkg = root / "site" / "found3_pkg_c13"
(pkg / "templates").mkdir(parents=True)
(pkg / "__init__.py").write_text("")
(pkg / "templates" / "ok.liquid").write_text("OK")
(root / "secret.liquid").write_text("SECRET-OUTSIDE-PACKAGE")
os.symlink(root / "secret.liquid", pkg / "templates" / "link.liquid")
os.symlink(root, pkg / "templates" / "out")
sys.path.insert(0, str(root / "site"))

env = Environment(loader=PackageLoader("found3_pkg_c13"))
assert env.get_template("ok").render() == "OK"

bad = []
for name in ("link", "link.liquid", "out/secret", "out/secret.liquid"):
    for label, func in (
        ("get_template", lambda: env.get_template(name).render()),
        (
            "get_template_async",
            lambda: asyncio.run(env.get_template_async(name)).render(),
        ),
        ("render", lambda: env.from_string("{% render '" + name + "' %}").render()),
    ):
        try:
            out = func()
        except TemplateNotFoundError:
            continue
        bad.append(f"{label}({name!r}): got {out!r}")

print("input: symlinked file / directory inside <package>/templates pointing outside")
print("expected: TemplateNotFoundError, the names resolve outside the package path")
if bad:
    print("observed: contents of the outside file were returned:")
    for line in bad:
        print("  " + line)
    sys.exit(1)
print("observed: TemplateNotFoundError")
