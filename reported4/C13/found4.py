"""Pre-existing (lower confidence): caching loaders keep serving a template from a
directory that is no longer one of the loader's search directories."""

import sys
import tempfile
from pathlib import Path

from liquid2 import CachingChoiceLoader
from liquid2 import CachingFileSystemLoader
from liquid2 import Environment
from liquid2 import FileSystemLoader
from liquid2 import TemplateNotFoundError

root = Path(tempfile.mkdtemp())
(root / "public").mkdir()
(root / "staff").mkdir()
(root / "public" / "index.liquid").write_text("INDEX")
(root / "staff" / "report.liquid").write_text("STAFF-ONLY")

bad = []

loader = CachingFileSystemLoader([root / "public", root / "staff"])
env = Environment(loader=loader)
assert env.get_template("report.liquid").render() == "STAFF-ONLY"
loader.search_path = [root / "public"]  # reconfigure: `staff` is no longer a root
try:
    out = env.get_template("report.liquid").render()
    bad.append(f"CachingFileSystemLoader: got {out!r} from {root / 'staff'}")
except TemplateNotFoundError:
    pass

public, staff = FileSystemLoader(root / "public"), FileSystemLoader(root / "staff")
choice = CachingChoiceLoader([public, staff])
env = Environment(loader=choice)
assert env.get_template("report.liquid").render() == "STAFF-ONLY"
choice.loaders.remove(staff)
try:
    out = env.get_template("report.liquid").render()
    bad.append(f"CachingChoiceLoader: got {out!r} from {root / 'staff'}")
except TemplateNotFoundError:
    pass

print("input: load report.liquid, drop its directory from the search path, load again")
print("expected: TemplateNotFoundError, no configured directory holds report.liquid")
if bad:
    print("observed: the cached template is still returned:")
    for line in bad:
        print("  " + line)
    sys.exit(1)
print("observed: TemplateNotFoundError")
