"""A cache hit rewrites the globals of the template object an earlier caller still holds.

Caller 1 loads "a" with globals {x: 1}; caller 2 loads "a" with globals {x: 2};
caller 1 then renders the template it was given.  With the uncached loader each
caller has its own template and caller 1 gets "x=1".  The caching loader hands both
callers the same Template object and overwrites its global_data on every hit, so
caller 2's globals are carried into caller 1's render.
"""
import sys

from liquid2 import CachingDictLoader
from liquid2 import DictLoader
from liquid2 import Environment

SOURCES = {"a": "x={{ x }}"}


def history(loader):
    env = Environment(loader=loader)
    t1 = env.get_template("a", globals={"x": 1})  # caller 1 loads
    t2 = env.get_template("a", globals={"x": 2})  # caller 2 loads
    return t1.render(), t2.render()  # caller 1 renders, caller 2 renders


expected = history(DictLoader(SOURCES))
observed = history(CachingDictLoader(SOURCES))
print("expected (uncached):", expected)
print("observed (cached):  ", observed)
sys.exit(0 if observed == expected else 1)
