"""Loading a partial resets the globals of a cached template a caller still holds.

A caller loads "a" with globals {x: 1} and keeps the template.  Some other template
is then rendered that happens to {% include 'a' %} (a {% render %} or a static
analysis of a template that includes "a" does the same).  The include is a cache hit
for "a" and sets the shared Template's global_data to the environment globals, so
the first caller's next render has lost x.  Same root cause as found1 (a hit mutates
the shared Template), but no second caller with globals is needed.
"""
import sys

from liquid2 import CachingDictLoader
from liquid2 import DictLoader
from liquid2 import Environment

SOURCES = {"a": "x={{ x }}", "b": "[{% include 'a' %}]"}


def history(loader):
    env = Environment(loader=loader)
    held = env.get_template("a", globals={"x": 1})
    first = held.render()
    other = env.get_template("b").render()
    second = held.render()
    return first, other, second


expected = history(DictLoader(SOURCES))
observed = history(CachingDictLoader(SOURCES))
print("expected (uncached):", expected)
print("observed (cached):  ", observed)
sys.exit(0 if observed == expected else 1)
