"""loader.load() on a cache hit drops the environment's globals.

BaseLoader.load(env, name) binds the environment globals to the template (through
Environment.from_string).  CachingLoaderMixin does that on a miss only: on a hit it
sets template.global_data to `globals or {}`, so the second direct load of the same
name renders without the environment globals.  (Environment.get_template hides this
by merging the environment globals itself before calling the loader.)
"""
import asyncio
import sys

from liquid2 import CachingDictLoader
from liquid2 import DictLoader
from liquid2 import Environment

SOURCES = {"a": "site={{ site }} x={{ x }}"}


def history(loader):
    env = Environment(loader=loader, globals={"site": "S"})
    out = [
        loader.load(env, "a").render(),
        loader.load(env, "a").render(),
        loader.load(env, "a", globals={"x": 1}).render(),
    ]

    async def coro():
        return await (await loader.load_async(env, "a")).render_async()

    out.append(asyncio.run(coro()))
    return out


expected = history(DictLoader(SOURCES))
observed = history(CachingDictLoader(SOURCES))
print("expected (uncached):", expected)
print("observed (cached):  ", observed)
sys.exit(0 if observed == expected else 1)
