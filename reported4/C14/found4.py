"""A file added to an earlier search path does not invalidate the cached template.

search_path = [p1, p2]; "a" exists in p2 only and is loaded; then "a" is created in
p1, which has priority.  The uncached loader now produces p1/a.  The cached entry's
freshness check only stats p2/a (unchanged), so CachingFileSystemLoader with
auto_reload=True keeps producing p2/a.
"""
import os
import sys
import tempfile
from pathlib import Path

from liquid2 import CachingFileSystemLoader
from liquid2 import Environment
from liquid2 import FileSystemLoader


def history(make_loader):
    with tempfile.TemporaryDirectory() as tmp:
        p1, p2 = Path(tmp) / "p1", Path(tmp) / "p2"
        p1.mkdir()
        p2.mkdir()
        (p2 / "a").write_text("from p2")
        os.utime(p2 / "a", (1_700_000_000, 1_700_000_000))
        env = Environment(loader=make_loader([p1, p2]))
        out = [env.get_template("a").render()]
        (p1 / "a").write_text("from p1")
        os.utime(p1 / "a", (1_700_000_060, 1_700_000_060))
        out.append(env.get_template("a").render())
        return out


expected = history(FileSystemLoader)
observed = history(lambda paths: CachingFileSystemLoader(paths, auto_reload=True))
print("expected (uncached):", expected)
print("observed (cached):  ", observed)
sys.exit(0 if observed == expected else 1)
