"""CachingChoiceLoader keeps serving a template that an earlier loader now shadows.

loaders = [FileSystemLoader(overlay), FileSystemLoader(base)]; "a" exists in base
only and is loaded; then "a" is written to overlay.  The uncached ChoiceLoader now
produces overlay/a.  The cached entry carries the freshness check of base/a only, so
CachingChoiceLoader (auto_reload=True, freshness information available) keeps
producing base/a.
"""
import os
import sys
import tempfile
from pathlib import Path

from liquid2 import CachingChoiceLoader
from liquid2 import ChoiceLoader
from liquid2 import Environment
from liquid2 import FileSystemLoader


def history(cls):
    with tempfile.TemporaryDirectory() as tmp:
        overlay, base = Path(tmp) / "overlay", Path(tmp) / "base"
        overlay.mkdir()
        base.mkdir()
        (base / "a").write_text("base a")
        os.utime(base / "a", (1_700_000_000, 1_700_000_000))
        env = Environment(loader=cls([FileSystemLoader(overlay), FileSystemLoader(base)]))
        out = [env.get_template("a").render()]
        (overlay / "a").write_text("overlay a")
        os.utime(overlay / "a", (1_700_000_060, 1_700_000_060))
        out.append(env.get_template("a").render())
        return out


expected = history(ChoiceLoader)
observed = history(CachingChoiceLoader)
print("expected (uncached):", expected)
print("observed (cached):  ", observed)
sys.exit(0 if observed == expected else 1)
