"""The cache key "<namespace>/<name>" lets a namespaced load collide with a plain path.

With namespace_key="uid": loading "x/s" with no namespace uses the key "x/s", and
loading "s" in namespace "x" uses the key "x/s" too.  The file system loader ignores
the namespace, so the second load should produce the top level file "s"; instead the
entry cached for "x/s" is served - a template loaded for one (the empty) namespace
is served to another.  (uid=1 and uid="1" share a key for the same reason.)
"""
import sys
import tempfile
from pathlib import Path

from liquid2 import CachingFileSystemLoader
from liquid2 import Environment
from liquid2 import FileSystemLoader


def history(make_loader):
    with tempfile.TemporaryDirectory() as tmp:
        root = Path(tmp)
        (root / "x").mkdir()
        (root / "x" / "s").write_text("file x/s")
        (root / "s").write_text("file s")
        env = Environment(loader=make_loader(root))
        return [
            env.get_template("x/s").render(),
            env.get_template("s", uid="x").render(),
        ]


expected = history(FileSystemLoader)
observed = history(lambda root: CachingFileSystemLoader(root, namespace_key="uid"))
print("expected (uncached):", expected)
print("observed (cached):  ", observed)
sys.exit(0 if observed == expected else 1)
