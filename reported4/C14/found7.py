"""A source replaced by a file with the same modification time is never reloaded.

Freshness is `mtime == stat().st_mtime` and nothing else.  Template trees deployed
with normalised timestamps (reproducible builds / SOURCE_DATE_EPOCH, `cp -p`,
`rsync -t`, tar extraction) replace files without changing mtime: here "a" is
replaced by a different file, of a different size, whose mtime is the same.  The
uncached loader produces the new source; CachingFileSystemLoader with
auto_reload=True keeps producing the old one.
"""
import os
import sys
import tempfile
from pathlib import Path

from liquid2 import CachingFileSystemLoader
from liquid2 import Environment
from liquid2 import FileSystemLoader

EPOCH = (1_700_000_000, 1_700_000_000)


def history(make_loader):
    with tempfile.TemporaryDirectory() as tmp:
        root = Path(tmp)
        (root / "a").write_text("release 1")
        os.utime(root / "a", EPOCH)
        env = Environment(loader=make_loader(root))
        out = [env.get_template("a").render()]

        staged = root / "a.new"
        staged.write_text("release 2, with more text")
        os.utime(staged, EPOCH)
        os.replace(staged, root / "a")  # different inode, size and content

        out.append(env.get_template("a").render())
        return out


expected = history(FileSystemLoader)
observed = history(lambda root: CachingFileSystemLoader(root, auto_reload=True))
print("expected (uncached):", expected)
print("observed (cached):  ", observed)
sys.exit(0 if observed == expected else 1)
