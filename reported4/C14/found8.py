"""The cache key ignores loader keyword arguments, so the caching loader the docs
tell you to write (docs/loading_templates.md, "Load context") is not transparent.

SnippetsFileSystemLoader is copied from the documentation: templates loaded by
{% include %} / {% render %} come from the "snippets" sub folder, chosen by the
`tag` keyword argument.  Built on FileSystemLoader it does what it says.  Built on
CachingFileSystemLoader, as documented, the cache key is the bare name, so whichever
of "card" (top level) and "snippets/card" is loaded first is served for both.
"""
import sys
import tempfile
from pathlib import Path

from liquid2 import CachingFileSystemLoader
from liquid2 import Environment
from liquid2 import FileSystemLoader
from liquid2 import RenderContext
from liquid2 import TemplateSource


def snippets_loader(base):
    class SnippetsFileSystemLoader(base):
        def get_source(
            self,
            env: Environment,
            template_name: str,
            *,
            context: RenderContext | None = None,
            **kwargs: object,
        ) -> TemplateSource:
            if kwargs.get("tag") in ("include", "render"):
                snippet = Path("snippets").joinpath(template_name)
                return super().get_source(
                    env, template_name=str(snippet), context=context, **kwargs
                )
            return super().get_source(
                env, template_name=template_name, context=context, **kwargs
            )

    return SnippetsFileSystemLoader


def history(base):
    with tempfile.TemporaryDirectory() as tmp:
        root = Path(tmp)
        (root / "snippets").mkdir()
        (root / "card").write_text("PAGE card")
        (root / "snippets" / "card").write_text("SNIPPET card")
        (root / "index").write_text("index: {% render 'card' %}")
        env = Environment(loader=snippets_loader(base)(root))
        return [
            env.get_template("card").render(),
            env.get_template("index").render(),
        ]


expected = history(FileSystemLoader)
observed = history(CachingFileSystemLoader)
print("expected (uncached):", expected)
print("observed (cached):  ", observed)
sys.exit(0 if observed == expected else 1)
