"""BORDERLINE: a failed reload promotes a dead entry to most-recently-used, so a
live entry is evicted in its place and the dead entry is never dropped.

capacity=2, auto_reload=True: load a, load b, delete a's source, load a (the reload
fails with TemplateNotFoundError, as it should), load c.  An LRU model that counts
successful loads as "uses" evicts a (last used at step 1) and keeps b (used at step
2).  The library's failed lookup of a moves it to the front of the cache, so b is
evicted and the unservable entry for a stays.  Rendered outputs still agree with the
uncached loader, because auto_reload re-checks a on every load; the difference is
visible in the cache contents only, and depends on whether a failed load counts as
a "use" in the reference model.
"""
import os
import sys
import tempfile
from pathlib import Path

from liquid2 import CachingFileSystemLoader
from liquid2 import Environment
from liquid2 import TemplateNotFoundError

with tempfile.TemporaryDirectory() as tmp:
    root = Path(tmp)
    for i, name in enumerate("abc"):
        (root / name).write_text(name)
        os.utime(root / name, (1_700_000_000 + i, 1_700_000_000 + i))

    loader = CachingFileSystemLoader(root, auto_reload=True, capacity=2)
    env = Environment(loader=loader)
    env.get_template("a").render()
    env.get_template("b").render()
    (root / "a").unlink()
    try:
        env.get_template("a")
    except TemplateNotFoundError:
        pass
    else:
        raise AssertionError("expected TemplateNotFoundError")
    env.get_template("c").render()

    observed = sorted(loader.cache.keys())
    expected = ["b", "c"]
    print("expected cache contents (LRU, last successful use):", expected)
    print("observed cache contents:                           ", observed)
    sys.exit(0 if observed == expected else 1)
