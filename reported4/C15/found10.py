"""Line numbers reported by extraction count every str.splitlines() boundary (form feed,
vertical tab, U+2028, U+0085, ...) as a new line, not only newlines.  A template that is
a single line for gettext tools and editors (no "\\n" at all) gets its message reported
on line 2.  messages.line_number() and messages.line_number_factory() use
source.splitlines(keepends=True).
"""

import sys

from liquid2 import Environment
from liquid2.messages import extract_from_template

env = Environment()
bad = False

for source in [
    "page one\x0cpage two {{ 'Open' | t }}",
    "page one\x0cpage two {% translate %}Open{% endtranslate %}",
]:
    template = env.from_string(source)
    expected = source.count("\n", 0, source.index("{")) + 1
    messages = list(extract_from_template(template))
    print("template:", repr(source))
    print("expected line of the message:", expected, "(the source contains no newline)")
    print("reported:", [(m.funcname, m.message, m.lineno) for m in messages])
    if [m.lineno for m in messages] != [expected]:
        bad = True
        print("VIOLATION: wrong line number")
    print()

sys.exit(1 if bad else 0)
