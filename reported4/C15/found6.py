"""pgettext / ngettext / t filters applied to a string literal, with an integer literal
as context or plural: the render stringifies the literal and looks it up
(pgettext('1', 'Open')), extraction reports nothing for the expression.
PGetText.message(), NGetText.message(), NPGetText.message() and the plural branch
of Translate.message() only accept StringLiteral arguments."""

import sys

from liquid2 import DictLoader
from liquid2 import Environment
from liquid2.messages import extract_from_template


class RecordingCatalog:
    """An instrumented catalog that records every lookup a render makes."""

    def __init__(self):
        self.calls = []

    def gettext(self, message):
        self.calls.append(("gettext", (str(message),)))
        return message

    def ngettext(self, singular, plural, n):
        self.calls.append(("ngettext", (str(singular), str(plural))))
        return singular if n == 1 else plural

    def pgettext(self, ctx, message):
        self.calls.append(("pgettext", (str(ctx), str(message))))
        return message

    def npgettext(self, ctx, singular, plural, n):
        self.calls.append(("npgettext", (str(ctx), str(singular), str(plural))))
        return singular if n == 1 else plural


def reported(template, **kwargs):
    """(funcname, (context?, msgid, plural?)) for every extracted message."""
    out = []
    for m in extract_from_template(template, **kwargs):
        parts = tuple(p[0] if isinstance(p, tuple) else p for p in m.message)
        out.append((m.funcname, parts))
    return out


def check(env, source, data=None):
    template = env.from_string(source)
    catalog = RecordingCatalog()
    template.render(translations=catalog, **(data or {}))
    got = reported(template)
    missing = [c for c in catalog.calls if c not in got]
    print("template:          ", repr(source))
    print("data:              ", data or {})
    print("render looked up:  ", catalog.calls)
    print("extraction reports:", got)
    print("expected: every lookup above is reported with the same function family")
    if missing:
        print("VIOLATION, not reported:", missing)
    return bool(missing)


env = Environment()
bad = check(env, "{{ 'Open' | pgettext: 1 }}")
print()
bad |= check(env, "{{ 'File' | ngettext: 2, 2 }}")
print()
bad |= check(env, "{{ 'File' | t: plural: 5, count: 3 }}")
sys.exit(1 if bad else 0)
