"""extract_from_templates() raises KeyError on a template that parses when it is given
a custom `keywords` mapping that names the Liquid filters/tags to extract (which is what
the docstring of `extract_liquid` says keywords are) but not the gettext family names.

The translation filters and the translate tag report their messages under the funcnames
gettext/ngettext/pgettext/npgettext, and extract_from_templates() does
`keywords[funcname]` without a fallback.  Property: extraction never fails on a template
that parses.
"""

import sys

from liquid2 import Environment
from liquid2.messages import extract_from_templates

env = Environment()
bad = False

for source, keywords in [
    ("{{ 'Open' | t: 'menu' }}", {"t": None}),
    ("{% translate %}Hello{% endtranslate %}", {"translate": None}),
]:
    template = env.from_string(source)
    print("template:", repr(source), "keywords:", keywords)
    print("expected: a catalog (possibly without the message), no exception")
    try:
        catalog = extract_from_templates(template, keywords=keywords)
    except Exception as err:  # noqa: BLE001
        bad = True
        print(f"VIOLATION, extraction raised {type(err).__name__}: {err}")
    else:
        print("got:", [m.id for m in catalog if m.id])
    print()

sys.exit(1 if bad else 0)
