"""Catalog lookups made while rendering a template through `render`, `include` and
`extends`/`block.super` are not reported by message extraction for that template:
messages.extract_from_template() walks the tree with include_partials=False, so
everything a partial or a parent template looks up during *this* template's render is
missing from its extraction result.
"""

import sys

from liquid2 import DictLoader
from liquid2 import Environment
from liquid2.messages import extract_from_template


class RecordingCatalog:
    def __init__(self):
        self.calls = []

    def gettext(self, message):
        self.calls.append(("gettext", (str(message),)))
        return message

    def ngettext(self, singular, plural, n):
        self.calls.append(("ngettext", (str(singular), str(plural))))
        return singular if n == 1 else plural

    def pgettext(self, ctx, message):
        self.calls.append(("pgettext", (str(ctx), str(message))))
        return message

    def npgettext(self, ctx, singular, plural, n):
        self.calls.append(("npgettext", (str(ctx), str(singular), str(plural))))
        return singular if n == 1 else plural


env = Environment(
    loader=DictLoader(
        {
            "footer": "{{ 'Imprint' | t }}",
            "base": "{% block body %}{{ 'Welcome' | t }}{% endblock %}",
        }
    )
)

bad = False
for source in [
    "{% render 'footer' %}",
    "{% include 'footer' %}",
    "{% extends 'base' %}{% block body %}{{ block.super }}!{% endblock %}",
]:
    template = env.from_string(source)
    catalog = RecordingCatalog()
    template.render(translations=catalog)
    got = [
        (m.funcname, tuple(p[0] if isinstance(p, tuple) else p for p in m.message))
        for m in extract_from_template(template)
    ]
    missing = [c for c in catalog.calls if c not in got]
    print("template:          ", repr(source))
    print("render looked up:  ", catalog.calls)
    print("extraction reports:", got)
    print("expected: every lookup the render makes is reported")
    if missing:
        bad = True
        print("VIOLATION, not reported:", missing)
    print()

sys.exit(1 if bad else 0)
