"""`truncatewords` filter: an `end` argument that is an array holding a missing variable
is stringified with str(list)."""

import sys

from liquid2 import Environment
from liquid2 import FalsyStrictUndefined
from liquid2 import StrictUndefined
from liquid2 import Undefined
from liquid2.exceptions import LiquidError
from liquid2.exceptions import UndefinedError

SOURCE = "{% assign tail = '.', more %}{{ title | truncatewords: 1, tail }}"
DATA = {'title': 'one two three'}


def render(policy):
    template = Environment(undefined=policy).from_string(SOURCE)
    try:
        return "ok", template.render(**DATA)
    except UndefinedError as err:
        return "UndefinedError", str(err).splitlines()[0]
    except LiquidError as err:
        return type(err).__name__, str(err).splitlines()[0]


default = render(Undefined)
strict = render(StrictUndefined)
falsy = render(FalsyStrictUndefined)

print("template:", SOURCE)
print("data:    ", DATA)
print("default policy:      ", default)
print("StrictUndefined:     ", strict)
print("FalsyStrictUndefined:", falsy)

print("expected: a strict render either raises UndefinedError or equals the default render,")
print("          and the default render treats the missing variable as nil/empty")
bad = [r for r in (strict, falsy) if r[0] == "ok" and r != default]
if bad:
    print("VIOLATION: strict render succeeded with output that differs from the default policy")
    sys.exit(1)
print("no violation")
