"""`date` filter: with a missing format string the input is returned as str(input); an
array input holding a missing variable leaks the undefined repr."""

import sys

from liquid2 import Environment
from liquid2 import FalsyStrictUndefined
from liquid2 import StrictUndefined
from liquid2 import Undefined
from liquid2.exceptions import LiquidError
from liquid2.exceptions import UndefinedError

SOURCE = '{% assign when = created, updated %}{{ when | date: fmt }}'
DATA = {'created': '2020-01-02'}


def render(policy):
    template = Environment(undefined=policy).from_string(SOURCE)
    try:
        return "ok", template.render(**DATA)
    except UndefinedError as err:
        return "UndefinedError", str(err).splitlines()[0]
    except LiquidError as err:
        return type(err).__name__, str(err).splitlines()[0]


default = render(Undefined)
strict = render(StrictUndefined)
falsy = render(FalsyStrictUndefined)

print("template:", SOURCE)
print("data:    ", DATA)
print("default policy:      ", default)
print("StrictUndefined:     ", strict)
print("FalsyStrictUndefined:", falsy)

print("expected: a strict render either raises UndefinedError or equals the default render,")
print("          and the default render treats the missing variable as nil/empty")
bad = [r for r in (strict, falsy) if r[0] == "ok" and r != default]
if bad:
    print("VIOLATION: strict render succeeded with output that differs from the default policy")
    sys.exit(1)
print("no violation")
