"""`json` filter: under the DEFAULT undefined policy a missing variable does not behave
as nil/empty. `nil | json` is "null" and an empty string is '""', but a missing variable
makes the render fail with a LiquidTypeError (and the strict policies fail with that
LiquidTypeError too, rather than with UndefinedError)."""

import sys

from liquid2 import Environment
from liquid2 import StrictUndefined
from liquid2 import Undefined
from liquid2.exceptions import LiquidError

SOURCE = "{{ cart.note | json }}"


def render(policy, data):
    template = Environment(undefined=policy).from_string(SOURCE)
    try:
        return "ok", template.render(**data)
    except LiquidError as err:
        return type(err).__name__, str(err).splitlines()[0]


nil = render(Undefined, {"cart": {"note": None}})
missing = render(Undefined, {"cart": {}})
strict = render(StrictUndefined, {"cart": {}})

print("template:", SOURCE)
print("default policy, cart.note is nil:     ", nil)
print("default policy, cart.note is missing: ", missing)
print("StrictUndefined, cart.note is missing:", strict)
print("expected: with the default policy the missing variable behaves as nil/empty,")
print("          so the render succeeds (with 'null', like nil)")

if missing[0] != "ok":
    print("VIOLATION: the default policy fails the render because a variable is missing")
    sys.exit(1)
print("no violation")
