"""`call` tag: calling a macro that has not been defined (yet) raises UndefinedError
under the strict policies although the template uses no variable, property or index
at all, so nothing can be missing from the data. The default policy renders ''."""

import sys

from liquid2 import Environment
from liquid2 import FalsyStrictUndefined
from liquid2 import StrictUndefined
from liquid2 import Undefined
from liquid2.exceptions import LiquidError

# The macro is defined after it is called. No variables are referenced anywhere.
SOURCE = "{% call footer %}{% macro footer %}(c) 2020{% endmacro %}"
DATA = {}


def render(policy):
    template = Environment(undefined=policy).from_string(SOURCE)
    try:
        return "ok", template.render(**DATA)
    except LiquidError as err:
        return type(err).__name__, str(err).splitlines()[0]


default = render(Undefined)
strict = render(StrictUndefined)
falsy = render(FalsyStrictUndefined)

print("template:", SOURCE)
print("data:    ", DATA)
print("default policy:      ", default)
print("StrictUndefined:     ", strict)
print("FalsyStrictUndefined:", falsy)
print("expected: no UndefinedError, the template does not use any variable, property")
print("          or index, so the strict render succeeds and equals the default render")

if strict[0] == "UndefinedError" or falsy[0] == "UndefinedError":
    print("VIOLATION: UndefinedError without a missing variable")
    sys.exit(1)
print("no violation")
