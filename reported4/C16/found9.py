"""`for` tag: the `forloop` drop of a top-level loop stores an undefined object as its
`parentloop` value and exposes it when the drop itself is iterated. Rendering the drop's
(key, value) pairs raises UndefinedError under the strict policies although every
variable the template references (`items`, `forloop`, `pair`) exists."""

import sys

from liquid2 import Environment
from liquid2 import FalsyStrictUndefined
from liquid2 import StrictUndefined
from liquid2 import Undefined
from liquid2.exceptions import LiquidError

SOURCE = (
    "{% for item in items %}"
    "{% for pair in forloop %}{{ pair | join: '=' }} {% endfor %}"
    "{% endfor %}"
)
DATA = {"items": ["a"]}


def render(policy):
    template = Environment(undefined=policy).from_string(SOURCE)
    try:
        return "ok", template.render(**DATA)
    except LiquidError as err:
        return type(err).__name__, str(err).splitlines()[0]


default = render(Undefined)
strict = render(StrictUndefined)
falsy = render(FalsyStrictUndefined)

print("template:", SOURCE)
print("data:    ", DATA)
print("default policy:      ", default)
print("StrictUndefined:     ", strict)
print("FalsyStrictUndefined:", falsy)
print("expected: no UndefinedError, no variable that the template references is missing")

if strict[0] == "UndefinedError" or falsy[0] == "UndefinedError":
    print("VIOLATION: UndefinedError without a missing variable")
    sys.exit(1)
print("no violation")
