"""A `..` outside parentheses leaves the lexer's "in a range" flag set, so the
syntax error is reported at a later, perfectly valid, construct."""

import sys

from liquid2 import Environment
from liquid2.exceptions import LiquidSyntaxError

env = Environment()

good_line = "{% if (a and b) or c %}ok{% endif %}"
env.from_string(good_line)  # valid on its own

source = "{% if a..b %}{% endif %}\n" + good_line
try:
    env.from_string(source)
except LiquidSyntaxError as err:
    line, col = err.context()[:2]
    print("source:", repr(source))
    print("expected: a syntax error located on line 1 (at `a..b`, the only invalid markup)")
    print(f"observed: {err.message!r} at line {line}, column {col}:",
          repr(source[err.token.start : err.token.stop]))
    if line != 1:
        print("VIOLATION: the position refers to a valid construct on another line")
        sys.exit(1)
    sys.exit(0)

print("no error raised")
sys.exit(0)
