"""The span of an interpolated template string token covers its closing quote
but not its opening quote, so it is not the text the token was scanned from."""

import sys

from liquid2 import Environment

env = Environment()
source = '{{ "a${b}c" }}'
output = env.tokenize(source)[0]
token = output.expression[0]
text = source[token.start : token.stop]

print(f"source: {source!r}")
print("expected span: '\"a${b}c\"' (with both quotes) or 'a${b}c' (with neither, "
      "like a plain string token)")
print(f"observed span: [{token.start}:{token.stop}] = {text!r}")

if text not in ('"a${b}c"', "a${b}c"):
    print("VIOLATION: span is not the scanned text")
    sys.exit(1)
