"""An error raised inside a macro that was defined in an included partial is
reported under the calling template's name, with an offset into the partial."""

import sys

from liquid2 import DictLoader
from liquid2 import Environment
from liquid2.exceptions import LiquidError

sources = {
    "macros": "{# helpers #}\n\n\n{% macro price x %}{{ x | divided_by: 0 }}{% endmacro %}",
    "main": "{% include 'macros' %}\n{% call price 1 %}",
}
env = Environment(loader=DictLoader(sources))

try:
    env.get_template("main").render()
except LiquidError as err:
    name = err.template_name
    start = err.token.start
    line, col = err.context()[:2]
    print(f"observed: {err.message!r} reported at {name}:{line}:{col} (offset {start})")
    print("expected: a position inside the template the error names")
    named = sources[name]
    if err.token.source != named or start >= len(named):
        print(f"VIOLATION: {name!r} is {len(named)} characters / "
              f"{named.count(chr(10)) + 1} lines long; the offset belongs to 'macros'")
        sys.exit(1)
    sys.exit(0)

print("no error raised")
