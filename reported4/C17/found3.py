"""An error raised while rendering a child template's overriding block is
reported under the *base* template's name, with a position in the child."""

import sys

from liquid2 import DictLoader
from liquid2 import Environment
from liquid2 import StrictUndefined
from liquid2.exceptions import LiquidError

sources = {
    "base": "<h1>{% block title %}{% endblock %}</h1>",
    "child": "{% extends 'base' %}\n\n\n\n{% block title %}{{ nosuch }}{% endblock %}",
}
env = Environment(loader=DictLoader(sources), undefined=StrictUndefined)

try:
    env.get_template("child").render()
except LiquidError as err:
    name = err.template_name
    line, col = err.context()[:2]
    print(f"observed: {err.message!r} reported at {name}:{line}:{col} "
          f"(offset {err.token.start})")
    print("expected: child:5:20, or at least a position inside the named template")
    named = sources[name]
    if err.token.source != named:
        print(f"VIOLATION: {name!r} has {named.count(chr(10)) + 1} line(s) and "
              f"{len(named)} characters; the position is in 'child'")
        sys.exit(1)
    sys.exit(0)

print("no error raised")
