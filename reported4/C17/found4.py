"""A duplicate block in a parent template is reported under the name of the
leaf template that extends it."""

import sys

from liquid2 import DictLoader
from liquid2 import Environment
from liquid2.exceptions import LiquidError

sources = {
    "layout": "\n\n\n\n{% block a %}{% endblock %} {% block a %}{% endblock %}",
    "page": "{% extends 'layout' %}",
}
env = Environment(loader=DictLoader(sources))

try:
    env.get_template("page").render()
except LiquidError as err:
    name = err.template_name
    line, col = err.context()[:2]
    print(f"observed: {err.message!r} reported at {name}:{line}:{col} "
          f"(offset {err.token.start})")
    print("expected: layout:5:27")
    named = sources[name]
    if err.token.source != named:
        print(f"VIOLATION: {name!r} is one line of {len(named)} characters; "
              "the position is in 'layout'")
        sys.exit(1)
    sys.exit(0)

print("no error raised")
