"""A strict undefined value handed to a partial raises inside the partial, named
for the partial, but carrying the parent's token."""

import sys

from liquid2 import DictLoader
from liquid2 import Environment
from liquid2 import StrictUndefined
from liquid2.exceptions import LiquidError

sources = {
    "card": "\n\n\n\n<b>{{ title }}</b>",
    "main": "{% render 'card', title: nosuch %}",
}
env = Environment(loader=DictLoader(sources), undefined=StrictUndefined)

try:
    env.get_template("main").render()
except LiquidError as err:
    name = err.template_name
    line, col, _, current, _ = err.context()
    print(f"observed: {err.message!r} reported at {name}:{line}:{col}, "
          f"showing line {current!r}")
    print("expected: a position in the template that is named "
          "(card:5:6 for the use, or main:1:25 for the origin)")
    if err.token.source != sources[name]:
        print(f"VIOLATION: line {line} of {name!r} is "
              f"{sources[name].splitlines()[line - 1]!r}, not {current!r}")
        sys.exit(1)
    sys.exit(0)

print("no error raised")
