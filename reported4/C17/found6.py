"""Static analysis: a missing template referenced from a partial is reported
under the root template's name, at an offset beyond the root template's end."""

import sys

from liquid2 import DictLoader
from liquid2 import Environment
from liquid2.exceptions import LiquidError

sources = {
    "main": "{% include 'a' %}",
    "a": "\n\n\n\n      {% include 'nosuch' %}",
}
env = Environment(loader=DictLoader(sources))

try:
    env.get_template("main").analyze()
except LiquidError as err:
    name = err.template_name
    line, col = err.context()[:2]
    print(f"observed: {type(err).__name__} reported at {name}:{line}:{col} "
          f"(offset {err.token.start})")
    print("expected: a:5:17")
    named = sources[name]
    if err.token.source != named or err.token.start >= len(named):
        print(f"VIOLATION: {name!r} is only {len(named)} characters long")
        sys.exit(1)
    sys.exit(0)

print("no error raised")
