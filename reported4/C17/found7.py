"""Errors found at the end of a token stream carry the shared EOI token: offset
-1 in an empty source, so they have no line or column at all."""

import sys

from liquid2 import Environment
from liquid2.exceptions import LiquidSyntaxError

env = Environment()
bad = 0

for source in ("line one\nline two\n{% if a %}never closed", "{{ a | }}", "{% assign x = %}"):
    try:
        env.from_string(source)
    except LiquidSyntaxError as err:
        token = err.token
        print(f"source {source!r}: {err.message!r}")
        print(f"  expected: a token inside the source (0 <= start < {len(source)})")
        print(f"  observed: start={token.start} stop={token.stop} "
              f"token.source={token.source!r} context={err.context()!r}")
        if not (0 <= token.start <= token.stop <= len(source)) or token.source != source:
            bad += 1

if bad:
    print(f"VIOLATION: {bad} errors carry a position outside their source")
    sys.exit(1)
