r"""The index quoted in an escape sequence error is wrong for a single quoted
string that contains `\'` before the bad escape."""

import re
import sys

from liquid2 import Environment
from liquid2.exceptions import LiquidSyntaxError

env = Environment()
bad = 0

for source in (r'''{{ "it\"s \u00" }}''', r"""{{ 'it\'s \u00' }}"""):
    try:
        env.from_string(source)
    except LiquidSyntaxError as err:
        index = int(re.search(r"at index (\d+)", str(err.message)).group(1))
        expected = source.index("\\u")
        print(f"source {source!r}: {err.message!r}")
        print(f"  expected index {expected} ({source[expected:expected + 4]!r}), "
              f"observed {index} ({source[index:index + 4]!r})")
        if index != expected:
            bad += 1

if bad:
    print("VIOLATION: the reported index does not point at the escape sequence")
    sys.exit(1)
