"""Line numbers are counted with str.splitlines(), which also breaks lines at
form feed, U+2028, U+0085 etc., so errors are placed on lines the source does
not have."""

import sys

from liquid2 import Environment
from liquid2 import StrictUndefined
from liquid2.exceptions import LiquidError

env = Environment(undefined=StrictUndefined)
source = "Section one\u2028continues\x0c{{ nosuch }}\n"
newline_count = source.count("\n")

try:
    env.from_string(source).render()
except LiquidError as err:
    line, col = err.context()[:2]
    print(f"source: {source!r} ({newline_count} newline character, at the very end)")
    print(f"expected: 1:{source.index('nosuch')}")
    print(f"observed: {line}:{col}")
    if line > newline_count + 1:
        print("VIOLATION: the reported line does not exist in the source")
        sys.exit(1)
    sys.exit(0)

print("no error raised")
