"""Pre-existing violation: a `-` marker written directly after a name is read as
part of the name.

`{{ a -}}` and `{{a-}}` should differ from `{{ a }}` only in the whitespace that
follows. Instead the lexer's WORD / property patterns accept a trailing hyphen, so
`a-` becomes a different (undefined) variable, a different filter name, a different
counter, and so on. `~` and `+` in the same position work.
"""

import sys

from liquid2 import Environment

env = Environment()
data = {"a": "A", "o": {"k": "K"}, "arr": [1, 2]}


def render(source: str) -> str:
    try:
        return env.from_string(source).render(**data)
    except Exception as err:  # noqa: BLE001
        return f"<{type(err).__name__}: {str(err).splitlines()[0]}>"


CASES = [
    # (without marker, with `-` marker, expected output ignoring whitespace)
    ("[{{a}}] x", "[{{a-}}] x", "[A]x"),
    ("[{{o.k}}] x", "[{{o.k-}}] x", "[K]x"),
    ("[{{true}}] x", "[{{true-}}] x", "[true]x"),
    ("[{{a|append:a}}] x", "[{{a|append:a-}}] x", "[AA]x"),
    ("[{{a|upcase}}] x", "[{{a|upcase-}}] x", "[A]x"),
    ("[{% echo a%}] x", "[{% echo a-%}] x", "[A]x"),
    ("[{% if a%}Y{% endif %}] x", "[{% if a-%}Y{% endif %}] x", "[Y]x"),
    ("[{% for i in arr%}{{ i }}{% endfor %}] x", "[{% for i in arr-%}{{ i }}{% endfor %}] x", "[12]x"),
    ("[{% for i in arr reversed%}{{ i }}{% endfor %}] x", "[{% for i in arr reversed-%}{{ i }}{% endfor %}] x", "[21]x"),
    ("[{% increment c %}{% increment c%}] x", "[{% increment c %}{% increment c-%}] x", "[01]x"),
    ("[{% liquid echo a%}] x", "[{% liquid echo a-%}] x", "[A]x"),
]


def norm(s: str) -> str:
    return "".join(ch for ch in s if not ch.isspace())


bad = 0
for plain, marked, want in CASES:
    got_plain = render(plain)
    got_marked = render(marked)
    ok = norm(got_plain) == want and norm(got_marked) == want
    if not ok:
        bad += 1
    print(
        f"{'ok  ' if ok else 'FAIL'} {marked!r}\n"
        f"     expected (ignoring whitespace): {want!r}\n"
        f"     without the marker:             {got_plain!r}\n"
        f"     with the marker:                {got_marked!r}"
    )

print(f"{bad} violation(s)")
sys.exit(1 if bad else 0)
