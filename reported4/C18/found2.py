"""Pre-existing violation: the left marker position of an output statement that
starts with a negative number.

`{{` MARKER `-1 }}` with MARKER = none is `{{-1 }}`, which is read as the marker `-`
followed by the number 1. So choosing "no marker" for that position changes the
value that is output (1 instead of -1), while `+`, `~` and `-` all output -1.
"""

import sys

from liquid2 import Environment

env = Environment()


def norm(s: str) -> str:
    return "".join(ch for ch in s if not ch.isspace())


bad = 0
for number in ("-1", "-1.5"):
    want = f"[{number}]"
    for marker in ("", "-", "~", "+"):
        source = "[ {{" + marker + number + " }}]"
        got = env.from_string(source).render()
        ok = norm(got) == want
        if not ok:
            bad += 1
        print(
            f"{'ok  ' if ok else 'FAIL'} marker={marker!r:4} {source!r}: "
            f"expected {want!r} (ignoring whitespace), got {got!r}"
        )

print(f"{bad} violation(s)")
sys.exit(1 if bad else 0)
