"""Pre-existing deviation: whitespace between `{% case %}` and the first
`{% when %}` / `{% else %}` is never output.

With no markers, the default trim mode (+) and blank block suppression switched
off, no trimming is in force, so literal text should be reproduced character for
character. The same whitespace after `{% if %}` is output; after `{% case %}` it
is silently dropped (CaseTag.parse keeps it only for str()).
"""

import sys

from liquid2 import Environment


class Env(Environment):
    suppress_blank_control_flow_blocks = False


env = Env()

if_source = "[{% if true %}\n  {% assign y = 1 %}a{% endif %}]"
case_source = "[{% case x %}\n  {% when 1 %}a{% endcase %}]"

got_if = env.from_string(if_source).render(x=1)
got_case = env.from_string(case_source).render(x=1)

print(f"if:   {if_source!r} -> {got_if!r} (whitespace kept)")
print(f"case: {case_source!r}\n  expected: '[\\n  a]'\n  got:      {got_case!r}")

sys.exit(0 if got_case == "[\n  a]" else 1)
