"""Pre-existing deviation: `{% translate %}` rewrites whitespace in literal message
text although no trimming is in force, and ignores markers inside the block.

With no markers and the default trim mode (+), literal text should be reproduced
character for character. TranslateTag.validate_message_block strips the message and
collapses every newline with its surrounding whitespace to one space
(`trim_messages = True`), and it reads `ContentNode.text` directly, so `-` / `~`
markers on `{{ you }}` or on the translate tags have no effect on the message.
"""

import sys

from liquid2 import Environment

env = Environment()

source = "[{% translate %}  Hello,\n\n    {{ you }}  !  {% endtranslate %}]"
want = "[  Hello,\n\n    World  !  ]"
got = env.from_string(source).render(you="World")
print(f"{source!r}\n  expected: {want!r}\n  got:      {got!r}")

marked = "[{% translate %}Hello, {{- you -}} ! {% endtranslate %}]"
want_marked = "[Hello,World! ]"
got_marked = env.from_string(marked).render(you="World")
print(f"{marked!r}\n  expected: {want_marked!r}\n  got:      {got_marked!r}")

sys.exit(0 if got == want and got_marked == want_marked else 1)
