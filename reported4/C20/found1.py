"""Literal text of an interpolated template string is HTML-escaped with auto_escape.

With `Environment(auto_escape=True)` a plain string literal is "safe" markup and
is output exactly as written, `{{ '<b>' }}` -> `<b>`. The same literal text in an
interpolated template string, `{{ '<b>${x}' }}`, is escaped, so the string does
not evaluate to exactly what was written.
"""

import sys

from liquid2 import Environment

env = Environment(auto_escape=True)

plain = env.from_string("{{ '<b>1</b>' }}").render()
interpolated = env.from_string("{{ '<b>${n}</b>' }}").render(n=1)
as_argument = env.from_string("{{ 'a' | append: '<b>${n}</b>' }}").render(n=1)

expect = "<b>1</b>"
print(f"plain literal       {{{{ '<b>1</b>' }}}}     expected {expect!r}, got {plain!r}")
print(
    f"template string     {{{{ '<b>${{n}}</b>' }}}}  expected {expect!r}, got {interpolated!r}"
)
print(
    "filter argument     {{ 'a' | append: '<b>${n}</b>' }}  "
    f"expected {'a' + expect!r}, got {as_argument!r}"
)

if plain != expect:
    print("unexpected: the plain literal is not output as written")
    sys.exit(2)

if interpolated != expect or as_argument != "a" + expect:
    print("VIOLATION: literal parts of a template string are HTML-escaped")
    sys.exit(1)

print("OK")
