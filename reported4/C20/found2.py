"""With auto_escape, `{{ x | json }}` does not render text that decodes to `x`.

The result of the `json` filter is an ordinary (unsafe) string, so the output
statement HTML-escapes its quotes, `<`, `>` and `&`. What is rendered is not JSON.
"""

import json
import sys

from liquid2 import Environment

env = Environment(auto_escape=True)
data = {"a": ["x", 1, 2.5, None, True], "b": "<&>'\""}

out = env.from_string("{{ data | json }}").render(data=data)
print("input   ", data)
print("expected", json.dumps(data))
print("rendered", out)

try:
    decoded = json.loads(out)
except ValueError as err:
    print("VIOLATION: rendered text is not JSON:", err)
    sys.exit(1)

if decoded != data:
    print("VIOLATION: rendered JSON decodes to", decoded)
    sys.exit(1)

print("OK")
