"""Float literals outside the range of a double do not denote the number written.

`1.0e999` evaluates to infinity (so it compares equal to `2.0e999`, and `json`
refuses it), and `1e-999` evaluates to `0.0` (so it compares equal to `0.0`).
"""

import sys

from liquid2 import Environment
from liquid2.exceptions import LiquidError

env = Environment()
failures = []


def render(source):
    try:
        return env.from_string(source).render()
    except LiquidError as err:
        return f"{type(err).__name__}: {str(err).splitlines()[0]}"


def check(source, expect):
    got = render(source)
    print(f"{source}  expected {expect!r}, got {got!r}")
    if got != expect:
        failures.append(source)


check("{% if 1.0e999 == 2.0e999 %}equal{% else %}different{% endif %}", "different")
check("{% if 1.0e999 > 1.0e998 %}greater{% else %}not greater{% endif %}", "greater")
check("{% if 1e-999 == 0.0 %}zero{% else %}non-zero{% endif %}", "non-zero")
check("{% if 1e-999 > 0 %}positive{% else %}not positive{% endif %}", "positive")
out = render("{{ 1.0e999 }}")
print(f"{{{{ 1.0e999 }}}} renders {out!r}")
if out == "inf":
    failures.append("{{ 1.0e999 }}")

if failures:
    print("VIOLATION: float literals overflow to inf / underflow to 0.0")
    sys.exit(1)

print("OK")
