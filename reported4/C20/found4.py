"""Float literals with more precision than a double are rounded.

Weakest finding, inherent to using Python floats: a decimal spelling with more
than 53 bits of precision evaluates to the nearest double, not to the number
written, so `9007199254740993.0` compares equal to the integer 9007199254740992.
"""

import sys

from liquid2 import Environment

env = Environment()
failures = []


def check(source, expect):
    got = env.from_string(source).render()
    print(f"{source}  expected {expect!r}, got {got!r}")
    if got != expect:
        failures.append(source)


check("{{ 9007199254740993.0 }}", "9007199254740993.0")
check(
    "{% if 9007199254740993.0 == 9007199254740992 %}equal{% else %}different{% endif %}",
    "different",
)
check(
    "{% if 0.30000000000000001 == 0.3 %}equal{% else %}different{% endif %}",
    "different",
)

if failures:
    print("VIOLATION: float literals are rounded to the nearest double")
    sys.exit(1)

print("OK")
