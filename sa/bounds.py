"""Small abstract interpretation for "is this integer a valid slice bound?" questions.

Each variable holds a *set of kinds* (a disjunction):
  none    the value None
  str     a string
  len     an int with 0 <= v <= (a small multiple of) the length of a real sequence
  nonneg  an int >= 0, unbounded above
  le      an int <= a sequence length, possibly negative
  int     any int
  top     anything
Forward dataflow over the statement CFG; tests refine (`x is None`, `x is not None`, `x == "lit"`, truthiness,
`isinstance(x, int)` incl. in `assert`), join = union.  `itertools.islice(it, a, b)` never raises ValueError
when every bound's kinds are a subset of {none, len}.
"""

from __future__ import annotations

import ast
from typing import Callable

from .cfg import CFG
from .cfg import N
from .cfg import forward
from .srcmodel import FunctionInfo
from .srcmodel import Program

INTISH = {"len", "nonneg", "le", "int"}
Kinds = frozenset


def _k(*xs: str) -> frozenset:
    return frozenset(xs)


class BoundFlow:
    def __init__(self, prog: Program, fi: FunctionInfo, cfg: CFG, *, trusted_len_calls: tuple[str, ...] = ("stopindex",)) -> None:
        self.prog = prog
        self.fi = fi
        self.cfg = cfg
        self.trusted = trusted_len_calls
        init: dict[str, frozenset] = {}
        a = fi.node.args
        for p in a.posonlyargs + a.args + a.kwonlyargs:
            init[p.arg] = self._from_annotation(p)
        self.IN = forward(cfg, init, self._transfer, self._join, bottom=None)

    # ------------------------------------------------------------------ parameters
    def _from_annotation(self, p: ast.arg) -> frozenset:
        if p.annotation is None:
            return _k("top")
        t = ast.unparse(p.annotation)
        parts = {x.strip() for x in t.split("|")}
        out = set()
        for x in parts:
            if x == "None":
                out.add("none")
            elif x == "str":
                out.add("str")
            elif x == "int":
                out.add("len" if self._param_is_length(p.arg) else "int")
            else:
                out.add("top")
        return frozenset(out)

    def _param_is_length(self, name: str) -> bool:
        """Every call site of this method passes, for *name*, a value that is `len(...)` in the caller - directly or as
        the element of a tuple returned by a helper whose return statements put `len(...)` in that position."""
        fi = self.fi
        if fi.cls is None:
            return False
        params = [x.arg for x in fi.node.args.posonlyargs + fi.node.args.args]
        sites = 0
        for m in fi.cls.methods.values():
            for c in ast.walk(m.node):
                if not (isinstance(c, ast.Call) and isinstance(c.func, ast.Attribute) and c.func.attr == fi.name and isinstance(c.func.value, ast.Name) and c.func.value.id == "self"):
                    continue
                sites += 1
                arg: ast.AST | None = None
                idx = params.index(name) - 1 if name in params else None
                if idx is not None and 0 <= idx < len(c.args):
                    arg = c.args[idx]
                for kw in c.keywords:
                    if kw.arg == name:
                        arg = kw.value
                if arg is None or not self._is_len_in(m, arg):
                    return False
        return sites > 0

    def _is_len_in(self, m: FunctionInfo, e: ast.AST) -> bool:
        if isinstance(e, ast.Call) and isinstance(e.func, ast.Name) and e.func.id == "len":
            return True
        if isinstance(e, ast.Name):
            defs = []
            for n in ast.walk(m.node):
                if isinstance(n, ast.Assign):
                    for t in n.targets:
                        if isinstance(t, ast.Name) and t.id == e.id:
                            defs.append((None, n.value))
                        elif isinstance(t, ast.Tuple):
                            for i, x in enumerate(t.elts):
                                if isinstance(x, ast.Name) and x.id == e.id:
                                    defs.append((i, n.value))
            if not defs:
                return False
            for i, v in defs:
                if isinstance(v, ast.Await):
                    v = v.value
                if i is None:
                    if not self._is_len_in(m, v):
                        return False
                    continue
                if isinstance(v, ast.Tuple):
                    if not self._is_len_in(m, v.elts[i]):
                        return False
                    continue
                if isinstance(v, ast.Call) and isinstance(v.func, ast.Attribute) and isinstance(v.func.value, ast.Name) and v.func.value.id == "self" and m.cls is not None:
                    g = self.prog.find_method(m.cls, v.func.attr)
                    if g is None:
                        return False
                    rets = [r for r in ast.walk(g.node) if isinstance(r, ast.Return) and r.value is not None]
                    if not rets:
                        return False
                    for r in rets:
                        if not (isinstance(r.value, ast.Tuple) and len(r.value.elts) > i and self._is_len_in(g, r.value.elts[i])):
                            return False
                    continue
                return False
            return True
        return False

    # ------------------------------------------------------------------ expressions
    def ev(self, st: dict, e: ast.AST | None) -> frozenset:  # noqa: PLR0911, PLR0912
        if e is None:
            return _k("none")
        if isinstance(e, ast.Constant):
            if e.value is None:
                return _k("none")
            if isinstance(e.value, bool):
                return _k("len")
            if isinstance(e.value, int):
                return _k("len") if e.value >= 0 else _k("int")
            if isinstance(e.value, str):
                return _k("str")
            return _k("top")
        if isinstance(e, ast.Name):
            return st.get(e.id, _k("top"))
        if isinstance(e, ast.IfExp):
            sa, sb = self._refine(st, e.test, True), self._refine(st, e.test, False)
            a = self.ev(sa, e.body) if "__dead__" not in sa else frozenset()
            b = self.ev(sb, e.orelse) if "__dead__" not in sb else frozenset()
            return (a | b) or _k("top")
        if isinstance(e, ast.Await):
            return self.ev(st, e.value)
        if isinstance(e, ast.Call):
            f = e.func
            if isinstance(f, ast.Name) and f.id == "len":
                return _k("len")
            if isinstance(f, ast.Attribute) and f.attr in self.trusted:
                return _k("len")
            if isinstance(f, ast.Name) and f.id in ("max", "min") and len(e.args) >= 2 and not e.keywords:
                out: set[str] = set()
                argk = [self.ev(st, a) for a in e.args]
                if any(k - INTISH for k in argk):
                    out.add("top")
                combos = [[]]
                for k in argk:
                    ks = sorted(k & INTISH)
                    if not ks:
                        return frozenset(out or {"top"})
                    combos = [c + [x] for c in combos for x in ks]
                for c in combos[:256]:
                    out.add(self._max(c) if f.id == "max" else self._min(c))
                return frozenset(out)
            return _k("top")
        if isinstance(e, ast.BinOp) and isinstance(e.op, (ast.Add, ast.Sub)):
            la, ra = self.ev(st, e.left), self.ev(st, e.right)
            out = set()
            if (la | ra) - INTISH:
                out.add("top")
            for x in la & INTISH:
                for y in ra & INTISH:
                    if isinstance(e.op, ast.Add):
                        out.add("len" if x == y == "len" else ("nonneg" if {x, y} <= {"len", "nonneg"} else "int"))
                    else:
                        out.add("le" if x in ("len", "le") and y in ("len", "nonneg") else "int")
            return frozenset(out or {"top"})
        return _k("top")

    @staticmethod
    def _max(c: list[str]) -> str:
        lower = any(x in ("len", "nonneg") for x in c)
        upper = all(x in ("len", "le") for x in c)
        if lower and upper:
            return "len"
        if lower:
            return "nonneg"
        if upper:
            return "le"
        return "int"

    @staticmethod
    def _min(c: list[str]) -> str:
        upper = any(x in ("len", "le") for x in c)
        lower = all(x in ("len", "nonneg") for x in c)
        if lower and upper:
            return "len"
        if lower:
            return "nonneg"
        if upper:
            return "le"
        return "int"

    # ------------------------------------------------------------------ refinement
    def _refine(self, st: dict, t: ast.AST, truth: bool) -> dict:  # noqa: PLR0912
        if isinstance(t, ast.UnaryOp) and isinstance(t.op, ast.Not):
            return self._refine(st, t.operand, not truth)
        if isinstance(t, ast.BoolOp):
            if (isinstance(t.op, ast.And) and truth) or (isinstance(t.op, ast.Or) and not truth):
                for v in t.values:
                    st = self._refine(st, v, truth)
                    if "__dead__" in st:
                        return st
            return st
        if isinstance(t, ast.Name):
            cur = st.get(t.id, _k("top"))
            if truth:
                new = cur - {"none"}
            else:
                # falsy: None, 0, "" - an int that is falsy is 0, i.e. a valid bound
                new = frozenset(("len" if k in INTISH else k) for k in cur)
            if not new and "top" not in cur:
                return {"__dead__": _k("top")}
            if new and new != cur:
                st = dict(st)
                st[t.id] = new
            return st
        if isinstance(t, ast.Compare) and len(t.ops) == 1 and isinstance(t.left, ast.Name):
            name, op, rhs = t.left.id, t.ops[0], t.comparators[0]
            cur = st.get(name, _k("top"))
            new = cur
            is_none = isinstance(rhs, ast.Constant) and rhs.value is None
            if is_none and isinstance(op, (ast.Is, ast.Eq)):
                new = _k("none") if truth else cur - {"none"}
            elif is_none and isinstance(op, (ast.IsNot, ast.NotEq)):
                new = cur - {"none"} if truth else _k("none")
            elif isinstance(rhs, ast.Constant) and isinstance(rhs.value, str) and isinstance(op, ast.Eq):
                new = _k("str") if truth else cur
            if not new and "top" not in cur:
                return {"__dead__": _k("top")}
            if new != cur and new:
                st = dict(st)
                st[name] = new
            return st
        if isinstance(t, ast.Call) and isinstance(t.func, ast.Name) and t.func.id == "isinstance" and len(t.args) == 2 and isinstance(t.args[0], ast.Name):
            name = t.args[0].id
            ty = ast.unparse(t.args[1])
            cur = st.get(name, _k("top"))
            if truth and ty == "int":
                new = frozenset(k for k in cur if k in INTISH) or (_k("int") if "top" in cur else cur)
                if "top" in cur:
                    new = new | {"int"}
                st = dict(st)
                st[name] = new
            return st
        return st

    # ------------------------------------------------------------------ transfer
    @staticmethod
    def _join(a: dict, b: dict) -> dict:
        out = {}
        for k in a.keys() | b.keys():
            out[k] = a.get(k, _k("top")) | b.get(k, _k("top"))
        return out

    def _transfer(self, n: N, st: dict, label: str) -> dict:
        node = n.node
        if node is None:
            return st
        if n.kind == "test":
            if label in ("true", "false"):
                out = self._refine(st, node, label == "true")
                return None if "__dead__" in out else out  # type: ignore[return-value]
            return st
        if n.kind != "stmt":
            if n.kind == "for" and isinstance(node, (ast.For, ast.AsyncFor)):
                st = dict(st)
                for x in ast.walk(node.target):
                    if isinstance(x, ast.Name):
                        st[x.id] = _k("top")
            return st
        if label == "exc":
            return st
        if isinstance(node, ast.Assert):
            return self._refine(st, node.test, True)
        tgts: list[ast.AST] = []
        val: ast.AST | None = None
        if isinstance(node, ast.Assign):
            tgts, val = list(node.targets), node.value
        elif isinstance(node, ast.AnnAssign) and node.value is not None:
            tgts, val = [node.target], node.value
        elif isinstance(node, ast.AugAssign):
            tgts, val = [node.target], ast.BinOp(left=node.target, op=node.op, right=node.value)
        if not tgts:
            return st
        out = dict(st)
        for t in tgts:
            if isinstance(t, ast.Name):
                out[t.id] = self.ev(st, val)
            else:
                for x in ast.walk(t):
                    if isinstance(x, ast.Name) and isinstance(x.ctx, ast.Store):
                        out[x.id] = _k("top")
        return out

    # ------------------------------------------------------------------ query
    def kinds_at(self, site: ast.AST, e: ast.AST, cfg_node_of: Callable[[CFG, ast.AST], N | None]) -> frozenset:
        n = cfg_node_of(self.cfg, site)
        if n is None or n.id not in self.IN:
            return _k("top")
        return self.ev(self.IN[n.id], e)
