"""E1 - statement-level control-flow graph for one Python function + forward dataflow.

One node per simple statement; compound statements contribute test / header
nodes.  Edge labels: 'next', 'true', 'false', 'iter', 'exhaust', 'exc', 'case',
'nocase'.  An 'exc' edge carries the *pre*-state of its source statement (the
statement did not complete).  `finally` bodies and `with` exits are duplicated
per exit kind (normal / exception / return / break / continue) so that paths stay
separate.
"""

from __future__ import annotations

import ast
from dataclasses import dataclass
from dataclasses import field
from typing import Any
from typing import Callable
from typing import Iterable
from typing import Iterator


@dataclass(eq=False)
class N:
    id: int
    kind: str  # entry exit raise stmt test for with_enter with_exit handler case yield_
    node: ast.AST | None = None
    succ: list[tuple["N", str]] = field(default_factory=list)
    pred: list[tuple["N", str]] = field(default_factory=list)
    note: str = ""

    @property
    def line(self) -> int:
        return getattr(self.node, "lineno", 0)

    def __repr__(self) -> str:
        t = ""
        if self.node is not None:
            try:
                t = ast.unparse(self.node).split("\n")[0][:50]
            except Exception:  # noqa: BLE001
                t = type(self.node).__name__
        return f"<{self.id}:{self.kind}:{self.line} {t}>"


Frontier = list[tuple[N, str]]


def _default_may_raise(st: ast.AST) -> bool:
    if isinstance(st, (ast.Raise, ast.Assert)):
        return True
    for n in ast.walk(st):
        if isinstance(n, (ast.Call, ast.Subscript, ast.Await, ast.Yield, ast.YieldFrom, ast.BinOp)):
            return True
        if isinstance(n, (ast.FunctionDef, ast.AsyncFunctionDef, ast.Lambda)) and n is not st:
            continue
    return False


class _Ctx:
    def __init__(self) -> None:
        self.loops: list[tuple[N, Frontier]] = []  # (continue target, break frontier)
        # stack of "exception sinks": each is a callable taking a frontier of exc edges
        self.handlers: list[Any] = []
        # stack of finalisers: list of (kind, data) that abrupt exits must run through
        self.finals: list[Any] = []


class CFG:
    def __init__(
        self,
        fn: ast.FunctionDef | ast.AsyncFunctionDef,
        *,
        may_raise: Callable[[ast.AST], bool] | None = None,
        noreturn: Callable[[ast.Call], bool] | None = None,
    ) -> None:
        self.fn = fn
        self.nodes: list[N] = []
        self.may_raise = may_raise or _default_may_raise
        self.noreturn = noreturn or (lambda c: False)
        self.entry = self._new("entry", fn)
        self.exit = self._new("exit", fn)
        self.raise_exit = self._new("raise", fn)
        self._finals: list[tuple[str, Any]] = []  # active try-finally / with frames, innermost last
        self._loops: list[dict[str, Any]] = []
        self._handlers: list[dict[str, Any]] = []
        out = self._block(fn.body, [(self.entry, "next")])
        self._connect(out, self.exit)

    # ------------------------------------------------------------ primitives
    def _new(self, kind: str, node: ast.AST | None, note: str = "") -> N:
        n = N(len(self.nodes), kind, node, note=note)
        self.nodes.append(n)
        return n

    def _connect(self, frontier: Frontier, to: N) -> None:
        for src, label in frontier:
            if (to, label) not in src.succ:
                src.succ.append((to, label))
                to.pred.append((src, label))

    # --------------------------------------------------------- abrupt exits
    def _run_finals(self, frontier: Frontier, upto: int, kind: str) -> Frontier:
        """Route *frontier* through every active finaliser with index >= upto (innermost first)."""
        for i in range(len(self._finals) - 1, upto - 1, -1):
            fkind, data = self._finals[i]
            saved = (self._finals, self._handlers, self._loops)
            # the finaliser itself runs in the context outside its frame
            self._finals = self._finals[:i]
            self._handlers = [h for h in self._handlers if h["depth"] < i]
            self._loops = [l for l in self._loops if l["depth"] < i]
            try:
                if fkind == "finally":
                    frontier = self._block(data, frontier)
                else:  # with-exit
                    n = self._new("with_exit", data, note=kind)
                    self._connect(frontier, n)
                    frontier = [(n, "next")]
            finally:
                self._finals, self._handlers, self._loops = saved
        return frontier

    def _raise_from(self, frontier: Frontier) -> None:
        """Exceptional control transfer from *frontier* (edges already labelled)."""
        if not frontier:
            return
        if self._handlers:
            h = self._handlers[-1]
            fr = self._run_finals(frontier, h["depth"] + 1, "exc")
            h["pending"].extend(fr)
        else:
            fr = self._run_finals(frontier, 0, "exc")
            self._connect(fr, self.raise_exit)

    def _exc_edge(self, n: N) -> None:
        self._raise_from([(n, "exc")])

    # ---------------------------------------------------------------- blocks
    def _block(self, stmts: Iterable[ast.stmt], frontier: Frontier) -> Frontier:
        for st in stmts:
            if not frontier:
                break  # unreachable code
            frontier = self._stmt(st, frontier)
        return frontier

    def _is_noreturn_stmt(self, st: ast.stmt) -> bool:
        v = None
        if isinstance(st, ast.Expr):
            v = st.value
        elif isinstance(st, ast.Return):
            v = st.value
        if isinstance(v, ast.Await):
            v = v.value
        return isinstance(v, ast.Call) and self.noreturn(v)

    def _stmt(self, st: ast.stmt, frontier: Frontier) -> Frontier:  # noqa: PLR0911, PLR0912, PLR0915
        if isinstance(st, (ast.FunctionDef, ast.AsyncFunctionDef, ast.ClassDef)):
            n = self._new("stmt", st, note="def")
            self._connect(frontier, n)
            return [(n, "next")]

        if isinstance(st, ast.If):
            t = self._new("test", st.test)
            self._connect(frontier, t)
            if self.may_raise(st.test):
                self._exc_edge(t)
            a = self._block(st.body, [(t, "true")])
            b = self._block(st.orelse, [(t, "false")]) if st.orelse else [(t, "false")]
            return a + b

        if isinstance(st, ast.While):
            t = self._new("test", st.test, note="while")
            self._connect(frontier, t)
            if self.may_raise(st.test):
                self._exc_edge(t)
            frame = {"head": t, "breaks": [], "depth": len(self._finals) - 1}
            self._loops.append(frame)
            body_out = self._block(st.body, [(t, "true")])
            self._loops.pop()
            self._connect(body_out, t)
            infinite = isinstance(st.test, ast.Constant) and bool(st.test.value)
            out: Frontier = [] if infinite else [(t, "false")]
            if st.orelse and out:
                out = self._block(st.orelse, out)
            return out + frame["breaks"]

        if isinstance(st, (ast.For, ast.AsyncFor)):
            it = self._new("stmt", st.iter, note="for-iter")
            self._connect(frontier, it)
            if self.may_raise(st.iter):
                self._exc_edge(it)
            h = self._new("for", st)
            self._connect([(it, "next")], h)
            self._exc_edge(h)  # __next__ may raise
            frame = {"head": h, "breaks": [], "depth": len(self._finals) - 1}
            self._loops.append(frame)
            body_out = self._block(st.body, [(h, "iter")])
            self._loops.pop()
            self._connect(body_out, h)
            out = [(h, "exhaust")]
            if st.orelse:
                out = self._block(st.orelse, out)
            return out + frame["breaks"]

        if isinstance(st, ast.Break):
            n = self._new("stmt", st)
            self._connect(frontier, n)
            frame = self._loops[-1]
            fr = self._run_finals([(n, "next")], frame["depth"] + 1, "break")
            frame["breaks"].extend(fr)
            return []

        if isinstance(st, ast.Continue):
            n = self._new("stmt", st)
            self._connect(frontier, n)
            frame = self._loops[-1]
            fr = self._run_finals([(n, "next")], frame["depth"] + 1, "continue")
            self._connect(fr, frame["head"])
            return []

        if isinstance(st, ast.Return):
            n = self._new("stmt", st)
            self._connect(frontier, n)
            if st.value is not None and self.may_raise(st.value):
                self._exc_edge(n)
            if self._is_noreturn_stmt(st):
                return []
            fr = self._run_finals([(n, "next")], 0, "return")
            self._connect(fr, self.exit)
            return []

        if isinstance(st, ast.Raise):
            n = self._new("stmt", st)
            self._connect(frontier, n)
            self._raise_from([(n, "raise")])
            return []

        if isinstance(st, (ast.Try, getattr(ast, "TryStar", ast.Try))):
            return self._try(st, frontier)

        if isinstance(st, (ast.With, ast.AsyncWith)):
            n = self._new("with_enter", st)
            self._connect(frontier, n)
            self._exc_edge(n)
            self._finals.append(("with", st))
            body_out = self._block(st.body, [(n, "next")])
            self._finals.pop()
            if body_out:
                x = self._new("with_exit", st, note="normal")
                self._connect(body_out, x)
                return [(x, "next")]
            return []

        if isinstance(st, ast.Match):
            subj = self._new("stmt", st.subject, note="match-subject")
            self._connect(frontier, subj)
            if self.may_raise(st.subject):
                self._exc_edge(subj)
            cur: Frontier = [(subj, "next")]
            outs: Frontier = []
            for case in st.cases:
                c = self._new("case", case)
                self._connect(cur, c)
                outs += self._block(case.body, [(c, "case")])
                irrefutable = case.guard is None and (
                    (isinstance(case.pattern, ast.MatchAs) and case.pattern.pattern is None)
                )
                cur = [] if irrefutable else [(c, "nocase")]
            return outs + cur

        # simple statement
        n = self._new("stmt", st)
        self._connect(frontier, n)
        if self._is_noreturn_stmt(st):
            self._raise_from([(n, "raise")])
            return []
        if self.may_raise(st):
            self._exc_edge(n)
        if isinstance(st, ast.Assert):
            pass
        return [(n, "next")]

    def _try(self, st: ast.Try, frontier: Frontier) -> Frontier:
        has_finally = bool(st.finalbody)
        if has_finally:
            self._finals.append(("finally", st.finalbody))
        out: Frontier = []
        if st.handlers:
            hframe = {"pending": [], "depth": len(self._finals) - 1}
            self._handlers.append(hframe)
            body_out = self._block(st.body, frontier)
            self._handlers.pop()
            if st.orelse and body_out:
                body_out = self._block(st.orelse, body_out)
            out += body_out
            pending: Frontier = hframe["pending"]
            catches_all = False
            for h in st.handlers:
                hn = self._new("handler", h)
                self._connect(pending, hn)
                out += self._block(h.body, [(hn, "next")])
                if h.type is None or (isinstance(h.type, ast.Name) and h.type.id in ("BaseException", "Exception")):
                    catches_all = True
            if pending and not catches_all:
                # exception not matched by any handler propagates outward
                un = self._new("stmt", st, note="unhandled")
                self._connect(pending, un)
                self._raise_from([(un, "exc")])
        else:
            body_out = self._block(st.body, frontier)
            if st.orelse and body_out:
                body_out = self._block(st.orelse, body_out)
            out += body_out
        if has_finally:
            self._finals.pop()
            if out:
                out = self._block(st.finalbody, out)
        return out

    # ---------------------------------------------------------------- queries
    def reachable(self, start: N, *, avoid: Callable[[N], bool] | None = None, labels: set[str] | None = None) -> set[int]:
        seen = {start.id}
        stack = [start]
        while stack:
            n = stack.pop()
            for m, lab in n.succ:
                if labels is not None and lab not in labels:
                    continue
                if m.id in seen:
                    continue
                if avoid and avoid(m):
                    continue
                seen.add(m.id)
                stack.append(m)
        return seen

    def all_paths_pass(self, target: N, pred: Callable[[N], bool], *, start: N | None = None) -> bool:
        """Every path entry->target passes through a node satisfying pred (target itself excluded)."""
        start = start or self.entry
        if pred(start):
            return True
        r = self.reachable(start, avoid=lambda n: n is not target and pred(n))
        return target.id not in r

    def find(self, pred: Callable[[N], bool]) -> list[N]:
        return [n for n in self.nodes if pred(n)]

    def stmt_nodes(self) -> Iterator[N]:
        for n in self.nodes:
            if n.node is not None and n.kind not in ("entry", "exit", "raise"):
                yield n


def forward(
    cfg: CFG,
    init: Any,
    transfer: Callable[[N, Any, str], Any],
    join: Callable[[Any, Any], Any],
    *,
    bottom: Any = None,
    max_iter: int = 20000,
) -> dict[int, Any]:
    """Worklist forward dataflow.  transfer(node, in_state, edge_label) -> out state on that edge.

    For 'exc' edges the client normally returns in_state unchanged.  Returns IN state per node id.
    """
    IN: dict[int, Any] = {cfg.entry.id: init}
    work = [cfg.entry]
    it = 0
    while work:
        it += 1
        if it > max_iter:
            raise RuntimeError("dataflow did not converge")
        n = work.pop()
        s = IN.get(n.id, bottom)
        if s is bottom:
            continue
        for m, lab in n.succ:
            out = transfer(n, s, lab)
            if out is bottom:
                continue
            old = IN.get(m.id, bottom)
            new = out if old is bottom else join(old, out)
            if new != old:
                IN[m.id] = new
                work.append(m)
    return IN
