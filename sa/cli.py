"""CLI:  ./check Cxx --tier quick|thorough   |   ./check --replay <file>   |  ./check all"""

from __future__ import annotations

import argparse
import importlib
import json
import os
import sys
import time
import traceback
from pathlib import Path

VERIF = Path(__file__).resolve().parent.parent
sys.path.insert(0, str(VERIF))

from sa import report  # noqa: E402
from sa.report import AnalysisError  # noqa: E402
from sa.report import Result  # noqa: E402
from sa.srcmodel import Program  # noqa: E402


def run_check(prop: str, tier: str, root: Path | None = None) -> Result:
    mod = importlib.import_module(f"checks.{prop}")
    prog = Program(root)
    res = Result(prop, tier)
    mod.run(prog, res)
    return res


def main(argv: list[str] | None = None) -> int:
    ap = argparse.ArgumentParser()
    ap.add_argument("prop", nargs="?")
    ap.add_argument("--tier", default=os.environ.get("VERIF_TIER", "quick"), choices=["quick", "thorough"])
    ap.add_argument("--replay")
    ap.add_argument("--no-write", action="store_true")
    args = ap.parse_args(argv)
    seed = int(os.environ.get("VERIF_SEED", "0") or 0)
    started = time.time()

    try:
        if args.replay:
            data = json.loads(Path(args.replay).read_text())
            prop = data["property"]
            res = run_check(prop, "quick")
            hit = [f for f in res.findings if f.rule == data["rule"] and f.key == data["key"]]
            if hit:
                f = hit[0]
                print(f"  {f.rule} {f.file}:{f.line} {f.qualname}: {f.message}")
                print(f"VIOLATION property={prop} replay={args.replay}")
                return 1
            print(f"replay: {data['rule']} {data['key']} no longer reported")
            return 0

        if not args.prop:
            ap.error("property id required")
        if args.prop == "all":
            rc = 0
            for p in sorted(x.stem for x in (VERIF / "checks").glob("C*.py")):
                r = main([p, "--tier", args.tier] + (["--no-write"] if args.no_write else []))
                rc = max(rc, r)
            return rc

        prop = args.prop
        res = run_check(prop, args.tier)
        if args.tier == "thorough":
            from sa import selftest

            res.selftest = selftest.run(prop, res, seed=seed)
        rc = report.finish(res, started=started, seed=seed, write=not args.no_write)
        for sk in (res.selftest or {}).get("skipped", []):
            # informational: a variant whose anchor/patch no longer matches the tree decides nothing (never a pass)
            print(f"SELF-TEST-SKIPPED {prop} {sk['id']}: {str(sk.get('why'))[:160]}")
        if res.selftest and res.selftest.get("failures"):
            for line in res.selftest["failures"]:
                print(f"ANALYSIS-ERROR self-test: {line}")
            return rc if rc == 1 else 2
        return rc
    except AnalysisError as err:
        print(f"ANALYSIS-ERROR {err}")
        return 2
    except Exception:  # noqa: BLE001
        print("ANALYSIS-ERROR unexpected exception in the checker:")
        traceback.print_exc()
        return 2


if __name__ == "__main__":
    sys.exit(main())
