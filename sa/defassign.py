"""Definite assignment: a local variable is read only on paths that have bound it (forward must-analysis over the statement CFG).

State = set of locals definitely bound. Bindings: assignment targets, augmented assignment (needs the binding itself), for targets
(on the 'iter' edge), with … as, except … as (inside the handler), import, def/class, walrus, match captures ('case' edge).
`del x` unbinds. An 'exc' edge carries the pre-state of its source (the statement did not complete). Join = intersection.
A read of a local that is not in the state at that point is a possible UnboundLocalError.
Nested functions, lambdas and comprehensions are not entered (their free variables are looked up when they run)."""

from __future__ import annotations

import ast
from typing import Iterator

from .cfg import CFG
from .cfg import N
from .cfg import forward


def _own(node: ast.AST) -> Iterator[ast.AST]:
    """node and its descendants, not entering nested scopes (their bodies run later / elsewhere)."""
    yield node
    for ch in ast.iter_child_nodes(node):
        if isinstance(ch, (ast.FunctionDef, ast.AsyncFunctionDef, ast.ClassDef, ast.Lambda)):
            continue
        if isinstance(ch, (ast.ListComp, ast.SetComp, ast.DictComp, ast.GeneratorExp)):
            # only the first iterable is evaluated in the enclosing scope
            yield from _own(ch.generators[0].iter)
            continue
        yield from _own(ch)


def _targets(t: ast.AST) -> Iterator[str]:
    for x in ast.walk(t):
        if isinstance(x, ast.Name) and isinstance(x.ctx, (ast.Store,)):
            yield x.id


def locals_of(fn: ast.FunctionDef | ast.AsyncFunctionDef) -> set[str]:
    declared = {n for s in ast.walk(fn) if isinstance(s, (ast.Global, ast.Nonlocal)) for n in s.names}
    out: set[str] = set()
    for n in _own(fn):
        if n is fn:
            continue
        if isinstance(n, ast.Name) and isinstance(n.ctx, (ast.Store, ast.Del)):
            out.add(n.id)
        elif isinstance(n, ast.ExceptHandler) and n.name:
            out.add(n.name)
        elif isinstance(n, (ast.MatchAs, ast.MatchStar)) and n.name:
            out.add(n.name)
        elif isinstance(n, ast.MatchMapping) and n.rest:
            out.add(n.rest)
        elif isinstance(n, (ast.Import, ast.ImportFrom)):
            out |= {(a.asname or a.name.split(".")[0]) for a in n.names}
    for st in ast.walk(fn):
        if st is not fn and isinstance(st, (ast.FunctionDef, ast.AsyncFunctionDef, ast.ClassDef)):
            # only defs that are statements of this function (not of nested ones) bind here; a conservative superset is harmless
            pass
    for st in _own(fn):
        if st is not fn and isinstance(st, (ast.FunctionDef, ast.AsyncFunctionDef, ast.ClassDef)):
            out.add(st.name)
    a = fn.args
    params = {x.arg for x in a.posonlyargs + a.args + a.kwonlyargs} | ({a.vararg.arg} if a.vararg else set()) | ({a.kwarg.arg} if a.kwarg else set())
    return (out | params) - declared


def possibly_unbound(fn: ast.FunctionDef | ast.AsyncFunctionDef) -> list[tuple[ast.Name, str]]:
    """(read, reason) for every read of a local that is not bound on every path reaching it."""
    a = fn.args
    params = frozenset({x.arg for x in a.posonlyargs + a.args + a.kwonlyargs} | ({a.vararg.arg} if a.vararg else set()) | ({a.kwarg.arg} if a.kwarg else set()))
    locs = locals_of(fn)
    if not (locs - params):
        return []
    cfg = CFG(fn)

    def binds(node: ast.AST | None, kind: str, label: str) -> tuple[set[str], set[str]]:
        """(bound, unbound) by completing this CFG node along *label*."""
        b: set[str] = set()
        u: set[str] = set()
        if node is None:
            return b, u
        if kind == "for":
            if label == "iter" and isinstance(node, (ast.For, ast.AsyncFor)):
                b |= set(_targets(node.target))
            return b, u
        if kind == "with_enter" and isinstance(node, (ast.With, ast.AsyncWith)):
            for it in node.items:
                if it.optional_vars is not None:
                    b |= set(_targets(it.optional_vars))
            return b, u
        if kind == "handler" and isinstance(node, ast.ExceptHandler):
            if node.name:
                b.add(node.name)
            return b, u
        if kind == "case" and label == "case":
            for x in ast.walk(node.pattern) if hasattr(node, "pattern") else []:
                if isinstance(x, (ast.MatchAs, ast.MatchStar)) and x.name:
                    b.add(x.name)
                if isinstance(x, ast.MatchMapping) and x.rest:
                    b.add(x.rest)
            return b, u
        if kind in ("stmt", "test"):
            if isinstance(node, (ast.FunctionDef, ast.AsyncFunctionDef, ast.ClassDef)):
                b.add(node.name)
                return b, u
            for x in _own(node):
                if isinstance(x, ast.Name) and isinstance(x.ctx, ast.Store):
                    b.add(x.id)
                elif isinstance(x, ast.Name) and isinstance(x.ctx, ast.Del):
                    u.add(x.id)
                elif isinstance(x, (ast.Import, ast.ImportFrom)):
                    b |= {(al.asname or al.name.split(".")[0]) for al in x.names}
        return b, u

    # Correlated guards: `if g: v = …` … `if g: use(v)`. Besides bound names the state carries ("falsy", g) - on this path the
    # name g was last seen falsy - and ("imp", g, v) - if g is truthy then v is bound. Joining a path on which v is bound with one
    # on which g is falsy gives the implication; a true edge of a test on g cashes it in; any store to g (or unbinding of v) drops it.
    def _guard(node: ast.AST | None) -> tuple[str, bool] | None:
        """(name, truthy-on-true-edge) when the test is a bare name, a walrus binding one, or the negation of either."""
        pos = True
        while isinstance(node, ast.UnaryOp) and isinstance(node.op, ast.Not):
            node, pos = node.operand, not pos
        if isinstance(node, ast.Name):
            return node.id, pos
        if isinstance(node, ast.NamedExpr) and isinstance(node.target, ast.Name):
            return node.target.id, pos
        return None

    def transfer(n: N, st: frozenset, label: str) -> frozenset:
        if label == "exc":
            return st
        b, u = binds(n.node, n.kind, label)
        cur = {t for t in st if not (isinstance(t, tuple) and (t[1] in b or t[1] in u or (t[0] == "imp" and t[2] in u)))}
        cur = (cur | b) - u
        if n.kind == "test" and label in ("true", "false"):
            g = _guard(n.node)
            if g is not None:
                name, pos = g
                truthy = (label == "true") == pos
                if truthy:
                    if ("falsy", name) in cur and name not in b:
                        return None  # type: ignore[return-value]  # the name was last seen falsy and has not been stored since: this edge is not taken
                    cur |= {t[2] for t in cur if isinstance(t, tuple) and t[0] == "imp" and t[1] == name}
                    cur.discard(("falsy", name))
                else:
                    cur.add(("falsy", name))
        return frozenset(cur)

    def join(x: frozenset, y: frozenset) -> frozenset:
        out = set(x & y)

        def holds(s_: frozenset, t: tuple) -> bool:
            # "g truthy => v bound" is true of a path on which v is bound, or g was seen falsy, or the implication is already known
            return t in s_ or t[2] in s_ or ("falsy", t[1]) in s_

        cands = {t for t in x | y if isinstance(t, tuple) and t[0] == "imp"}
        for a_, b_ in ((x, y), (y, x)):
            for t in b_:
                if isinstance(t, tuple) and t[0] == "falsy":
                    cands |= {("imp", t[1], v) for v in a_ if isinstance(v, str) and v not in b_}
        out |= {t for t in cands if holds(x, t) and holds(y, t)}
        return frozenset(out)

    IN = forward(cfg, params, transfer, join, bottom=None)
    out: list[tuple[ast.Name, str]] = []
    seen: set[int] = set()
    for n in cfg.nodes:
        if n.node is None or n.id not in IN or n.kind not in ("stmt", "test", "for", "with_enter"):
            continue
        st = IN[n.id]
        if n.kind == "stmt" and isinstance(n.node, (ast.Try, ast.If, ast.While, ast.For, ast.AsyncFor, ast.With, ast.AsyncWith, ast.Match)):
            continue  # synthetic node standing for a whole compound statement (e.g. "exception not handled here")
        roots: list[ast.AST] = [n.node]
        if n.kind == "for" and isinstance(n.node, (ast.For, ast.AsyncFor)):
            roots = []  # the iterable has its own node; the target is a binding
        if n.kind == "with_enter" and isinstance(n.node, (ast.With, ast.AsyncWith)):
            roots = [it.context_expr for it in n.node.items]
        if isinstance(n.node, (ast.FunctionDef, ast.AsyncFunctionDef, ast.ClassDef)):
            roots = list(n.node.decorator_list)
        for root in roots:
            # reads inside one statement happen before its own stores, except for names the statement itself stored earlier
            # (walrus) - treated conservatively as bound
            own_walrus = {x.target.id for x in _own(root) if isinstance(x, ast.NamedExpr) and isinstance(x.target, ast.Name)}
            for x in _own(root):
                if isinstance(x, ast.Name) and isinstance(x.ctx, ast.Load) and x.id in locs and x.id not in st and x.id not in own_walrus and id(x) not in seen:
                    seen.add(id(x))
                    out.append((x, f"`{x.id}` is not bound on every path to line {getattr(x, 'lineno', 0)}"))
    return out
