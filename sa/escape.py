"""E5 - exception-escape analysis.

For every function: the set of (exception class, witness site) pairs that can leave it, computed from
  * a catalogue of partial operations (callee/operator -> exception classes raised on data-dependent inputs),
  * explicit `raise` statements,
  * callees' escape sets (name-based resolution, receiver-typed where a name is ambiguous),
minus what enclosing `try` handlers catch.  Propagated to a fixpoint over the call graph.
Exception classes are real Python classes (stdlib) or synthetic subclasses built from the liquid2 class table,
so handler subtraction uses the true hierarchy (OverflowError < ArithmeticError, UnicodeError < ValueError, …).
"""

from __future__ import annotations

import ast
import binascii
import builtins
import decimal
from dataclasses import dataclass
from typing import Iterable

from .srcmodel import ClassInfo
from .srcmodel import FunctionInfo
from .srcmodel import Module
from .srcmodel import Program
from .srcmodel import dotted
from .types import TypeApprox
from .types import may_be_big_int
from .types import may_be_unhashable

STD = {
    "decimal.InvalidOperation": decimal.InvalidOperation,
    "decimal.DivisionByZero": decimal.DivisionByZero,
    "decimal.DecimalException": decimal.DecimalException,
    "InvalidOperation": decimal.InvalidOperation,
    "binascii.Error": binascii.Error,
}


@dataclass(frozen=True)
class Esc:
    exc: type
    file: str
    line: int
    qualname: str
    what: str
    chain: tuple[str, ...] = ()

    def key(self) -> tuple:
        return (self.exc.__name__, self.file, self.qualname, self.what)


# ---- catalogue ------------------------------------------------------------------------------------------------
CALL_CATALOGUE: dict[str, tuple[type, ...]] = {
    "open": (OSError,),
    "int": (ValueError, TypeError, OverflowError),
    "float": (ValueError, TypeError, OverflowError),
    "decimal.Decimal": (decimal.InvalidOperation, ValueError, TypeError),
    "math.ceil": (OverflowError, ValueError, TypeError),
    "math.floor": (OverflowError, ValueError, TypeError),
    "math.trunc": (OverflowError, ValueError, TypeError),
    "round": (OverflowError, ValueError, TypeError),
    "itertools.islice": (ValueError,),
    "next": (StopIteration,),
    "base64.b64decode": (binascii.Error, ValueError),
    "base64.urlsafe_b64decode": (binascii.Error, ValueError),
    "base64.b64encode": (TypeError,),
    "datetime.datetime.fromtimestamp": (OverflowError, OSError, ValueError),
    "dateutil.parser.parse": (OverflowError, ValueError),
    "json.dumps": (TypeError, ValueError),
    "babel.Locale.parse": (ValueError,),
    "babel.core.Locale.parse": (ValueError,),
    "operator.getitem": (KeyError, IndexError, TypeError),
    "chr": (ValueError, OverflowError),
}
METHOD_CATALOGUE: dict[str, tuple[type, ...]] = {
    "encode": (UnicodeEncodeError,),
    "decode": (UnicodeDecodeError,),
    "strftime": (ValueError,),
    "index": (ValueError,),
    "fromtimestamp": (OverflowError, OSError, ValueError),
    # file system probes and reads (pathlib.Path / file objects): the file can vanish, be unreadable, or hold bytes that are not text
    "stat": (OSError,),
    "is_file": (OSError,),
    "is_dir": (OSError,),
    "exists": (OSError,),
    "open": (OSError,),
    "read_text": (OSError, UnicodeDecodeError),
    "read_bytes": (OSError,),
}


class Escapes:
    def __init__(self, prog: Program, *, exempt_sites: dict[tuple[str, str], str] | None = None, exempt_edges: dict[tuple[str, str], str] | None = None) -> None:
        self.prog = prog
        self.exempt = exempt_sites or {}
        self.exempt_edges = exempt_edges or {}
        self.used_edges: set[tuple[str, str]] = set()
        self.liquid_error = prog.cls("liquid2.exceptions.LiquidError")
        self._pyclass: dict[str, type] = {}
        self.by_name: dict[str, list[FunctionInfo]] = {}
        for f in prog.all_functions():
            self.by_name.setdefault(f.name, []).append(f)
        self.fn_of_node = {id(f.node): f for f in prog.all_functions()}
        self.local: dict[str, list] = {}
        self.calls: dict[str, list] = {}
        self.esc: dict[str, dict[tuple, Esc]] = {}
        self.exempted: list[tuple[str, str, str]] = []
        self.filter_fns = [f for fs in prog.filter_callables().values() for f in fs]
        self._cfgs: dict = {}
        self.types = TypeApprox(prog)
        self.undeclared: list[str] = []  # stringified / hashed operands whose type the code does not declare
        self._minlen: dict = {}
        self.islice_checked: list[tuple[str, str, bool]] = []
        self.filter_fids = {f.fid for f in self.filter_fns}
        self.n_sites = 0
        self.n_calls = 0
        self.n_resolved = 0

    # ---------------------------------------------------------------- classes
    def pyclass(self, ci: ClassInfo) -> type:
        """Synthetic Python class mirroring a liquid2 exception class (for issubclass tests)."""
        if ci.full in self._pyclass:
            return self._pyclass[ci.full]
        bases: list[type] = []
        for b in ci.bases:
            bases.append(self.pyclass(b))
        for e in ci.ext_bases:
            t = getattr(builtins, e.split(".")[-1], None) if "." not in e or e.startswith("builtins.") else STD.get(e)
            if isinstance(t, type) and issubclass(t, BaseException):
                bases.append(t)
        if not bases:
            bases = [Exception] if any(x.endswith("Error") or x.endswith("Exception") for x in ci.base_exprs) else [object]
        try:
            t = type(ci.name, tuple(bases), {"__liquid__": ci.full})
        except TypeError:
            t = type(ci.name, (bases[0],), {"__liquid__": ci.full})
        self._pyclass[ci.full] = t
        return t

    def exc_class(self, mod: Module, e: ast.AST | None) -> type | None:
        if e is None:
            return None
        if isinstance(e, ast.Call):
            e = e.func
        d = dotted(e)
        if d is None:
            return None
        r = self.prog.resolve(mod, d)
        if isinstance(r, ClassInfo):
            return self.pyclass(r)
        if isinstance(r, str):
            if r in STD:
                return STD[r]
            t = getattr(builtins, r.split(".")[-1], None)
            if isinstance(t, type) and issubclass(t, BaseException):
                return t
            # third-party exception class: model as a direct Exception subclass named after it
            return self._pyclass.setdefault(r, type(r.split(".")[-1], (Exception,), {}))
        t = getattr(builtins, d, None) if "." not in d else STD.get(d)
        if isinstance(t, type) and issubclass(t, BaseException):
            return t
        return None

    def is_liquid(self, t: type) -> bool:
        le = self.pyclass(self.liquid_error)
        return issubclass(t, le)

    # ---------------------------------------------------------------- handlers
    def handler_classes(self, mod: Module, h: ast.ExceptHandler) -> tuple[type, ...]:
        if h.type is None:
            return (BaseException,)
        elts = h.type.elts if isinstance(h.type, ast.Tuple) else [h.type]
        out = []
        for x in elts:
            t = self.exc_class(mod, x)
            if t is not None:
                out.append(t)
        return tuple(out)

    def handler_reraises(self, h: ast.ExceptHandler) -> bool:
        """Bare `raise` (or `raise <same name>`) at the top level of the handler body: the exception still escapes."""
        for s in ast.walk(h):
            if isinstance(s, ast.Raise) and (s.exc is None or (isinstance(s.exc, ast.Name) and s.exc.id == h.name)):
                # conditional re-raise counts as may-reraise
                return True
        return False

    def catchers(self, mod: Module, fn: ast.AST, node: ast.AST) -> list[tuple[tuple[type, ...], bool]]:
        """Handlers (innermost first) protecting *node*: (classes, reraises)."""
        out = []
        child = node
        for a in mod.ancestors(node):
            if isinstance(a, ast.Try):
                in_body = any(child is s for s in a.body)
                if in_body:
                    for h in a.handlers:
                        out.append((self.handler_classes(mod, h), self.handler_reraises(h)))
            if isinstance(a, (ast.With, ast.AsyncWith)):
                for it in a.items:
                    c = it.context_expr
                    if isinstance(c, ast.Call) and (dotted(c.func) or "").endswith("suppress") and any(child is s for s in a.body):
                        cls = tuple(t for t in (self.exc_class(mod, x) for x in c.args) if t is not None)
                        out.append((cls, False))
            child = a
            if a is fn:
                break
        return out

    def survives(self, exc: type, catchers: list[tuple[tuple[type, ...], bool]]) -> bool:
        for classes, reraises in catchers:
            if any(issubclass(exc, c) for c in classes):
                return reraises
        return True

    # ---------------------------------------------------------------- local sites
    def qual_of(self, fi: FunctionInfo, e: ast.AST) -> str | None:
        d = dotted(e)
        if d is None:
            return None
        r = self.prog.resolve(fi.module, d)
        if isinstance(r, str):
            return r
        if isinstance(r, FunctionInfo):
            return f"{r.module.name}.{r.qualname}"
        if isinstance(r, ClassInfo):
            return r.full
        if "." not in d and hasattr(builtins, d):
            # not shadowed locally
            if d in fi.params() or any(isinstance(x, ast.Name) and x.id == d and isinstance(x.ctx, ast.Store) for x in ast.walk(fi.node)):
                return None
            return d
        return None

    def local_sites(self, fi: FunctionInfo) -> list[tuple[ast.AST, type, str]]:
        out: list[tuple[ast.AST, type, str]] = []
        mod = fi.module
        for n in self._own(fi.node):
            if isinstance(n, ast.Raise) and n.exc is not None:
                t = self.exc_class(mod, n.exc)
                if t is not None and not self.is_liquid(t):
                    if isinstance(n.exc, ast.Name) and any(isinstance(a, ast.ExceptHandler) and a.name == n.exc.id for a in mod.ancestors(n)):
                        continue
                    out.append((n, t, f"raise {t.__name__}"))
            elif isinstance(n, ast.Assert):
                out.append((n, AssertionError, f"assert {ast.unparse(n.test)[:50]}"))
            elif isinstance(n, ast.Call):
                q = self.qual_of(fi, n.func)
                if q in CALL_CATALOGUE:
                    if q == "next" and len(n.args) >= 2:
                        continue
                    if q == "round" and len(n.args) >= 2:
                        continue
                    if q in ("int", "float", "round") and n.args and isinstance(n.args[0], ast.Constant):
                        continue
                    if q == "itertools.islice" and self._islice_bounded(fi, n):
                        continue
                    numeric_operand = q in ("int", "float") and len(n.args) == 1 and isinstance(n.args[0], ast.Name) and self._under_numeric_isinstance(mod, n, n.args[0].id)
                    for t in CALL_CATALOGUE[q]:
                        if t is TypeError and numeric_operand:
                            continue  # int()/float() of a value narrowed to float/Decimal/int by an enclosing isinstance test: no TypeError
                        out.append((n, t, f"{q.split('.')[-1]}({ast.unparse(n.args[0])[:40] if n.args else ''})"))
                elif isinstance(n.func, ast.Attribute) and n.func.attr in ("feed", "close", "goahead") and self._is_html_parser(fi, n.func.value):
                    # html.parser / _markupbase raise AssertionError on malformed declarations and marked sections ('<![x]>')
                    out.append((n, AssertionError, f".{n.func.attr}() of an html.parser.HTMLParser on {ast.unparse(n.func.value)[:30]}"))
                elif isinstance(n.func, ast.Attribute) and n.func.attr == "run_in_executor" and len(n.args) >= 2 and isinstance(n.args[1], ast.Attribute) and n.args[1].attr in METHOD_CATALOGUE and self.resolve_call(fi, ast.Call(func=n.args[1], args=list(n.args[2:]), keywords=[])) in (None, []):
                    # a bound method handed to the executor is called there; its exception comes back through the await
                    for t in METHOD_CATALOGUE[n.args[1].attr]:
                        out.append((n, t, f".{n.args[1].attr}() on {ast.unparse(n.args[1].value)[:30]} (run in executor)"))
                elif isinstance(n.func, ast.Attribute) and n.func.attr == "read" and not n.args and isinstance(n.func.value, ast.Name) and self._is_text_file(fi, n.func.value.id):
                    out.append((n, UnicodeDecodeError, f".read() of the text file {n.func.value.id}"))
                elif isinstance(n.func, ast.Attribute) and n.func.attr in METHOD_CATALOGUE and not isinstance(n.func.value, ast.Constant):
                    if n.func.attr in ("stat", "is_file", "is_dir", "exists", "open", "read_text", "read_bytes") and self.resolve_call(fi, n) not in (None, []):
                        continue  # a liquid2 method of that name: followed as a call
                    if n.func.attr == "index" and not n.args:
                        continue
                    if n.func.attr in ("encode", "decode"):
                        handler = (n.args[1] if len(n.args) > 1 else next((k.value for k in n.keywords if k.arg == "errors"), None))
                        if isinstance(handler, ast.Constant) and handler.value in ("surrogatepass", "replace", "ignore", "backslashreplace", "xmlcharrefreplace", "surrogateescape", "namereplace"):
                            continue
                    for t in METHOD_CATALOGUE[n.func.attr]:
                        out.append((n, t, f".{n.func.attr}() on {ast.unparse(n.func.value)[:30]}"))
            elif isinstance(n, ast.BinOp) and isinstance(n.op, (ast.FloorDiv, ast.Div, ast.Mod)):
                if isinstance(n.op, ast.Mod) and (isinstance(n.left, (ast.Constant, ast.JoinedStr)) and isinstance(getattr(n.left, "value", None), str)):
                    continue  # literal format string
                if isinstance(n.right, ast.Constant) and isinstance(n.right.value, (int, float)) and n.right.value != 0:
                    continue
                if isinstance(n.op, ast.Div) and self._pathlike(n):
                    continue
                if isinstance(n.op, ast.Mod) and self._stringy(fi, n.left):
                    for t in (ValueError, TypeError, KeyError):
                        out.append((n, t, f"%-format of {ast.unparse(n.left)[:30]}"))
                else:
                    out.append((n, ZeroDivisionError, f"{ast.unparse(n)[:40]}"))
            elif isinstance(n, ast.Subscript) and isinstance(n.ctx, ast.Load) and not isinstance(n.slice, (ast.Slice, ast.Constant, ast.UnaryOp)) and isinstance(n.value, ast.Attribute) and n.value.attr == "source":
                # character read from the template source by a computed position
                out.append((n, IndexError, f"{ast.unparse(n)[:40]}"))
            elif isinstance(n, ast.Subscript) and isinstance(n.ctx, ast.Load) and isinstance(n.slice, (ast.Constant, ast.UnaryOp)) and not isinstance(n.slice, ast.Slice):
                idx = n.slice
                val = idx.value if isinstance(idx, ast.Constant) else (-(idx.operand.value) if isinstance(idx, ast.UnaryOp) and isinstance(idx.op, ast.USub) and isinstance(idx.operand, ast.Constant) and isinstance(idx.operand.value, int) else None)
                if isinstance(val, int) and not isinstance(val, bool) and not self._index_safe(fi, n, val):
                    out.append((n, IndexError, f"{ast.unparse(n)[:40]}"))
        out.extend(self._typed_sites(fi))
        return out

    def _index_modulo_length(self, fi: FunctionInfo, sub: ast.Subscript) -> bool:
        """The index is `<ctx>.cycle(<key>, len(<the same sequence>))` - written in place or through a local bound once - and every
        definition of `cycle` in liquid2 returns `<something> % <its second parameter>`: an index in range for a non-empty sequence."""
        idx: ast.AST | None = sub.slice
        if isinstance(idx, ast.Name):
            defs = [a.value for a in ast.walk(fi.node) if isinstance(a, ast.Assign) and any(isinstance(t, ast.Name) and t.id == idx.id for t in a.targets)]  # type: ignore[union-attr]
            idx = defs[0] if len(defs) == 1 else None
        if not (isinstance(idx, ast.Call) and isinstance(idx.func, ast.Attribute) and idx.func.attr == "cycle" and len(idx.args) == 2):
            return False
        if ast.unparse(idx.args[1]) != f"len({ast.unparse(sub.value)})":
            return False
        impls = [g for g in self.by_name.get("cycle", []) if g.cls is not None]
        if not impls:
            return False
        for g in impls:
            params = [a.arg for a in g.node.args.args]
            rets = [r.value for r in ast.walk(g.node) if isinstance(r, ast.Return) and r.value is not None]
            if len(params) < 3 or not rets or not all(isinstance(r, ast.BinOp) and isinstance(r.op, ast.Mod) and isinstance(r.right, ast.Name) and r.right.id == params[2] for r in rets):
                return False
        return True

    def _is_text_file(self, fi: FunctionInfo, name: str) -> bool:
        """*name* is bound by `with <x>.open(...)/open(...) as name` without a binary mode."""
        for w in ast.walk(fi.node):
            if isinstance(w, (ast.With, ast.AsyncWith)):
                for it in w.items:
                    c = it.context_expr
                    if isinstance(it.optional_vars, ast.Name) and it.optional_vars.id == name and isinstance(c, ast.Call) and ((isinstance(c.func, ast.Attribute) and c.func.attr == "open") or (isinstance(c.func, ast.Name) and c.func.id == "open")):
                        modes = [a.value for a in c.args if isinstance(a, ast.Constant) and isinstance(a.value, str)] + [k.value.value for k in c.keywords if k.arg == "mode" and isinstance(k.value, ast.Constant)]
                        return not any("b" in m for m in modes if isinstance(m, str) and len(m) <= 3)
        return False

    def _length_guarded(self, fi: FunctionInfo, sub: ast.Subscript) -> bool:
        """The read sits behind a comparison with the length of the same value: an earlier operand of the same `and` chain, or the
        test of an enclosing if / while / conditional expression whose true branch holds the read."""
        mod = fi.module
        target = ast.unparse(sub.value)
        length_names = {target_len for target_len in [f"len({target})"]}
        for a in ast.walk(fi.node):
            if isinstance(a, ast.Assign) and isinstance(a.value, ast.Call) and ast.unparse(a.value) == f"len({target})":
                length_names |= {t.id for t in a.targets if isinstance(t, ast.Name)}

        def mentions_length(e: ast.AST) -> bool:
            return any(isinstance(c, ast.Compare) and any(ast.unparse(x) in length_names for x in ast.walk(c)) for c in ast.walk(e))

        child: ast.AST = sub
        for a in mod.ancestors(sub):
            if isinstance(a, ast.BoolOp) and isinstance(a.op, ast.And):
                idx = next((i for i, v in enumerate(a.values) if any(child is x for x in ast.walk(v))), None)
                if idx and any(mentions_length(v) for v in a.values[:idx]):
                    return True
            if isinstance(a, (ast.If, ast.While)) and any(child is x for b in a.body for x in ast.walk(b)) and mentions_length(a.test) and not (isinstance(a.test, ast.UnaryOp) and isinstance(a.test.op, ast.Not)):
                return True
            if isinstance(a, ast.IfExp) and any(child is x for x in ast.walk(a.body)) and mentions_length(a.test):
                return True
            if a is fi.node:
                break
            child = a
        return False

    def _is_html_parser(self, fi: FunctionInfo, recv: ast.AST) -> bool:
        """recv is a local bound to `Cls(...)` (or `self` inside Cls) where Cls derives from html.parser.HTMLParser."""
        from .srcmodel import ClassInfo

        def derives(ci: ClassInfo) -> bool:
            return any(b.endswith("HTMLParser") for b in self.prog.ext_ancestors(ci))

        if isinstance(recv, ast.Name) and recv.id == "self" and fi.cls is not None:
            return derives(fi.cls)
        if isinstance(recv, ast.Name):
            for a in ast.walk(fi.node):
                if isinstance(a, ast.Assign) and any(isinstance(t, ast.Name) and t.id == recv.id for t in a.targets) and isinstance(a.value, ast.Call):
                    r = self.prog.resolve(fi.module, ast.unparse(a.value.func))
                    if isinstance(r, ClassInfo) and derives(r):
                        return True
        return False

    # ---------------------------------------------------------------- sites that depend on declared types
    STRINGIFIERS = {"str", "repr", "format", "ascii", "markupsafe.escape", "markupsafe.Markup", "markupsafe.soft_str"}

    def _cfg(self, fi: FunctionInfo):  # noqa: ANN202
        from .cfg import CFG

        if fi.fid not in self._cfgs:
            self._cfgs[fi.fid] = CFG(fi.node, noreturn=lambda c, fi=fi: self._noreturn(fi, c))
        return self._cfgs[fi.fid]

    def _noreturn(self, fi: FunctionInfo, c: ast.Call) -> bool:
        cs = self.resolve_call(fi, c)
        return bool(cs) and all(g.node.returns is not None and ast.unparse(g.node.returns) in ("Never", "NoReturn", "typing.NoReturn", "typing.Never") for g in cs)

    def _islice_bounded(self, fi: FunctionInfo, c: ast.Call) -> bool:
        """Every start/stop/step argument is None or an int proven to lie in [0, k*len] (sa.bounds)."""
        from .bounds import BoundFlow
        from .util import cfg_node_of

        if c.keywords or len(c.args) < 2:
            return False
        key = ("bounds", fi.fid)
        if key not in self._minlen:
            self._minlen[key] = BoundFlow(self.prog, fi, self._cfg(fi))
        bf = self._minlen[key]
        ok = all(bf.kinds_at(c, a, cfg_node_of) <= {"none", "len"} for a in c.args[1:])
        self.islice_checked.append((fi.fid, ast.unparse(c)[:60], ok))
        return ok

    def _in_filter(self, fi: FunctionInfo) -> bool:
        f: FunctionInfo | None = fi
        while f is not None:
            if f.fid in self.filter_fids:
                return True
            f = f.parent_fn
        return False

    def _typed_sites(self, fi: FunctionInfo) -> list[tuple[ast.AST, type, str]]:  # noqa: PLR0912, PLR0915
        out: list[tuple[ast.AST, type, str]] = []
        T = self.types
        mod = fi.module
        in_filter = self._in_filter(fi)

        def big(e: ast.AST, kind: str, at: ast.AST) -> None:
            # the message of an `assert` is evaluated only when the assertion fails (its own catalogue entry)
            child: ast.AST = at
            for a in mod.ancestors(at):
                if isinstance(a, ast.Assert) and a.msg is not None and any(child is x for x in ast.walk(a.msg)):
                    return
                if a is fi.node:
                    break
            t = T.of(fi, e)
            v = may_be_big_int(t)
            # the bounds of a range come from the template's data: `f"{r.start}..{r.stop - 1}"` of a value narrowed to range
            stack = [e]
            while stack:
                x = stack.pop()
                if isinstance(x, ast.Attribute) and x.attr in ("start", "stop", "step") and "range" in (T.of(fi, x.value) or ""):
                    v, t = True, "object"
                if isinstance(x, (ast.BinOp, ast.UnaryOp)):  # arithmetic on a bound is still that bound; a call (a converter) is not
                    stack += list(ast.iter_child_nodes(x))
            if t == "Exception" and isinstance(e, ast.Name):
                # str(err) of a caught KeyError/LookupError is the repr of the key, a data value
                for a in mod.ancestors(at):
                    if isinstance(a, ast.ExceptHandler) and a.name == e.id:
                        classes = self.handler_classes(mod, a)
                        if any(issubclass(KeyError, c_) for c_ in classes):
                            v = True
                        break
            if v and t is not None and not in_filter and "object" not in t and "Any" not in t:
                v = False  # engine integers (positions, counters, lengths) outside the filter functions
            txt = ast.unparse(e)[:40]
            if v:
                out.append((at, ValueError, f"{kind} of {txt}"))
            elif v is None:
                self.undeclared.append(f"{fi.file} {fi.qualname}: {kind} of {txt}")

        for n in self._own(fi.node):
            if isinstance(n, ast.Call):
                q = self.qual_of(fi, n.func)
                if q in self.STRINGIFIERS and n.args and not n.keywords and len(n.args) == 1:
                    big(n.args[0], f"{q.split('.')[-1]}()", n)
                elif q == "format" and n.args:
                    big(n.args[0], "format()", n)
                elif q == "len" and len(n.args) == 1:
                    # len() of a range longer than sys.maxsize raises OverflowError; ranges come from `(a..b)` literals
                    t = T.of(fi, n.args[0])
                    td = T.declared(fi, n.args[0])
                    narrowed_safe = t is not None and all(p.strip().split("[")[0] in ("str", "list", "tuple", "dict", "set", "frozenset", "deque", "bytes", "Markup", "Mapping", "Dict", "List", "Tuple", "MutableMapping", "None") for p in t.split("|"))
                    data = td is not None and (("object" in td) or ("Any" in td) or ("range" in td))
                    if data and not narrowed_safe:
                        out.append((n, OverflowError, f"len({ast.unparse(n.args[0])[:30]})"))
                    elif t is None:
                        self.undeclared.append(f"{fi.file} {fi.qualname}: len() of {ast.unparse(n.args[0])[:30]}")
                elif isinstance(n.func, ast.Attribute) and n.func.attr == "format" and T.of(fi, n.func.value) == "str":
                    for a in list(n.args) + [k.value for k in n.keywords]:
                        big(a, ".format()", n)
                # list.pop() / deque.popleft() on a possibly empty sequence
                if isinstance(n.func, ast.Attribute) and ((n.func.attr == "pop" and len(n.args) <= 1 and not n.keywords and all(isinstance(a, (ast.Constant, ast.UnaryOp)) for a in n.args)) or (n.func.attr == "popleft" and not n.args)):
                    rt = T.of(fi, n.func.value)
                    ci = T.class_of(fi, rt)
                    if ci is not None and self.prog.find_method(ci, n.func.attr) is not None:
                        continue  # a liquid2 method of that name: followed as a call
                    if rt is not None and rt.split("[")[0] in ("dict", "Dict", "set", "defaultdict", "DefaultDict", "Mapping", "MutableMapping"):
                        continue  # dict.pop(key) needs an argument and is a different operation; set.pop is not used on data
                    from .lenflow import LenFlow, _text
                    from .util import cfg_node_of

                    recv = _text(n.func.value)
                    ok = False
                    if recv is not None:
                        key = fi.fid
                        if key not in self._minlen:
                            self._minlen[key] = LenFlow(self.prog, fi, self._cfg(fi))
                        ok = self._minlen[key].bound_before(n, recv, cfg_node_of) >= 1
                    if not ok:
                        out.append((n, IndexError, f"{ast.unparse(n)[:40]}"))
            elif isinstance(n, ast.JoinedStr):
                for v in n.values:
                    if isinstance(v, ast.FormattedValue):
                        big(v.value, "f-string", n)
            elif isinstance(n, ast.BinOp) and isinstance(n.op, ast.Mod) and T.of(fi, n.left) == "str":
                for x in n.right.elts if isinstance(n.right, ast.Tuple) else [n.right]:
                    big(x, "%-format", n)
            elif isinstance(n, ast.Subscript) and isinstance(n.ctx, ast.Load) and not isinstance(n.slice, (ast.Slice, ast.Constant)) and not (isinstance(n.slice, ast.UnaryOp) and isinstance(n.slice.operand, ast.Constant)) and not (isinstance(n.value, ast.Attribute) and n.value.attr == "source"):
                # computed-index read of a value declared str / list / tuple / Sequence: IndexError unless a length test guards it
                vt = T.of(fi, n.value)
                if vt is not None and (vt in ("str", "list", "tuple", "bytes") or vt.startswith(("list[", "tuple[", "Sequence", "List[", "Tuple["))) and not self._length_guarded(fi, n) and not self._index_modulo_length(fi, n):
                    out.append((n, IndexError, f"{ast.unparse(n)[:40]} (computed index)"))
            elif isinstance(n, ast.Compare) and len(n.ops) == 1 and isinstance(n.ops[0], (ast.In, ast.NotIn)):
                needle, hay = n.left, n.comparators[0]
                ht = T.of(fi, hay)
                if isinstance(hay, (ast.Tuple, ast.List, ast.Constant, ast.JoinedStr)):
                    continue
                seq_like = ht is not None and ht.split("[")[0].split(" |")[0] in ("str", "list", "tuple", "List", "Tuple", "Sequence", "Markup", "list[str]", "deque", "range")
                if seq_like:
                    continue  # membership in str/list/tuple compares with ==, never hashes
                nt = T.of(fi, needle)
                u = may_be_unhashable(nt)
                if u:
                    out.append((n, TypeError, f"hash of {ast.unparse(needle)[:30]} in `{ast.unparse(n)[:40]}`"))
                elif u is None:
                    self.undeclared.append(f"{fi.file} {fi.qualname}: hash of {ast.unparse(needle)[:30]} in `{ast.unparse(n)[:40]}`")
        # a parameter declared object/Any used as a number (ordering, arithmetic, unary minus) before any path converted or narrowed it
        from .rawflow import RawFlow

        for f_ in RawFlow(self.prog).analyse(fi, lambda _fi, _n: False):
            out.append((f_.node, TypeError, f"{f_.op} on unconverted `{f_.name}` in `{ast.unparse(f_.node)[:40]}`"))
        return out

    def _index_safe(self, fi: FunctionInfo, n: ast.Subscript, idx: int) -> bool:
        """Constant-index reads that cannot fail: fixed-size tuples (.wc), str.split()[0], match groups, and
        sequences whose non-emptiness is established by a dominating test."""
        v = n.value
        if isinstance(v, ast.Attribute) and v.attr in ("wc", "args") and v.attr == "wc":
            return True
        if isinstance(v, ast.Call) and isinstance(v.func, ast.Attribute) and v.func.attr in ("split", "rsplit", "partition", "rpartition", "splitlines") and idx == 0 and v.func.attr != "splitlines":
            return True
        if isinstance(v, ast.Call) and isinstance(v.func, ast.Attribute) and v.func.attr in ("partition", "rpartition"):
            return True
        if isinstance(v, (ast.Tuple, ast.List)) and len(v.elts) > (idx if idx >= 0 else -idx - 1):
            return True
        seq = ast.unparse(v)
        need = idx + 1 if idx >= 0 else -idx
        from .cfg import CFG
        from .util import cfg_node_of
        from .util import guarded_by_test

        cfg = self._cfg(fi)
        tn = cfg_node_of(cfg, n)

        def nonempty(e: ast.AST) -> bool | None:
            if isinstance(e, ast.BoolOp) and isinstance(e.op, ast.And):
                # `A and seq` / `A and len(seq) > k`: reachable via the true edge only
                for v in e.values:
                    r = nonempty(v)
                    if r is False:
                        return False
                return None
            t = ast.unparse(e)
            if t == f"not {seq}":
                return True if need == 1 else None
            if t == seq:
                return False if need == 1 else None
            import re as _re

            m = _re.fullmatch(rf"len\({_re.escape(seq)}\) not in \(([0-9, ]+)\)", t)
            if m:
                ks = [int(x) for x in m.group(1).replace(" ", "").split(",") if x]
                return True if ks and min(ks) >= need else None
            m = _re.fullmatch(rf"len\({_re.escape(seq)}\) == ([0-9]+)", t)
            if m:
                return False if int(m.group(1)) >= need else None
            m = _re.fullmatch(rf"len\({_re.escape(seq)}\) != ([0-9]+)", t)
            if m:
                return True if int(m.group(1)) >= need else None
            for op, bad_true in ((">", False), (">=", False), ("<", True), ("<=", True), ("==", None)):
                if t.startswith(f"len({seq}) {op} "):
                    try:
                        k = int(t.rsplit(" ", 1)[1])
                    except ValueError:
                        return None
                    if op == ">" and k >= need - 1:
                        return False
                    if op == ">=" and k >= need:
                        return False
                    if op == "<" and k >= need:
                        return True
                    if op == "<=" and k >= need - 1:
                        return True
            return None

        if tn is not None and guarded_by_test(cfg, tn, nonempty) is not None:
            return True
        # same-expression guard:  `X and X[0]`
        for a in fi.module.ancestors(n):
            if isinstance(a, ast.BoolOp) and isinstance(a.op, ast.And) and any(ast.unparse(x) in (seq, f"len({seq}) > {need - 1}") for x in a.values):
                return True
            if isinstance(a, ast.IfExp) and ast.unparse(a.test) == seq and any(n is x for x in ast.walk(a.body)):
                return True
            if a is fi.node:
                break
        return False

    def _pathlike(self, n: ast.BinOp) -> bool:
        t = ast.unparse(n)
        return "path" in t.lower() or "Path(" in t

    def _stringy(self, fi: FunctionInfo, e: ast.AST) -> bool:
        t = ast.unparse(e)
        return any(k in t for k in ("message", "text", "fmt", "format", "template"))

    @staticmethod
    def _own(fn: ast.AST) -> Iterable[ast.AST]:
        stack = list(ast.iter_child_nodes(fn))
        while stack:
            n = stack.pop()
            yield n
            if isinstance(n, (ast.FunctionDef, ast.AsyncFunctionDef, ast.ClassDef, ast.Lambda)):
                continue
            stack.extend(ast.iter_child_nodes(n))

    # ---------------------------------------------------------------- call resolution
    TYPED = {
        "context": "liquid2.context.RenderContext", "static_context": "liquid2.context.RenderContext", "ctx": "liquid2.context.RenderContext", "macro_context": "liquid2.context.RenderContext",
        "stream": "liquid2.stream.TokenStream", "tokens": "liquid2.stream.TokenStream", "expr_stream": "liquid2.stream.TokenStream",
        "env": "liquid2.environment.Environment", "environment": "liquid2.environment.Environment",
        "template": "liquid2.template.Template", "base_template": "liquid2.template.Template", "parent": "liquid2.template.Template",
        "lexer": "liquid2.lexer.Lexer",
        "buffer": "liquid2.output.LimitedStringIO", "buf": "liquid2.output.LimitedStringIO",
    }
    TYPED_ATTR = {"env": "liquid2.environment.Environment", "parser": "liquid2.parser.Parser", "loader": "liquid2.loader.BaseLoader", "template": "liquid2.template.Template", "scope": "liquid2.utils.chainmap.ReadOnlyChainMap", "cache": "liquid2.utils.lru_cache.LRUCache"}
    # method names that collide with builtin container / str methods: only followed on typed receivers
    AMBIGUOUS = {"get", "pop", "push", "copy", "update", "items", "keys", "values", "append", "extend", "next", "filter", "join", "split", "strip", "format", "index", "count", "find", "replace", "size", "current", "peek", "load", "write", "read", "close", "clear", "add", "remove", "insert", "sort", "reverse", "lower", "upper", "encode", "decode", "startswith", "endswith", "group", "match", "search", "sub", "parse", "render", "evaluate", "children", "message", "messages", "resolve", "trim", "error", "accept", "backup", "ignore", "skip", "run", "cycle", "loop", "expect", "step", "validate", "markup", "assign", "increment", "decrement"}

    def resolve_call(self, fi: FunctionInfo, c: ast.Call) -> list[FunctionInfo] | None:
        """Callees inside liquid2 ([] = external/opaque, None = unresolved)."""
        f = c.func
        prog = self.prog
        if isinstance(f, ast.Name):
            r = prog.resolve(fi.module, f.id)
            if isinstance(r, FunctionInfo):
                return [r]
            if isinstance(r, ClassInfo):
                out = [m for m in (prog.find_method(r, "__init__"), prog.find_method(r, "__new__")) if m is not None]
                return out
            # nested function of an enclosing function
            p: FunctionInfo | None = fi
            while p is not None:
                q = f"{p.qualname}.<locals>.{f.id}"
                if q in fi.module.functions:
                    return [fi.module.functions[q]]
                p = p.parent_fn
            if isinstance(r, str) or hasattr(builtins, f.id):
                return []
            return None
        if not isinstance(f, ast.Attribute):
            return None
        name = f.attr
        recv = f.value
        # super().m()
        if isinstance(recv, ast.Call) and isinstance(recv.func, ast.Name) and recv.func.id == "super":
            cls = fi.cls or (fi.parent_fn.cls if fi.parent_fn else None)
            if cls is not None:
                for b in prog.mro(cls)[1:]:
                    if name in b.methods:
                        return [b.methods[name]]
            return []
        # self.m()  -> MRO + overrides in subclasses
        if isinstance(recv, ast.Name) and recv.id in ("self", "cls"):
            cls = fi.cls or (fi.parent_fn.cls if fi.parent_fn else None)
            if cls is not None:
                out = []
                m = prog.find_method(cls, name)
                if m is not None:
                    out.append(m)
                for sub in prog.subclasses(cls, strict=True):
                    sm = prog.find_method(sub, name)  # MRO-aware: a mixin listed before the base overrides it
                    if sm is not None and sm not in out:
                        out.append(sm)
                if out:
                    return out
                # attribute holding a callable / class attribute
                return None
        # module.function
        d = dotted(f)
        if d is not None:
            r = prog.resolve(fi.module, d)
            if isinstance(r, FunctionInfo):
                return [r]
            if isinstance(r, ClassInfo):
                return [m for m in (prog.find_method(r, "__init__"),) if m is not None]
            if isinstance(r, str):
                return []
            rr = prog.resolve(fi.module, d.rsplit(".", 1)[0]) if "." in d else None
            if isinstance(rr, ClassInfo):
                m = prog.find_method(rr, name)
                if m is not None:
                    outs = [m]
                    for s_ in prog.subclasses(rr, strict=True):
                        sm = prog.find_method(s_, name)
                        if sm is not None and sm not in outs:
                            outs.append(sm)
                    return outs
        # typed receivers
        tname = None
        if isinstance(recv, ast.Name) and recv.id in self.TYPED:
            tname = self.TYPED[recv.id]
        elif isinstance(recv, ast.Attribute) and recv.attr in self.TYPED_ATTR:
            tname = self.TYPED_ATTR[recv.attr]
        elif isinstance(recv, ast.Name):
            ann = self._annotation(fi, recv.id)
            for short, full in (("RenderContext", "liquid2.context.RenderContext"), ("TokenStream", "liquid2.stream.TokenStream"), ("Environment", "liquid2.environment.Environment"), ("Template", "liquid2.template.Template")):
                if ann and short in ann:
                    tname = full
        if tname is not None:
            ci = prog.resolve_abs(tname)
            if isinstance(ci, ClassInfo):
                out = []
                m = prog.find_method(ci, name)
                if m is not None:
                    out.append(m)
                for sub in prog.subclasses(ci, strict=True):
                    sm = prog.find_method(sub, name)
                    if sm is not None and sm not in out:
                        out.append(sm)
                return out
        # polymorphic AST protocol calls on untyped receivers
        if name in ("render", "render_async") and not (len(c.args) == 2 and not c.keywords):
            tm = prog.resolve_abs("liquid2.template.Template")
            if isinstance(tm, ClassInfo) and name in tm.methods:
                return [tm.methods[name]]
        if name in ("render", "render_async"):
            return [g for g in self.by_name.get(name, []) if g.cls is not None and g.cls.name != "Template"]
        if name in ("evaluate", "evaluate_async", "children", "children_async", "scope", "render", "render_async", "render_to_output", "render_to_output_async", "expressions", "template_scope", "block_scope", "partial_scope", "map", "evaluate_args", "evaluate_args_async", "validate", "message", "messages"):
            return [g for g in self.by_name.get(name, []) if g.cls is not None]
        if name == "parse" and isinstance(recv, (ast.Subscript, ast.Name)) and ("tags" in ast.unparse(recv) or ast.unparse(recv) in ("comment", "content", "output", "raw", "lines")):
            return self._family_methods("liquid2.tag.Tag", "parse")
        if name in self.AMBIGUOUS:
            return []
        cands = [g for g in self.by_name.get(name, []) if g.cls is not None]
        if cands and len(cands) <= 12:
            return cands
        return [] if not cands else None

    def _family_methods(self, base: str, name: str) -> list[FunctionInfo]:
        out = []
        for ci in self.prog.subclasses(base):
            if name in ci.methods:
                out.append(ci.methods[name])
        return out

    def _annotation(self, fi: FunctionInfo, name: str) -> str:
        a = fi.node.args
        for p in a.posonlyargs + a.args + a.kwonlyargs:
            if p.arg == name and p.annotation is not None:
                return ast.unparse(p.annotation)
        return ""

    # ---------------------------------------------------------------- fixpoint
    def compute(self, roots: Iterable[FunctionInfo]) -> None:
        # reachable set + call edges
        work = list(roots)
        seen: dict[str, FunctionInfo] = {}
        edges: dict[str, list[tuple[ast.Call, list[FunctionInfo]]]] = {}
        while work:
            fi = work.pop()
            if fi.fid in seen:
                continue
            seen[fi.fid] = fi
            lst = []
            for c in self._own(fi.node):
                if not isinstance(c, ast.Call):
                    continue
                self.n_calls += 1
                callees = self.resolve_call(fi, c)
                if callees is None:
                    callees = []
                else:
                    self.n_resolved += 1
                # dynamic filter dispatch:  func(left, *args, **kwargs) inside Filter.evaluate*
                if isinstance(c.func, ast.Name) and c.func.id == "func" and fi.cls is not None and fi.cls.name == "Filter":
                    callees = list(self.filter_fns)
                if isinstance(c.func, ast.Name) and c.func.id == "state" and fi.cls is not None and fi.cls.name == "Lexer":
                    callees = [m for m in fi.cls.methods.values() if m.node.returns is not None and "StateFn" in ast.unparse(m.node.returns)]
                if isinstance(c.func, ast.Name) and c.func.id in ("load_func",):
                    callees = [g for g in self.by_name.get("load", []) + self.by_name.get("load_async", []) if g.cls is not None]
                # a function handed to the executor runs there and its exception comes back through the await
                if isinstance(c.func, ast.Attribute) and c.func.attr == "run_in_executor" and len(c.args) >= 2:
                    deferred = self.resolve_call(fi, ast.Call(func=c.args[1], args=list(c.args[2:]), keywords=[]))
                    if deferred:
                        callees = list(callees) + list(deferred)
                # Template.is_up_to_date[_async] call the freshness closure a loader stored with partial(self._uptodate…, …)
                if isinstance(c.func, ast.Attribute) and c.func.attr == "uptodate" and not c.args:
                    callees = list(callees) + [g for nm in ("_uptodate", "_uptodate_async") for g in self.by_name.get(nm, [])]
                if callees:
                    lst.append((c, callees))
                    work.extend(callees)
            # nested defs that are *called* are reached through resolve_call; generators / callbacks passed around:
            for n in self._own(fi.node):
                if isinstance(n, ast.Name) and isinstance(n.ctx, ast.Load):
                    q = f"{fi.qualname}.<locals>.{n.id}"
                    if q in fi.module.functions:
                        g = fi.module.functions[q]
                        lst.append((ast.Call(func=n, args=[], keywords=[], lineno=n.lineno, col_offset=0), [g]))
                        work.append(g)
            edges[fi.fid] = lst
        self.reachable = seen
        # local sites
        for fid, fi in seen.items():
            loc: dict[tuple, Esc] = {}
            for node, exc, what in self.local_sites(fi):
                self.n_sites += 1
                if (fi.qualname, what) in self.exempt or (fi.qualname, f"{exc.__name__}: {what}") in self.exempt:
                    self.exempted.append((fi.fid, what, self.exempt.get((fi.qualname, what)) or self.exempt[(fi.qualname, f"{exc.__name__}: {what}")]))
                    continue
                if self.survives(exc, self.catchers(fi.module, fi.node, node)):
                    e = Esc(exc, fi.file, getattr(node, "lineno", 0), fi.qualname, what)
                    loc[e.key()] = e
            self.esc[fid] = loc
        changed = True
        rounds = 0
        while changed and rounds < 60:
            changed = False
            rounds += 1
            for fid, fi in seen.items():
                cur = self.esc[fid]
                for c, callees in edges[fid]:
                    ek = (fi.qualname, ast.unparse(c)[:60])
                    if ek in self.exempt_edges:
                        self.used_edges.add(ek)
                        continue
                    cat = self.catchers(fi.module, fi.node, c) if hasattr(c, "end_lineno") or fi.module.parent(c) is not None else []
                    for g in callees:
                        for k, e in list(self.esc.get(g.fid, {}).items()):
                            if k in cur:
                                continue
                            if self.survives(e.exc, cat):
                                chain = (f"{fi.qualname}:{getattr(c, 'lineno', 0)}",) + e.chain
                                if len(chain) > 12:
                                    chain = chain[:6] + ("…",) + chain[-5:]
                                cur[k] = Esc(e.exc, e.file, e.line, e.qualname, e.what, chain)
                                changed = True
        self.rounds = rounds

    @staticmethod
    def _under_numeric_isinstance(mod, node: ast.AST, name: str) -> bool:  # noqa: ANN001
        """node lies in the body of an `if isinstance(<name>, (float, Decimal, int, …))` whose types are all numeric."""
        child = node
        for a in mod.ancestors(node):
            if isinstance(a, ast.If) and any(child is b or any(child is x for x in ast.walk(b)) for b in a.body):
                t = a.test
                if isinstance(t, ast.Call) and isinstance(t.func, ast.Name) and t.func.id == "isinstance" and len(t.args) == 2 and isinstance(t.args[0], ast.Name) and t.args[0].id == name:
                    types = t.args[1].elts if isinstance(t.args[1], ast.Tuple) else [t.args[1]]
                    if types and all(ast.unparse(x).split(".")[-1] in ("float", "Decimal", "int", "bool", "Fraction") for x in types):
                        return True
            if isinstance(a, (ast.FunctionDef, ast.AsyncFunctionDef)):
                break
            child = a
        return False

    def escapes_of(self, fi: FunctionInfo) -> list[Esc]:
        return sorted(self.esc.get(fi.fid, {}).values(), key=lambda e: (e.file, e.line, e.exc.__name__))
