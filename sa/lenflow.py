"""Lower bounds on the length of list-valued expressions (forward dataflow over the statement CFG).

State: receiver text (`stack`, `self.expression`, …) -> proven minimum length at that point; absent = 0.
Sources of knowledge: `.append()` / list literals, truthiness and `len(X) <op> k` tests on the taken edge.
Loss of knowledge: `.pop()` (−1), `.clear()`, re-binding, the receiver being handed to a call, and - for `self.attr`
receivers - any `self.method()` call whose transitive body writes that attribute (class-local summary).
Join is the pointwise minimum, so a bound holds on every path.
"""

from __future__ import annotations

import ast
from typing import Callable

from .cfg import CFG
from .cfg import N
from .cfg import forward
from .srcmodel import ClassInfo
from .srcmodel import FunctionInfo
from .srcmodel import Program

GROW = {"append", "appendleft", "insert", "add"}
SHRINK = {"pop", "popleft"}
KEEP = {"extend", "extendleft", "copy", "index", "count", "__len__", "sort", "reverse", "join"}


def _text(e: ast.AST) -> str | None:
    if isinstance(e, ast.Name):
        return e.id
    if isinstance(e, ast.Attribute):
        b = _text(e.value)
        return f"{b}.{e.attr}" if b else None
    return None


class LenFlow:
    def __init__(self, prog: Program, fi: FunctionInfo, cfg: CFG) -> None:
        self.prog = prog
        self.fi = fi
        self.cfg = cfg
        self._mut_cache: dict[tuple[str, str], set[str]] = {}
        self.IN = forward(cfg, {}, self._transfer, self._join, bottom=None)

    # ------------------------------------------------------------------ class-local write summaries
    def _writes(self, cls: ClassInfo, method: str, _seen: set[str] | None = None) -> set[str]:
        """self attributes whose list may be shortened / re-bound by cls.method (transitively through self calls)."""
        key = (cls.full, method)
        if key in self._mut_cache:
            return self._mut_cache[key]
        seen = _seen if _seen is not None else set()
        if method in seen:
            return set()
        seen.add(method)
        out: set[str] = set()
        cands = []
        m = self.prog.find_method(cls, method)
        if m is not None:
            cands.append(m)
        for sub in self.prog.subclasses(cls, strict=True):
            if method in sub.methods:
                cands.append(sub.methods[method])
        if not cands:
            return {"*"}
        for m in cands:
            for n in ast.walk(m.node):
                if isinstance(n, ast.Call) and isinstance(n.func, ast.Attribute):
                    r = _text(n.func.value)
                    if r and r.startswith("self.") and n.func.attr in (SHRINK | {"clear", "remove"}):
                        out.add(r)
                    if isinstance(n.func.value, ast.Name) and n.func.value.id == "self":
                        out |= self._writes(cls, n.func.attr, seen)
                    for a in list(n.args) + [k.value for k in n.keywords]:
                        t = _text(a)
                        if t and t.startswith("self."):
                            out.add(t)
                elif isinstance(n, (ast.Assign, ast.AugAssign, ast.AnnAssign, ast.Delete)):
                    tg = n.targets if isinstance(n, (ast.Assign, ast.Delete)) else [n.target]
                    for t in tg:
                        for x in ast.walk(t):
                            r = _text(x)
                            if r and r.startswith("self.") and isinstance(x, ast.Attribute) and not isinstance(n, ast.AugAssign):
                                out.add(r)
        if _seen is None:
            self._mut_cache[key] = out
        return out

    # ------------------------------------------------------------------ transfer
    @staticmethod
    def _join(a: dict, b: dict) -> dict:
        return {k: min(a[k], b[k]) for k in a.keys() & b.keys() if min(a[k], b[k]) > 0}

    def _refine(self, st: dict, e: ast.AST, truth: bool) -> dict:
        if isinstance(e, ast.UnaryOp) and isinstance(e.op, ast.Not):
            return self._refine(st, e.operand, not truth)
        if isinstance(e, ast.BoolOp):
            if (isinstance(e.op, ast.And) and truth) or (isinstance(e.op, ast.Or) and not truth):
                for v in e.values:
                    st = self._refine(st, v, truth)
            return st
        t = _text(e)
        if t is not None:
            if truth:
                st = dict(st)
                st[t] = max(st.get(t, 0), 1)
            return st
        if isinstance(e, ast.Compare) and len(e.ops) == 1 and isinstance(e.left, ast.Call) and isinstance(e.left.func, ast.Name) and e.left.func.id == "len" and e.left.args:
            r = _text(e.left.args[0])
            k = e.comparators[0]
            if r is None or not (isinstance(k, ast.Constant) and isinstance(k.value, int)):
                return st
            kv = k.value
            op = e.ops[0]
            lo = None
            if truth:
                lo = {ast.Gt: kv + 1, ast.GtE: kv, ast.Eq: kv}.get(type(op))
            else:
                lo = {ast.Lt: kv, ast.LtE: kv + 1, ast.NotEq: kv}.get(type(op))
            if lo is not None and lo > st.get(r, 0):
                st = dict(st)
                st[r] = lo
        return st

    def _apply_expr(self, st: dict, root: ast.AST, stop_at: ast.AST | None = None) -> dict:
        """Effects of the calls inside one statement/expression, in source order; stops before *stop_at*."""
        st = dict(st)
        calls = sorted((n for n in ast.walk(root) if isinstance(n, ast.Call)), key=lambda c: (c.end_lineno or 0, c.end_col_offset or 0))
        for c in calls:
            if c is stop_at:
                break
            f = c.func
            recv = _text(f.value) if isinstance(f, ast.Attribute) else None
            if recv is not None and isinstance(f, ast.Attribute):
                if f.attr in GROW:
                    st[recv] = st.get(recv, 0) + 1
                elif f.attr in SHRINK:
                    st[recv] = max(st.get(recv, 0) - 1, 0)
                elif f.attr == "clear":
                    st.pop(recv, None)
                elif f.attr not in KEEP and recv in st and not (isinstance(f.value, ast.Name) and f.value.id == "self"):
                    # unknown method on a tracked receiver that is a liquid2 object? leave; on a list: harmless
                    pass
            # receivers handed to a callee
            for a in list(c.args) + [k.value for k in c.keywords]:
                t = _text(a)
                if t is not None and t in st:
                    st.pop(t)
            # self.method(): drop self.* receivers the method may shorten
            if isinstance(f, ast.Attribute) and isinstance(f.value, ast.Name) and f.value.id == "self" and self.fi.cls is not None or (isinstance(f, ast.Attribute) and isinstance(f.value, ast.Name) and f.value.id == "self" and self.fi.parent_fn is not None and self.fi.parent_fn.cls is not None):
                cls = self.fi.cls or (self.fi.parent_fn.cls if self.fi.parent_fn else None)
                if cls is not None:
                    w = self._writes(cls, f.attr)  # type: ignore[union-attr]
                    for k in list(st):
                        if k.startswith("self.") and ("*" in w or k in w):
                            st.pop(k)
            elif not isinstance(f, ast.Attribute) or recv is None:
                # opaque call (function value, builtin): cannot reach locals; may reach self attributes only via self
                pass
        return st

    def _transfer(self, n: N, st: dict, label: str) -> dict:
        node = n.node
        if node is None or n.kind in ("entry", "exit", "raise"):
            return st
        if n.kind == "test":
            out = self._apply_expr(st, node)
            if label in ("true", "false"):
                out = self._refine(out, node, label == "true")
            return out
        if n.kind in ("for",):
            return self._apply_expr(st, node.iter) if isinstance(node, (ast.For, ast.AsyncFor)) else st
        if n.kind != "stmt":
            return st
        out = self._apply_expr(st, node)
        # bindings
        tgts: list[ast.AST] = []
        val: ast.AST | None = None
        if isinstance(node, ast.Assign):
            tgts, val = list(node.targets), node.value
        elif isinstance(node, ast.AnnAssign) and node.value is not None:
            tgts, val = [node.target], node.value
        elif isinstance(node, ast.Delete):
            tgts = list(node.targets)
        for t in tgts:
            for x in ast.walk(t):
                r = _text(x)
                if r is None:
                    continue
                for k in list(out):
                    if k == r or k.startswith(r + "."):
                        out.pop(k)
            r = _text(t)
            if r is not None and isinstance(val, (ast.List, ast.Tuple)) and not any(isinstance(e, ast.Starred) for e in val.elts) and val.elts:
                out[r] = len(val.elts)
        if label == "exc":
            return self._join(st, out)
        return out

    # ------------------------------------------------------------------ queries
    def bound_before(self, site: ast.AST, recv: str, cfg_node_of: Callable[[CFG, ast.AST], N | None]) -> int:
        n = cfg_node_of(self.cfg, site)
        if n is None or n.id not in self.IN:
            return 0
        st = self.IN[n.id]
        root = n.node
        if isinstance(root, (ast.For, ast.AsyncFor)):
            root = root.iter
        if root is not None and n.kind in ("stmt", "test", "for"):
            st = self._apply_expr(st, root, stop_at=site)
        return st.get(recv, 0)
