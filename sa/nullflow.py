"""May-be-None flow (an Optional checker for locals, no type checker being available in this sandbox).

Per function, a forward dataflow over the statement CFG gives every local one of: NN (not None on every path here) or MAYBE.
MAYBE sources: the constant None; a conditional expression with a None arm; a call whose callee is declared to return an
Optional (`-> X | None`, `Optional[X]`, resolved by name in the same module / class / enclosing function) or is a local name bound
to one. Tests refine: `x is None`, `x is not None`, `if x`, `if not x`, `isinstance(x, T)`, `assert x`, and conjunctions /
disjunctions of them. Two kinds of finding:

* DEREF   - `x.attr`, `x[...]`, `x(...)`, `await x`, iteration over x where x is MAYBE: AttributeError / TypeError on None;
* RETURN  - a function whose return annotation does not admit None returns a MAYBE value: every caller trusts the annotation.

Parameters follow their annotation (Optional -> MAYBE, else NN); attributes and subscripts are not tracked (NN).
"""

from __future__ import annotations

import ast
from dataclasses import dataclass

from .cfg import CFG
from .cfg import N
from .cfg import forward
from .srcmodel import FunctionInfo
from .srcmodel import Program

NN, MAYBE = "nn", "maybe"


def _admits_none(ann: ast.AST | None) -> bool | None:
    """True/False if the annotation is present and (does not) admit None; None when there is no annotation."""
    if ann is None:
        return None
    t = ast.unparse(ann)
    if isinstance(ann, ast.Constant) and isinstance(ann.value, str):
        t = ann.value
    return "None" in t or "Optional" in t or t in ("Any", "object", "typing.Any")


@dataclass
class Finding:
    kind: str  # deref | return
    fn: FunctionInfo
    node: ast.AST
    name: str
    why: str


def _own(node: ast.AST):
    yield node
    for ch in ast.iter_child_nodes(node):
        if isinstance(ch, (ast.FunctionDef, ast.AsyncFunctionDef, ast.ClassDef, ast.Lambda)):
            continue
        yield from _own(ch)


class NullFlow:
    def __init__(self, prog: Program) -> None:
        self.prog = prog

    # ------------------------------------------------------------------ callee resolution
    def _callee_optional(self, fi: FunctionInfo, call: ast.Call) -> str | None:
        f = call.func
        cand: FunctionInfo | None = None
        if isinstance(f, ast.Name):
            cand = fi.module.functions.get(f"{fi.qualname}.<locals>.{f.id}") or fi.module.functions.get(f.id)
            if cand is None and fi.parent_fn is not None:
                cand = fi.module.functions.get(f"{fi.parent_fn.qualname}.<locals>.{f.id}")
            if cand is None:
                r = self.prog.resolve(fi.module, f.id)
                cand = r if isinstance(r, FunctionInfo) else None
        elif isinstance(f, ast.Attribute) and isinstance(f.value, ast.Name) and f.value.id == "self" and fi.cls is not None:
            cand = self.prog.find_method(fi.cls, f.attr)
        if cand is None:
            return None
        adm = _admits_none(cand.node.returns)
        if adm is True and ast.unparse(cand.node.returns) not in ("Any", "object", "typing.Any") and "None" in ast.unparse(cand.node.returns) and ast.unparse(cand.node.returns) != "None":
            return f"{cand.qualname}() is declared `-> {ast.unparse(cand.node.returns)}`"
        return None

    def value_state(self, fi: FunctionInfo, e: ast.AST | None, st: dict) -> tuple[str, str]:
        if e is None:
            return NN, ""
        if isinstance(e, ast.Await):
            return self.value_state(fi, e.value, st)
        if isinstance(e, ast.Constant):
            return (MAYBE, "the constant None") if e.value is None else (NN, "")
        if isinstance(e, ast.Name):
            v = st.get(e.id)
            return (v[0], v[1]) if v else (NN, "")
        if isinstance(e, ast.IfExp):
            t, f = dict(st), dict(st)
            self.refine(e.test, t, True)
            self.refine(e.test, f, False)
            a, b = self.value_state(fi, e.body, t), self.value_state(fi, e.orelse, f)
            return a if a[0] == MAYBE else b
        if isinstance(e, ast.BoolOp) and isinstance(e.op, ast.Or):
            # a or b: None only if the last operand can be None (earlier None operands are skipped)
            return self.value_state(fi, e.values[-1], st)
        if isinstance(e, ast.NamedExpr):
            return self.value_state(fi, e.value, st)
        if isinstance(e, ast.Call):
            why = self._callee_optional(fi, e)
            if why:
                return MAYBE, why
        return NN, ""

    # ------------------------------------------------------------------ refinement
    def refine(self, test: ast.AST, st: dict, branch: bool) -> None:
        if isinstance(test, ast.UnaryOp) and isinstance(test.op, ast.Not):
            self.refine(test.operand, st, not branch)
            return
        if isinstance(test, ast.BoolOp):
            if (isinstance(test.op, ast.And) and branch) or (isinstance(test.op, ast.Or) and not branch):
                for v in test.values:
                    self.refine(v, st, branch)
            return
        if isinstance(test, ast.NamedExpr) and isinstance(test.target, ast.Name):
            if branch:
                st[test.target.id] = (NN, "")
            return
        if isinstance(test, ast.Name):
            if branch:
                st[test.id] = (NN, "")
            return
        if isinstance(test, ast.Compare) and len(test.ops) == 1 and isinstance(test.left, ast.Name) and isinstance(test.comparators[0], ast.Constant) and test.comparators[0].value is None:
            is_not = isinstance(test.ops[0], (ast.IsNot, ast.NotEq))
            is_ = isinstance(test.ops[0], (ast.Is, ast.Eq))
            if (is_not and branch) or (is_ and not branch):
                st[test.left.id] = (NN, "")
            return
        if isinstance(test, ast.Call) and isinstance(test.func, ast.Name) and test.func.id in ("isinstance", "is_token_type", "is_tag_token", "is_output_token", "hasattr", "callable") and test.args and isinstance(test.args[0], ast.Name):
            if branch:
                st[test.args[0].id] = (NN, "")

    # ------------------------------------------------------------------ per function
    def analyse(self, fi: FunctionInfo) -> list[Finding]:
        fn = fi.node
        init: dict[str, tuple[str, str]] = {}
        a = fn.args
        defaults = dict(zip([p.arg for p in (a.posonlyargs + a.args)][-len(a.defaults) :] if a.defaults else [], a.defaults))
        defaults.update({p.arg: d for p, d in zip(a.kwonlyargs, a.kw_defaults) if d is not None})
        for p in a.posonlyargs + a.args + a.kwonlyargs:
            adm = _admits_none(p.annotation)
            d = defaults.get(p.arg)
            if adm is True and p.annotation is not None and "None" in ast.unparse(p.annotation):
                init[p.arg] = (MAYBE, f"parameter declared `{ast.unparse(p.annotation)}`")
            elif isinstance(d, ast.Constant) and d.value is None and adm is None:
                init[p.arg] = (MAYBE, "parameter defaults to None")
        if not any(isinstance(x, (ast.Constant,)) and x.value is None for x in _own(fn)) and not init and not any(isinstance(x, ast.Call) for x in _own(fn)):
            return []
        cfg = CFG(fn)

        def bind(t: ast.AST, val: tuple[str, str], st: dict) -> None:
            if isinstance(t, ast.Name):
                st[t.id] = val
            elif isinstance(t, (ast.Tuple, ast.List)):
                for x in t.elts:
                    bind(x, (NN, ""), st)

        def transfer(n: N, st: dict, label: str) -> dict:
            if label == "exc" or n.node is None:
                return st
            nd = n.node
            if n.kind == "test":
                st = dict(st)
                for x in _own(nd):
                    if isinstance(x, ast.NamedExpr) and isinstance(x.target, ast.Name):
                        st[x.target.id] = self.value_state(fi, x.value, st)
                if label in ("true", "false"):
                    self.refine(nd, st, label == "true")
                return st
            if n.kind == "for" and isinstance(nd, (ast.For, ast.AsyncFor)):
                st = dict(st)
                bind(nd.target, (NN, ""), st)
                return st
            if n.kind == "with_enter" and isinstance(nd, (ast.With, ast.AsyncWith)):
                st = dict(st)
                for it in nd.items:
                    if it.optional_vars is not None:
                        bind(it.optional_vars, (NN, ""), st)
                return st
            if n.kind == "handler" and isinstance(nd, ast.ExceptHandler) and nd.name:
                st = dict(st)
                st[nd.name] = (NN, "")
                return st
            if n.kind != "stmt" or n.note in ("def", "unhandled"):
                return st
            st = dict(st)
            if isinstance(nd, ast.Assign):
                val = self.value_state(fi, nd.value, st)
                for t in nd.targets:
                    bind(t, val, st)
            elif isinstance(nd, ast.AnnAssign) and nd.value is not None:
                bind(nd.target, self.value_state(fi, nd.value, st), st)
            elif isinstance(nd, ast.AugAssign):
                bind(nd.target, (NN, ""), st)
            elif isinstance(nd, ast.Assert):
                self.refine(nd.test, st, True)
            return st

        def join(x: dict, y: dict) -> dict:
            out = {}
            for k in set(x) | set(y):
                a_, b_ = x.get(k, (NN, "")), y.get(k, (NN, ""))
                out[k] = a_ if a_[0] == MAYBE else b_
            return out

        IN = forward(cfg, init, transfer, join)
        out: list[Finding] = []
        seen: set[int] = set()
        ret_admits = _admits_none(fn.returns)
        is_gen = any(isinstance(x, (ast.Yield, ast.YieldFrom)) for x in _own(fn))
        for n in cfg.nodes:
            if n.node is None or n.id not in IN or n.kind not in ("stmt", "test", "for") or n.note in ("def", "unhandled"):
                continue
            if n.kind == "stmt" and isinstance(n.node, (ast.Try, ast.If, ast.While, ast.For, ast.AsyncFor, ast.With, ast.AsyncWith, ast.Match)):
                continue
            if id(n.node) in seen:
                continue
            seen.add(id(n.node))
            st = dict(IN[n.id])
            roots = [n.node.iter] if n.kind == "for" and isinstance(n.node, (ast.For, ast.AsyncFor)) else [n.node]
            for root in roots:
                self._scan(fi, root, st, out, iterated=n.kind == "for")
            if isinstance(n.node, ast.Return) and n.node.value is not None and ret_admits is False and not is_gen:
                v = self.value_state(fi, n.node.value, st)
                if v[0] == MAYBE:
                    out.append(Finding("return", fi, n.node, ast.unparse(n.node.value)[:40], v[1]))
        return out

    def _scan(self, fi: FunctionInfo, root: ast.AST, st: dict, out: list[Finding], *, iterated: bool = False) -> None:
        """Dereferences inside one statement; `a and a.b`, `a.b if a else c`, `a is not None and …` refine as they go."""
        if isinstance(root, (ast.FunctionDef, ast.AsyncFunctionDef, ast.Lambda, ast.ClassDef)):
            return
        if iterated and isinstance(root, ast.Name) and st.get(root.id, (NN, ""))[0] == MAYBE:
            out.append(Finding("deref", fi, root, root.id, st[root.id][1]))
        if isinstance(root, ast.BoolOp):
            cur = dict(st)
            for v in root.values:
                self._scan(fi, v, cur, out)
                self.refine(v, cur, isinstance(root.op, ast.And))
            return
        if isinstance(root, ast.IfExp):
            self._scan(fi, root.test, st, out)
            t, f = dict(st), dict(st)
            self.refine(root.test, t, True)
            self.refine(root.test, f, False)
            self._scan(fi, root.body, t, out)
            self._scan(fi, root.orelse, f, out)
            return
        tgt = None
        if isinstance(root, ast.Attribute) and isinstance(root.value, ast.Name):
            tgt = root.value
        elif isinstance(root, ast.Subscript) and isinstance(root.value, ast.Name) and isinstance(root.ctx, ast.Load):
            tgt = root.value
        elif isinstance(root, ast.Call) and isinstance(root.func, ast.Name):
            tgt = root.func
        elif isinstance(root, ast.Await) and isinstance(root.value, ast.Name):
            tgt = root.value
        if tgt is not None and st.get(tgt.id, (NN, ""))[0] == MAYBE:
            out.append(Finding("deref", fi, root, tgt.id, st[tgt.id][1]))
        for ch in ast.iter_child_nodes(root):
            self._scan(fi, ch, st, out)
