"""May-be-a-range flow: which locals can hold a `range` object (R), a lazy iterator over one (RI) or something else (O),
and where such a value is copied into a container.

A Liquid range literal `(a..b)` evaluates to a Python `range` whose length is chosen by the template text (twelve digits give
10**12 elements). Iterating it lazily is bounded by the loop limit; copying it (`list(x)`, `sorted(x)`, `[*x]`, …) allocates
len(x) slots before any limit is consulted: MemoryError - not a LiquidError - or minutes of work for a forty-character template.

Domain per local: subset of {R, RI, O}. Sources: values read from the render context (`….evaluate(context)`, parameters
annotated `object`/`Any`) are {R, O}; `isinstance(v, range)` refines (true: {R}; false: drops R - an iterator over a range is
NOT an instance of range, so RI survives the false branch). Transfer: iter/islice/reversed/enumerate/zip make RI out of R or
RI; `v[a:b]` keeps R; everything else is O. Calls to methods of the same class use per-element return summaries (tuple
returns are tracked element-wise) and propagate argument kinds into parameters (fixpoint over the class).
"""

from __future__ import annotations

import ast
from dataclasses import dataclass

from .cfg import CFG
from .cfg import N
from .cfg import forward
from .srcmodel import FunctionInfo
from .srcmodel import Program

R, RI, O = "range", "range-iterator", "other"
ANY = frozenset({R, O})
LAZY = {"iter", "islice", "reversed", "enumerate", "zip", "chain", "aiter"}
COPY = {"list", "tuple", "sorted", "set", "frozenset", "deque"}

Kinds = frozenset


@dataclass
class Copy:
    fn: FunctionInfo
    call: ast.AST
    arg: str
    kinds: frozenset


def _is_ctx_eval(e: ast.AST) -> bool:
    if isinstance(e, ast.Await):
        e = e.value
    return isinstance(e, ast.Call) and isinstance(e.func, ast.Attribute) and e.func.attr in ("evaluate", "evaluate_async", "resolve", "get")


class RangeFlow:
    def __init__(self, prog: Program, methods: dict[str, FunctionInfo]) -> None:
        """methods: the methods of one class (called as self.m(...)) or the functions of one module (called as m(...))."""
        self.prog = prog
        self.methods = dict(methods)
        self.param_kinds: dict[tuple[str, str], frozenset] = {}
        self.ret: dict[str, list[frozenset]] = {}  # method -> kinds per returned tuple element (or one element)
        self.copies: list[Copy] = []
        # generator functions (module level or nested): calling one only wraps its first argument lazily
        self._generators: set[str] = set()
        for m in self.methods.values():
            for d in ast.walk(m.node):
                if isinstance(d, (ast.FunctionDef, ast.AsyncFunctionDef)) and any(isinstance(y, (ast.Yield, ast.YieldFrom)) for y in ast.walk(d)) and not any(
                    isinstance(y, (ast.Yield, ast.YieldFrom)) for sub in ast.walk(d) if sub is not d and isinstance(sub, (ast.FunctionDef, ast.AsyncFunctionDef)) for y in ast.walk(sub)
                ):
                    self._generators.add(d.name)
        for name, m in self.methods.items():
            a = m.node.args
            for p in a.posonlyargs + a.args + a.kwonlyargs:
                ann = ast.unparse(p.annotation) if p.annotation is not None else ""
                self.param_kinds[(name, p.arg)] = ANY if ann in ("object", "Any", "typing.Any") else frozenset({O})
        for _ in range(6):
            before = (dict(self.param_kinds), {k: list(v) for k, v in self.ret.items()})
            self.copies = []
            for name, m in self.methods.items():
                self._solve(name, m)
            if before == (self.param_kinds, self.ret):
                break

    # ------------------------------------------------------------------ expression kinds
    def kinds(self, e: ast.AST | None, st: dict) -> list[frozenset]:
        """Kinds per tuple element of e (a single-element list for a scalar)."""
        if e is None:
            return [frozenset({O})]
        if isinstance(e, ast.Await):
            return self.kinds(e.value, st)
        if isinstance(e, ast.Tuple):
            return [self.kinds(x, st)[0] for x in e.elts]
        if isinstance(e, ast.Name):
            return [st.get(e.id, frozenset({O}))]
        if isinstance(e, ast.NamedExpr):
            return self.kinds(e.value, st)
        if isinstance(e, ast.IfExp):
            t, f = dict(st), dict(st)
            self.refine(e.test, t, True)
            self.refine(e.test, f, False)
            a, b = self.kinds(e.body, t), self.kinds(e.orelse, f)
            if len(a) != len(b):
                return [frozenset().union(*a, *b)]
            return [x | y for x, y in zip(a, b)]
        if isinstance(e, ast.Subscript):
            base = self.kinds(e.value, st)[0]
            if isinstance(e.slice, ast.Slice):
                return [frozenset({R if k == R else O for k in base})]
            return [frozenset({O})]
        if isinstance(e, ast.Call):
            f = e.func
            if isinstance(f, ast.Name) and f.id == "range":
                return [frozenset({R})]
            if isinstance(f, ast.Name) and f.id in LAZY and e.args:
                srcs = e.args if f.id in ("zip", "chain") else e.args[:1]  # islice(it, start, stop): only `it` is iterated
                base = frozenset().union(*(self.kinds(a, st)[0] for a in srcs))
                return [frozenset({RI if k in (R, RI) else O for k in base})]
            if isinstance(f, ast.Name) and f.id in COPY:
                return [frozenset({O})]
            if isinstance(f, ast.Name) and f.id in self._generators and e.args:
                base = self.kinds(e.args[0], st)[0]
                return [frozenset({RI if k in (R, RI) else O for k in base})]
            callee = self._callee(e)
            if callee is not None:
                self._bind_args(callee, e, st)
                return self.ret.get(callee) or [frozenset({O})]
            if _is_ctx_eval(e):
                return [ANY]
            return [frozenset({O})]
        return [frozenset({O})]

    def _callee(self, call: ast.Call) -> str | None:
        f = call.func
        if isinstance(f, ast.Attribute) and isinstance(f.value, ast.Name) and f.value.id == "self" and f.attr in self.methods and self.methods[f.attr].cls is not None:
            return f.attr
        if isinstance(f, ast.Name) and f.id in self.methods and self.methods[f.id].cls is None:
            return f.id
        return None

    def _bind_args(self, callee: str, call: ast.Call, st: dict) -> None:
        m = self.methods[callee]
        params = [p.arg for p in m.node.args.posonlyargs + m.node.args.args if p.arg != "self"]
        for i, a in enumerate(call.args):
            if i < len(params):
                key = (callee, params[i])
                self.param_kinds[key] = self.param_kinds.get(key, frozenset()) | self.kinds(a, st)[0]
        for k in call.keywords:
            if k.arg is not None and (callee, k.arg) in self.param_kinds:
                self.param_kinds[(callee, k.arg)] |= self.kinds(k.value, st)[0]

    def refine(self, test: ast.AST, st: dict, branch: bool) -> None:
        if isinstance(test, ast.UnaryOp) and isinstance(test.op, ast.Not):
            self.refine(test.operand, st, not branch)
            return
        if isinstance(test, ast.BoolOp):
            if (isinstance(test.op, ast.And) and branch) or (isinstance(test.op, ast.Or) and not branch):
                for v in test.values:
                    self.refine(v, st, branch)
            return
        if isinstance(test, ast.Call) and isinstance(test.func, ast.Name) and test.func.id == "isinstance" and len(test.args) == 2 and isinstance(test.args[0], ast.Name):
            v = test.args[0].id
            ts = test.args[1].elts if isinstance(test.args[1], ast.Tuple) else [test.args[1]]
            names = {ast.unparse(x) for x in ts}
            cur = st.get(v, frozenset({O}))
            if names == {"range"}:
                st[v] = (cur & {R}) if branch else (cur - {R})
            elif names <= {"Sequence", "Iterable", "Collection", "Sized", "Reversible", "Container", "abc.Sequence", "abc.Iterable"} and not branch:
                st[v] = cur - {R}  # a range is an instance of each of these: it never takes the false branch
            elif "range" not in names and branch:
                # an instance of another class (Mapping, Sequence - range IS a Sequence; only classes a range is not an instance of exclude it)
                if names <= {"Mapping", "dict", "str", "list", "tuple", "int", "float", "bool", "Markup"}:
                    st[v] = cur - {R, RI}

    # ------------------------------------------------------------------ per-method dataflow
    def _solve(self, name: str, m: FunctionInfo) -> None:
        cfg = CFG(m.node)
        init = {p: k for (mn, p), k in self.param_kinds.items() if mn == name}

        def assign(t: ast.AST, ks: list[frozenset], st: dict) -> None:
            if isinstance(t, ast.Name):
                st[t.id] = ks[0] if len(ks) == 1 else frozenset().union(*ks)
            elif isinstance(t, (ast.Tuple, ast.List)):
                if len(ks) == len(t.elts):
                    for x, k in zip(t.elts, ks):
                        assign(x, [k], st)
                else:
                    for x in t.elts:
                        assign(x, [frozenset().union(*ks)], st)

        def scan(node: ast.AST, st: dict, int_known: frozenset = frozenset()) -> None:
            """Record copies inside one statement/test (IfExp branches see their refinement)."""
            if isinstance(node, (ast.FunctionDef, ast.AsyncFunctionDef, ast.Lambda, ast.ClassDef)):
                return
            if isinstance(node, ast.IfExp):
                scan(node.test, st, int_known)
                t, f = dict(st), dict(st)
                self.refine(node.test, t, True)
                self.refine(node.test, f, False)
                scan(node.body, t, int_known)
                scan(node.orelse, f, int_known)
                return
            if isinstance(node, ast.Call) and isinstance(node.func, ast.Name) and node.func.id in COPY and node.args:
                ks = self.kinds(node.args[0], st)[0]
                if ks & {R, RI}:
                    self.copies.append(Copy(m, node, ast.unparse(node.args[0]), ks))
            if isinstance(node, ast.BoolOp) and isinstance(node.op, ast.And):
                # `isinstance(x, int) and x in r`: the later operands see the earlier tests
                known = set(int_known)
                for v in node.values:
                    scan(v, st, frozenset(known))
                    if isinstance(v, ast.Call) and isinstance(v.func, ast.Name) and v.func.id == "isinstance" and len(v.args) == 2 and isinstance(v.args[0], ast.Name) and ast.unparse(v.args[1]) in ("int", "(int,)"):
                        known.add(v.args[0].id)
                return
            if isinstance(node, ast.Compare) and len(node.ops) == 1 and isinstance(node.ops[0], (ast.In, ast.NotIn)):
                # membership of a range is constant time for an int only: any other operand is compared with every element
                ks = self.kinds(node.comparators[0], st)[0]
                lhs = node.left
                if R in ks and not (isinstance(lhs, ast.Name) and lhs.id in int_known) and not (isinstance(lhs, ast.Constant) and isinstance(lhs.value, int)):
                    self.copies.append(Copy(m, node, ast.unparse(node.comparators[0]), frozenset({R})))
            if isinstance(node, (ast.List, ast.Tuple, ast.Set)):
                for x in node.elts:
                    if isinstance(x, ast.Starred):
                        ks = self.kinds(x.value, st)[0]
                        if ks & {R, RI}:
                            self.copies.append(Copy(m, node, ast.unparse(x.value), ks))
            if isinstance(node, ast.Call) and isinstance(node.func, ast.Attribute) and node.func.attr == "join" and node.args:
                a0 = node.args[0]
                src = a0.generators[0].iter if isinstance(a0, (ast.GeneratorExp, ast.ListComp)) else a0
                ks = self.kinds(src, st)[0]
                if ks & {R, RI}:
                    self.copies.append(Copy(m, node, ast.unparse(src), ks))
            if isinstance(node, (ast.ListComp, ast.SetComp, ast.DictComp)):
                ks = self.kinds(node.generators[0].iter, st)[0]
                if ks & {R, RI}:
                    self.copies.append(Copy(m, node, ast.unparse(node.generators[0].iter), ks))
            if isinstance(node, ast.Call) and self._callee(node) is not None:
                self._bind_args(self._callee(node), node, st)  # type: ignore[arg-type]
            for ch in ast.iter_child_nodes(node):
                scan(ch, st, int_known)

        rets: list[list[frozenset]] = []

        def transfer(n: N, st: dict, label: str) -> dict:
            if label == "exc":
                return st
            nd = n.node
            if nd is None:
                return st
            if n.kind == "test":
                st = dict(st)
                if label in ("true", "false"):
                    self.refine(nd, st, label == "true")
                return st
            if n.kind == "for" and isinstance(nd, (ast.For, ast.AsyncFor)):
                st = dict(st)
                assign(nd.target, [frozenset({O})], st)
                return st
            if n.kind != "stmt" or n.note in ("def", "unhandled"):
                return st
            st = dict(st)
            if isinstance(nd, ast.Assign):
                ks = self.kinds(nd.value, st)
                for t in nd.targets:
                    assign(t, ks, st)
            elif isinstance(nd, ast.AnnAssign) and nd.value is not None:
                assign(nd.target, self.kinds(nd.value, st), st)
            return st

        def join(a: dict, b: dict) -> dict:
            out = dict(a)
            for k, v in b.items():
                out[k] = out.get(k, frozenset()) | v
            return out

        IN = forward(cfg, init, transfer, join)
        seen: set[int] = set()
        self.copies = [c for c in self.copies if c.fn is not m]
        for n in cfg.nodes:
            if n.node is None or n.id not in IN or n.kind not in ("stmt", "test") or n.note in ("def", "unhandled"):
                continue
            if n.kind == "stmt" and isinstance(n.node, (ast.Try, ast.If, ast.While, ast.For, ast.AsyncFor, ast.With, ast.AsyncWith, ast.Match)):
                continue
            if id(n.node) in seen:
                continue
            seen.add(id(n.node))
            st = IN[n.id]
            scan(n.node, st)
            if isinstance(n.node, ast.Return) and n.node.value is not None:
                rets.append(self.kinds(n.node.value, st))
        if rets:
            width = len(rets[0])
            if all(len(r) == width for r in rets):
                self.ret[name] = [frozenset().union(*(r[i] for r in rets)) for i in range(width)]
            else:
                self.ret[name] = [frozenset().union(*(k for r in rets for k in r))]
