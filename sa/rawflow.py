"""Unconverted-data flow: a template value used as a number before anything made it one.

Filter arguments and expression operands arrive as whatever the template's data holds. A parameter declared `object` / `Any`
is RAW until, on the path in question, it was rebound from a conversion (`to_int`, `num_arg`, `int`, `float`, `str`, `len`,
`decimal.Decimal`, a constant, arithmetic over converted values, …) or narrowed by `isinstance`. An ordering comparison, an
arithmetic operator or a unary minus applied to a RAW name raises TypeError for a str / list / None operand - not a LiquidError -
unless a handler for TypeError encloses it. Forward may-analysis over the statement CFG (RAW on some path = RAW); exceptional
edges carry the state from before the statement, so `try: n = to_int(n)  except …: n = 0` converts on both paths while
`try: pass  except …` does not.

Only parameters are sources; locals computed from unknown calls are taken as converted (no finding without a declared data type).
"""

from __future__ import annotations

import ast
from dataclasses import dataclass

from .cfg import CFG
from .cfg import N
from .cfg import forward
from .srcmodel import FunctionInfo
from .srcmodel import Program

RAW, OK = "raw", "ok"
DATA_ANNOTATIONS = ("object", "Any", "typing.Any")
ARITH = (ast.Add, ast.Sub, ast.Mult, ast.Div, ast.FloorDiv, ast.Mod, ast.Pow)
ORDER = (ast.Lt, ast.Gt, ast.LtE, ast.GtE)


@dataclass
class Finding:
    fn: FunctionInfo
    node: ast.AST
    name: str
    op: str
    why: str


def _own(node: ast.AST):
    yield node
    for ch in ast.iter_child_nodes(node):
        if isinstance(ch, (ast.FunctionDef, ast.AsyncFunctionDef, ast.ClassDef, ast.Lambda)):
            continue
        yield from _own(ch)


class RawFlow:
    def __init__(self, prog: Program) -> None:
        self.prog = prog

    def value_state(self, e: ast.AST | None, st: dict) -> tuple[str, str]:
        if isinstance(e, ast.Name):
            return st.get(e.id, (OK, ""))
        if isinstance(e, ast.IfExp):
            t, f = dict(st), dict(st)
            self.refine(e.test, t, True)
            self.refine(e.test, f, False)
            a, b = self.value_state(e.body, t), self.value_state(e.orelse, f)
            return a if a[0] == RAW else b
        if isinstance(e, ast.BoolOp):
            for v in e.values:
                s = self.value_state(v, st)
                if s[0] == RAW:
                    return s
            return OK, ""
        if isinstance(e, ast.NamedExpr):
            return self.value_state(e.value, st)
        return OK, ""  # calls (conversions or unknown), constants, arithmetic results, attributes

    def refine(self, test: ast.AST, st: dict, branch: bool) -> None:
        if isinstance(test, ast.UnaryOp) and isinstance(test.op, ast.Not):
            self.refine(test.operand, st, not branch)
            return
        if isinstance(test, ast.BoolOp):
            if (isinstance(test.op, ast.And) and branch) or (isinstance(test.op, ast.Or) and not branch):
                for v in test.values:
                    self.refine(v, st, branch)
            return
        if isinstance(test, ast.Call) and isinstance(test.func, ast.Name) and test.func.id == "isinstance" and test.args and isinstance(test.args[0], ast.Name):
            if branch:
                st[test.args[0].id] = (OK, "")
            return

    def analyse(self, fi: FunctionInfo, catches_type_error) -> list[Finding]:  # noqa: ANN001
        fn = fi.node
        a = fn.args
        init: dict[str, tuple[str, str]] = {}
        for p in a.posonlyargs + a.args + a.kwonlyargs:
            if p.annotation is not None and ast.unparse(p.annotation) in DATA_ANNOTATIONS:
                init[p.arg] = (RAW, f"parameter `{p.arg}: {ast.unparse(p.annotation)}`")
        if not init:
            return []
        cfg = CFG(fn)

        def bind(t: ast.AST, val: tuple[str, str], st: dict) -> None:
            if isinstance(t, ast.Name):
                st[t.id] = val
            elif isinstance(t, (ast.Tuple, ast.List, ast.Starred)):
                for x in getattr(t, "elts", [getattr(t, "value", None)]):
                    if x is not None:
                        bind(x, (OK, ""), st)

        def transfer(n: N, st: dict, label: str) -> dict:
            if label == "exc" or n.node is None:
                return st
            nd = n.node
            if n.kind == "test":
                st = dict(st)
                for x in _own(nd):
                    if isinstance(x, ast.NamedExpr) and isinstance(x.target, ast.Name):
                        st[x.target.id] = self.value_state(x.value, st)
                if label in ("true", "false"):
                    self.refine(nd, st, label == "true")
                return st
            if n.kind == "for" and isinstance(nd, (ast.For, ast.AsyncFor)):
                st = dict(st)
                bind(nd.target, (OK, ""), st)
                return st
            if n.kind == "with_enter" and isinstance(nd, (ast.With, ast.AsyncWith)):
                st = dict(st)
                for it in nd.items:
                    if it.optional_vars is not None:
                        bind(it.optional_vars, (OK, ""), st)
                return st
            if n.kind != "stmt" or n.note in ("def", "unhandled"):
                return st
            st = dict(st)
            if isinstance(nd, ast.Assign):
                val = self.value_state(nd.value, st)
                for t in nd.targets:
                    bind(t, val, st)
            elif isinstance(nd, ast.AnnAssign) and nd.value is not None:
                bind(nd.target, self.value_state(nd.value, st), st)
            elif isinstance(nd, ast.Assert):
                self.refine(nd.test, st, True)
            return st

        def join(x: dict, y: dict) -> dict:
            out = {}
            for k in set(x) | set(y):
                a_, b_ = x.get(k, (OK, "")), y.get(k, (OK, ""))
                out[k] = a_ if a_[0] == RAW else b_
            return out

        IN = forward(cfg, init, transfer, join)
        out: list[Finding] = []
        seen: set[int] = set()
        for n in cfg.nodes:
            if n.node is None or n.id not in IN or n.kind not in ("stmt", "test", "for") or n.note in ("def", "unhandled"):
                continue
            if n.kind == "stmt" and isinstance(n.node, (ast.Try, ast.If, ast.While, ast.For, ast.AsyncFor, ast.With, ast.AsyncWith, ast.Match)):
                continue
            if id(n.node) in seen:
                continue
            seen.add(id(n.node))
            root = n.node.iter if n.kind == "for" and isinstance(n.node, (ast.For, ast.AsyncFor)) else n.node
            self._scan(fi, root, dict(IN[n.id]), out, catches_type_error)
        return out

    def _scan(self, fi: FunctionInfo, root: ast.AST, st: dict, out: list[Finding], catches_type_error) -> None:  # noqa: ANN001
        if isinstance(root, (ast.FunctionDef, ast.AsyncFunctionDef, ast.Lambda, ast.ClassDef)):
            return
        if isinstance(root, ast.BoolOp):
            cur = dict(st)
            for v in root.values:
                self._scan(fi, v, cur, out, catches_type_error)
                self.refine(v, cur, isinstance(root.op, ast.And))
            return
        if isinstance(root, ast.IfExp):
            self._scan(fi, root.test, st, out, catches_type_error)
            t, f = dict(st), dict(st)
            self.refine(root.test, t, True)
            self.refine(root.test, f, False)
            self._scan(fi, root.body, t, out, catches_type_error)
            self._scan(fi, root.orelse, f, out, catches_type_error)
            return
        operands: list[ast.AST] = []
        op = ""
        if isinstance(root, ast.Compare) and any(isinstance(o, ORDER) for o in root.ops):
            operands, op = [root.left, *root.comparators], "ordering comparison"
        elif isinstance(root, ast.BinOp) and isinstance(root.op, ARITH):
            operands, op = [root.left, root.right], f"`{type(root.op).__name__}` arithmetic"
        elif isinstance(root, ast.UnaryOp) and isinstance(root.op, ast.USub):
            operands, op = [root.operand], "unary minus"
        for o in operands:
            if isinstance(o, ast.Name) and st.get(o.id, (OK, ""))[0] == RAW and not catches_type_error(fi, root):
                out.append(Finding(fi, root, o.id, op, st[o.id][1]))
                break
        for ch in ast.iter_child_nodes(root):
            self._scan(fi, ch, st, out, catches_type_error)
