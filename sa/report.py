"""Findings, obligations, evidence, known-findings and exit-code plumbing.

Exit codes: 0 = all obligations discharged (known findings printed),
1 = at least one finding not listed in known_findings.json,
2 = ANALYSIS-ERROR (the checker itself is broken / an anchor vanished).
"""

from __future__ import annotations

import ast
import hashlib
import json
import os
import re
import time
from dataclasses import dataclass
from dataclasses import field
from pathlib import Path
from typing import Any

VERIF = Path(__file__).resolve().parent.parent
EVIDENCE_DIR = VERIF / "evidence"
REPLAY_DIR = EVIDENCE_DIR / "replays"
KNOWN_FILE = VERIF / "known_findings.json"


class AnalysisError(Exception):
    """The analysis cannot proceed (vanished anchor, unparsable tree, ...)."""


def norm(node: ast.AST | str, limit: int = 160) -> str:
    """Normalised one-line text of a construct (position-free)."""
    if isinstance(node, str):
        text = node
    else:
        try:
            text = ast.unparse(node)
        except Exception:  # pragma: no cover
            text = ast.dump(node)
    text = re.sub(r"\s+", " ", text).strip()
    if len(text) > limit:
        digest = hashlib.sha1(text.encode()).hexdigest()[:8]
        text = text[: limit - 12] + "…#" + digest
    return text


@dataclass
class Finding:
    prop: str
    rule: str
    file: str
    line: int
    qualname: str
    construct: str
    message: str
    path: list[str] = field(default_factory=list)
    expected: str = ""
    found: str = ""

    @property
    def key(self) -> str:
        return f"{self.file}::{self.qualname}::{self.construct}"

    def as_dict(self) -> dict[str, Any]:
        return {
            "property": self.prop,
            "rule": self.rule,
            "key": self.key,
            "file": self.file,
            "line": self.line,
            "qualname": self.qualname,
            "construct": self.construct,
            "instance": self.message,
            "path": self.path,
            "expected": self.expected,
            "found": self.found,
        }


@dataclass
class Obligation:
    rule: str
    site: str
    what: str
    ok: bool
    reason: str


class Result:
    """Accumulates what one property check examined and found."""

    def __init__(self, prop: str, tier: str) -> None:
        self.prop = prop
        self.tier = tier
        self.findings: list[Finding] = []
        self.obligations: list[Obligation] = []
        self.rules: dict[str, str] = {}
        self.assumptions: list[str] = []
        self.trusted_base: list[str] = []
        self.not_decided: list[str] = []
        self.stats: dict[str, Any] = {}
        self.explanation = ""
        self.selftest: dict[str, Any] | None = None
        self.analysed_functions: set[str] = set()

    # -- recording -------------------------------------------------------
    def rule(self, rule: str, text: str) -> None:
        self.rules[rule] = text

    def ok(self, rule: str, site: str, what: str, reason: str) -> None:
        self.obligations.append(Obligation(rule, site, what, True, reason))

    def fail(
        self,
        rule: str,
        *,
        file: str,
        line: int,
        qualname: str,
        construct: ast.AST | str,
        message: str,
        path: list[str] | None = None,
        expected: str = "",
        found: str = "",
        what: str | None = None,
    ) -> Finding:
        f = Finding(
            self.prop,
            rule,
            file,
            line,
            qualname,
            norm(construct),
            message,
            path or [],
            expected,
            found,
        )
        # de-duplicate identical (rule,key)
        for g in self.findings:
            if g.rule == f.rule and g.key == f.key:
                return g
        self.findings.append(f)
        self.obligations.append(
            Obligation(rule, f"{file}:{line} {qualname}", what or f.construct, False, message)
        )
        return f

    def floor(self, rule: str, what: str, count: int, minimum: int) -> None:
        """Fail closed if a rule matched fewer instances than confirmed by hand."""
        self.stats[f"{rule}.{what}"] = count
        if count < minimum:
            raise AnalysisError(
                f"{rule}: only {count} instance(s) of {what} found, expected >= {minimum}; "
                "the anchor this rule reads has vanished or changed shape"
            )


# -- known findings -------------------------------------------------------
def load_known() -> list[dict[str, Any]]:
    if not KNOWN_FILE.exists():
        return []
    return json.loads(KNOWN_FILE.read_text())


def _safe(s: str) -> str:
    return re.sub(r"[^A-Za-z0-9_.-]+", "_", s)[:80]


def finish(res: Result, *, started: float, seed: int, write: bool = True) -> int:
    """Print the verdict, write evidence + replays, return the exit code."""
    known = [k for k in load_known() if k.get("property") == res.prop]
    known_open = {(k["rule"], k["key"]): k for k in known if k.get("status") == "known"}

    new: list[Finding] = []
    listed: list[Finding] = []
    for f in res.findings:
        if (f.rule, f.key) in known_open:
            listed.append(f)
        else:
            new.append(f)

    for f in listed:
        k = known_open[(f.rule, f.key)]
        print(f"KNOWN-FINDING: property={res.prop} {f.rule} {f.file}:{f.line} {f.qualname}: {k.get('what', f.message)}")

    replays: list[str] = []
    if write:
        REPLAY_DIR.mkdir(parents=True, exist_ok=True)
        # remove stale replays of this property
        for old in REPLAY_DIR.glob(f"{res.prop}-*.json"):
            try:
                old.unlink()
            except OSError:
                pass
    for f in new:
        digest = hashlib.sha1(f"{f.rule}|{f.key}".encode()).hexdigest()[:10]
        rp = REPLAY_DIR / f"{res.prop}-{_safe(f.rule)}-{digest}.json"
        if write:
            rp.write_text(json.dumps(f.as_dict(), indent=1))
        replays.append(str(rp))
        print(f"  {f.rule} {f.file}:{f.line} {f.qualname}: {f.message}")
        print(f"    construct: {f.construct}")
        if f.path:
            print("    path: " + " -> ".join(f.path))
        print(f"VIOLATION property={res.prop} replay={rp}")

    wall = time.time() - started
    n_ob = len(res.obligations)
    n_ok = sum(1 for o in res.obligations if o.ok)
    distinct = len({(o.rule, o.site, o.what) for o in res.obligations})
    samples: list[Any] = []
    per_rule: dict[str, int] = {}
    for o in res.obligations:
        per_rule[o.rule] = per_rule.get(o.rule, 0) + 1
        if per_rule[o.rule] <= 3:
            samples.append(
                {"rule": o.rule, "site": o.site, "obligation": o.what, "discharged": o.ok, "reason": o.reason}
            )
    coverage: dict[str, Any] = {
        "explanation": res.explanation
        or "static rules over the parsed source of /repo/liquid2; see rules/obligations",
        "obligations": n_ob,
        "discharged": n_ok,
        "evaluations": max(n_ob, 1),
        "distinct_nontrivial": distinct,
        "rule": "one obligation per (rule, site, construct) enumerated from the parsed tree; "
        "distinct = distinct (rule, site, construct) triples; every one is a real site in the source",
        "samples": samples or [{"note": "no obligations"}],
        "rules": res.rules,
        "obligations_per_rule": per_rule,
        "trusted_base": res.trusted_base,
        "not_decided": res.not_decided,
        "stats": res.stats,
        "functions_analysed": len(res.analysed_functions),
        "known_findings_matched": [f.as_dict() for f in listed],
        "violations_detail": [f.as_dict() for f in new],
        "exhaustive": True,
    }
    if res.selftest is not None:
        coverage["selftest"] = res.selftest
    evidence = {
        "property_id": res.prop,
        "tier": res.tier,
        "seed": seed,
        "level": "other",
        "coverage": coverage,
        "assumptions": res.assumptions,
        "wall_s": round(wall, 3),
        "violations": len(new),
    }
    if write:
        EVIDENCE_DIR.mkdir(parents=True, exist_ok=True)
        (EVIDENCE_DIR / f"{res.prop}.json").write_text(json.dumps(evidence, indent=1, default=str))
    print(
        f"{res.prop} [{res.tier}] rules={len(res.rules)} obligations={n_ob} discharged={n_ok} "
        f"known={len(listed)} new={len(new)} functions={len(res.analysed_functions)} wall={wall:.2f}s"
    )
    return 1 if new else 0


def repo_root() -> Path:
    return Path(os.environ.get("VERIF_REPO", "/repo"))
