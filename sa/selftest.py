"""Self-test: apply each mutant / benign variant to a scratch copy and re-run the rules."""

from __future__ import annotations

import importlib
import json
import shutil
import tempfile
from concurrent.futures import ProcessPoolExecutor
from pathlib import Path
from typing import Any

from .report import Result
from .report import repo_root
from .srcmodel import Program

VERIF = Path(__file__).resolve().parent.parent


def _load_variants(prop: str) -> list[dict[str, Any]]:
    out: list[dict[str, Any]] = []
    f = VERIF / "selftest" / f"{prop}.json"
    if f.exists():
        out.extend(json.loads(f.read_text()))
    # seeded changes (independent sub-agent patches) that this property claims to catch
    for meta in sorted((VERIF / "seeded").glob("*/meta.json")):
        m = json.loads(meta.read_text())
        if prop in m.get("caught_by", []):
            out.append({"id": f"seeded/{meta.parent.name}", "kind": "mutant", "patch": str(meta.parent / "patch.diff")})
    return out


def _apply(variant: dict[str, Any], root: Path) -> str | None:
    """Apply edits; return None if applied, else a reason for skipping."""
    if "patch" in variant:
        import subprocess

        r = subprocess.run(["patch", "-p1", "-s", "-f", "-i", variant["patch"]], cwd=root, capture_output=True, text=True)
        if r.returncode != 0:
            return f"patch does not apply: {r.stdout.strip()[:200]} {r.stderr.strip()[:200]}"
        return None
    for e in variant["edits"]:
        p = root / e["file"]
        if not p.exists():
            return f"{e['file']} missing"
        s = p.read_text()
        n = s.count(e["old"])
        if n == 0:
            return f"anchor not found in {e['file']}: {e['old'][:60]!r}"
        if n > 1 and not e.get("all"):
            idx = e.get("nth")
            if idx is None:
                return f"anchor ambiguous ({n}x) in {e['file']}: {e['old'][:60]!r}"
            parts = s.split(e["old"])
            s = e["old"].join(parts[: idx + 1]) + e["new"] + e["old"].join(parts[idx + 1 :])
        else:
            s = s.replace(e["old"], e["new"])
        p.write_text(s)
    return None


def _one(args: tuple[str, dict[str, Any], list[tuple[str, str]]]) -> dict[str, Any]:
    prop, variant, baseline = args
    tmp = Path(tempfile.mkdtemp(prefix="verif-st-"))
    try:
        shutil.copytree(repo_root() / "liquid2", tmp / "liquid2", ignore=shutil.ignore_patterns("__pycache__"))
        why = _apply(variant, tmp)
        if why:
            return {"id": variant["id"], "kind": variant["kind"], "status": "skipped", "why": why}
        import ast

        for py in (tmp / "liquid2").rglob("*.py"):
            try:
                ast.parse(py.read_text())
            except SyntaxError as err:
                return {"id": variant["id"], "kind": variant["kind"], "status": "skipped", "why": f"does not compile: {err}"}
        mod = importlib.import_module(f"checks.{prop}")
        res = Result(prop, "quick")
        try:
            mod.run(Program(tmp), res)
        except Exception as err:  # noqa: BLE001
            # an analysis error on a mutant counts as "reported" (fail closed), on a benign variant as noise
            return {"id": variant["id"], "kind": variant["kind"], "status": "analysis-error", "why": f"{type(err).__name__}: {err}"[:300]}
        base = set(map(tuple, baseline))
        new = [f for f in res.findings if (f.rule, f.key) not in base]
        return {
            "id": variant["id"],
            "kind": variant["kind"],
            "status": "reported" if new else "silent",
            "reports": [f"{f.rule} {f.file}:{f.line} {f.qualname}: {f.message}"[:300] for f in new[:5]],
            "rules": sorted({f.rule for f in new}),
        }
    finally:
        shutil.rmtree(tmp, ignore_errors=True)


def run(prop: str, res: Result, seed: int = 0) -> dict[str, Any]:
    variants = _load_variants(prop)
    baseline = [(f.rule, f.key) for f in res.findings]
    jobs = [(prop, v, baseline) for v in variants]
    results: list[dict[str, Any]] = []
    if jobs:
        with ProcessPoolExecutor(max_workers=16) as ex:
            results = list(ex.map(_one, jobs))
    failures: list[str] = []
    for v, r in zip(variants, results):
        if r["kind"] == "mutant" and r["status"] == "silent":
            failures.append(f"mutant {r['id']} applied and compiled but was not reported")
        if r["kind"] == "mutant" and r["status"] == "reported" and v.get("expect_rule"):
            if v["expect_rule"] not in r["rules"]:
                failures.append(f"mutant {r['id']} reported by {r['rules']}, expected {v['expect_rule']}")
        if r["kind"] == "benign" and r["status"] in ("reported", "analysis-error"):
            failures.append(f"benign variant {r['id']} was reported: {r.get('reports') or r.get('why')}")
    return {
        "variants": len(variants),
        "mutants_killed": sum(1 for r in results if r["kind"] == "mutant" and r["status"] in ("reported", "analysis-error")),
        "mutants": sum(1 for r in results if r["kind"] == "mutant"),
        "benign_silent": sum(1 for r in results if r["kind"] == "benign" and r["status"] == "silent"),
        "benign": sum(1 for r in results if r["kind"] == "benign"),
        "skipped": [r for r in results if r["status"] == "skipped"],
        "matrix": results,
        "failures": failures,
    }
