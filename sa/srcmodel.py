"""E0 - resolved program model of /repo/liquid2 (pure ast, nothing is imported).

Modules, import resolution (incl. re-exports through package __init__),
classes with C3-ish MRO, functions (methods, module functions, nested defs),
parent links for every AST node, and the tag/filter registries read from the
registration functions.
"""

from __future__ import annotations

import ast
import hashlib
from dataclasses import dataclass
from dataclasses import field
from pathlib import Path
from typing import Iterable
from typing import Iterator

from .report import AnalysisError
from .report import repo_root

PKG = "liquid2"


@dataclass
class FunctionInfo:
    module: "Module"
    node: ast.FunctionDef | ast.AsyncFunctionDef
    qualname: str  # module-relative, e.g. "Node.render" or "f.<locals>.g"
    cls: "ClassInfo | None" = None
    parent_fn: "FunctionInfo | None" = None

    @property
    def name(self) -> str:
        return self.node.name

    @property
    def file(self) -> str:
        return self.module.relpath

    @property
    def fid(self) -> str:
        return f"{self.module.relpath}::{self.qualname}"

    @property
    def is_async(self) -> bool:
        return isinstance(self.node, ast.AsyncFunctionDef)

    def decorators(self) -> list[str]:
        return [dotted(d.func if isinstance(d, ast.Call) else d) or "?" for d in self.node.decorator_list]

    def params(self) -> list[str]:
        a = self.node.args
        out = [x.arg for x in a.posonlyargs + a.args]
        if a.vararg:
            out.append(a.vararg.arg)
        out += [x.arg for x in a.kwonlyargs]
        if a.kwarg:
            out.append(a.kwarg.arg)
        return out

    def __hash__(self) -> int:
        return hash(self.fid)

    def __eq__(self, other: object) -> bool:
        return isinstance(other, FunctionInfo) and other.fid == self.fid

    def __repr__(self) -> str:
        return f"<fn {self.fid}>"


@dataclass
class ClassInfo:
    module: "Module"
    node: ast.ClassDef
    qualname: str  # module-relative
    base_exprs: list[str] = field(default_factory=list)
    bases: list["ClassInfo"] = field(default_factory=list)
    ext_bases: list[str] = field(default_factory=list)  # fully-qualified externals
    methods: dict[str, FunctionInfo] = field(default_factory=dict)
    class_attrs: dict[str, ast.expr] = field(default_factory=dict)

    @property
    def name(self) -> str:
        return self.node.name

    @property
    def full(self) -> str:
        return f"{self.module.name}.{self.qualname}"

    @property
    def file(self) -> str:
        return self.module.relpath

    def __hash__(self) -> int:
        return hash(self.full)

    def __eq__(self, other: object) -> bool:
        return isinstance(other, ClassInfo) and other.full == self.full

    def __repr__(self) -> str:
        return f"<class {self.full}>"


@dataclass
class Module:
    name: str
    path: Path
    relpath: str
    source: str
    tree: ast.Module
    is_pkg: bool
    imports: dict[str, str] = field(default_factory=dict)  # local name -> dotted target
    classes: dict[str, ClassInfo] = field(default_factory=dict)
    functions: dict[str, FunctionInfo] = field(default_factory=dict)  # all, by qualname
    globals_: dict[str, ast.expr] = field(default_factory=dict)  # module-level simple assignments
    parents: dict[int, ast.AST] = field(default_factory=dict)

    def parent(self, node: ast.AST) -> ast.AST | None:
        return self.parents.get(id(node))

    def ancestors(self, node: ast.AST) -> Iterator[ast.AST]:
        p = self.parent(node)
        while p is not None:
            yield p
            p = self.parent(p)

    def seg(self, node: ast.AST) -> str:
        return ast.get_source_segment(self.source, node) or ""


def dotted(node: ast.AST | None) -> str | None:
    """`a.b.c` for Name/Attribute chains, else None."""
    parts: list[str] = []
    while isinstance(node, ast.Attribute):
        parts.append(node.attr)
        node = node.value
    if isinstance(node, ast.Name):
        parts.append(node.id)
        return ".".join(reversed(parts))
    return None


def root_name(node: ast.AST | None) -> str | None:
    """Root Name id of an access path through attributes, subscripts and calls."""
    while True:
        if isinstance(node, (ast.Attribute, ast.Subscript, ast.Starred)):
            node = node.value
        elif isinstance(node, ast.Call):
            node = node.func
        elif isinstance(node, ast.Await):
            node = node.value
        else:
            break
    return node.id if isinstance(node, ast.Name) else None


def walk_no_nested(node: ast.AST, *, include_lambdas: bool = True) -> Iterator[ast.AST]:
    """Walk a function body without descending into nested defs/classes."""
    stack = list(ast.iter_child_nodes(node))
    while stack:
        n = stack.pop()
        yield n
        if isinstance(n, (ast.FunctionDef, ast.AsyncFunctionDef, ast.ClassDef)):
            continue
        if isinstance(n, ast.Lambda) and not include_lambdas:
            continue
        stack.extend(ast.iter_child_nodes(n))


def calls_in(node: ast.AST, nested: bool = True) -> Iterator[ast.Call]:
    it = ast.walk(node) if nested else walk_no_nested(node)
    for n in it:
        if isinstance(n, ast.Call):
            yield n


class Program:
    """All modules under <root>/liquid2, parsed and cross-linked."""

    def __init__(self, root: Path | None = None) -> None:
        self.root = Path(root) if root else repo_root()
        self.pkgdir = self.root / PKG
        if not self.pkgdir.is_dir():
            raise AnalysisError(f"{self.pkgdir} not found")
        self.modules: dict[str, Module] = {}
        self.by_relpath: dict[str, Module] = {}
        self.digest = ""
        self._load()
        self._link()
        self._registry_cache: tuple[dict, dict] | None = None

    # ------------------------------------------------------------------ load
    def _load(self) -> None:
        h = hashlib.sha256()
        files = sorted(self.pkgdir.rglob("*.py"))
        if len(files) < 40:
            raise AnalysisError(f"only {len(files)} python files under {self.pkgdir}")
        for path in files:
            rel = path.relative_to(self.root).as_posix()
            src = path.read_text(encoding="utf-8")
            h.update(rel.encode())
            h.update(src.encode())
            try:
                tree = ast.parse(src, filename=str(path))
            except SyntaxError as err:
                raise AnalysisError(f"syntax error in {rel}: {err}") from err
            from . import canon

            canon.canonicalise(tree, rel)  # behaviour-preserving normal form (polarity of if/else, names of locals)
            parts = list(path.relative_to(self.root).with_suffix("").parts)
            is_pkg = parts[-1] == "__init__"
            if is_pkg:
                parts = parts[:-1]
            name = ".".join(parts)
            mod = Module(name, path, rel, src, tree, is_pkg)
            for parent in ast.walk(tree):
                for child in ast.iter_child_nodes(parent):
                    mod.parents[id(child)] = parent
            self.modules[name] = mod
            self.by_relpath[rel] = mod
        self.digest = h.hexdigest()

    def _pkg_of(self, mod: Module) -> str:
        return mod.name if mod.is_pkg else mod.name.rpartition(".")[0]

    def _collect_imports(self, mod: Module) -> None:
        for node in ast.walk(mod.tree):
            if isinstance(node, ast.Import):
                for a in node.names:
                    if a.asname:
                        mod.imports[a.asname] = a.name
                    else:
                        mod.imports[a.name.split(".")[0]] = a.name.split(".")[0]
            elif isinstance(node, ast.ImportFrom):
                if node.level:
                    base = self._pkg_of(mod).split(".")
                    if node.level > 1:
                        base = base[: len(base) - (node.level - 1)]
                    target = ".".join(base + ([node.module] if node.module else []))
                else:
                    target = node.module or ""
                for a in node.names:
                    mod.imports[a.asname or a.name] = f"{target}.{a.name}"

    def _collect_defs(self, mod: Module) -> None:
        def visit(body: Iterable[ast.stmt], prefix: str, cls: ClassInfo | None, fn: FunctionInfo | None) -> None:
            for st in body:
                if isinstance(st, (ast.FunctionDef, ast.AsyncFunctionDef)):
                    q = f"{prefix}{st.name}"
                    fi = FunctionInfo(mod, st, q, cls if fn is None else None, fn)
                    # overloads / redefinitions: keep the last
                    mod.functions[q] = fi
                    if cls is not None and fn is None:
                        cls.methods[st.name] = fi
                    visit(_all_stmts(st.body), f"{q}.<locals>.", None, fi)
                elif isinstance(st, ast.ClassDef):
                    q = f"{prefix}{st.name}"
                    ci = ClassInfo(mod, st, q, [ast.unparse(b) for b in st.bases])
                    mod.classes[q] = ci
                    for s in st.body:
                        if isinstance(s, ast.Assign) and len(s.targets) == 1 and isinstance(s.targets[0], ast.Name):
                            ci.class_attrs[s.targets[0].id] = s.value
                        elif isinstance(s, ast.AnnAssign) and isinstance(s.target, ast.Name) and s.value is not None:
                            ci.class_attrs[s.target.id] = s.value
                    visit(_all_stmts(st.body), f"{q}.", ci, None)

        visit(_all_stmts(mod.tree.body), "", None, None)
        for st in mod.tree.body:
            if isinstance(st, ast.Assign) and len(st.targets) == 1 and isinstance(st.targets[0], ast.Name):
                mod.globals_[st.targets[0].id] = st.value
            elif isinstance(st, ast.AnnAssign) and isinstance(st.target, ast.Name) and st.value is not None:
                mod.globals_[st.target.id] = st.value

    def _link(self) -> None:
        for mod in self.modules.values():
            self._collect_imports(mod)
            self._collect_defs(mod)
        for mod in self.modules.values():
            for ci in mod.classes.values():
                for b in ci.node.bases:
                    d = dotted(b.value if isinstance(b, ast.Subscript) else b)
                    if d is None:
                        continue
                    r = self.resolve(mod, d)
                    if isinstance(r, ClassInfo):
                        ci.bases.append(r)
                    elif isinstance(r, str):
                        ci.ext_bases.append(r)
                    elif r is None and "." not in d and hasattr(__import__("builtins"), d):
                        ci.ext_bases.append(d)  # builtin base class (str, int, Exception, …)

    # --------------------------------------------------------------- resolve
    def resolve(self, mod: Module, name: str, _depth: int = 0) -> ClassInfo | FunctionInfo | Module | str | None:
        """Resolve a dotted name used in *mod* to a class / function / module /
        external dotted string / None (unknown local)."""
        if _depth > 12:
            return None
        head, _, rest = name.partition(".")
        if head in mod.classes and (not rest or f"{head}.{rest}" in mod.classes or rest):
            if not rest:
                return mod.classes[head]
            q = f"{head}.{rest}"
            if q in mod.classes:
                return mod.classes[q]
            if q in mod.functions:
                return mod.functions[q]
            return None
        if head in mod.functions and not rest:
            return mod.functions[head]
        if head in mod.imports:
            target = mod.imports[head]
            full = f"{target}.{rest}" if rest else target
            return self.resolve_abs(full, _depth + 1)
        if head in mod.globals_ and not rest:
            # alias such as  X = Y
            v = mod.globals_[head]
            d = dotted(v)
            if d and d != head:
                return self.resolve(mod, d, _depth + 1)
        return None

    def resolve_abs(self, full: str, _depth: int = 0) -> ClassInfo | FunctionInfo | Module | str | None:
        if not (full == PKG or full.startswith(PKG + ".")):
            return full  # external
        if full in self.modules:
            return self.modules[full]
        # longest module prefix
        parts = full.split(".")
        for i in range(len(parts) - 1, 0, -1):
            mname = ".".join(parts[:i])
            if mname in self.modules:
                rest = ".".join(parts[i:])
                return self.resolve(self.modules[mname], rest, _depth + 1)
        return None

    # ----------------------------------------------------------------- query
    def all_classes(self) -> Iterator[ClassInfo]:
        for mod in self.modules.values():
            yield from mod.classes.values()

    def all_functions(self) -> Iterator[FunctionInfo]:
        for mod in self.modules.values():
            yield from mod.functions.values()

    def cls(self, full: str) -> ClassInfo:
        r = self.resolve_abs(full)
        if not isinstance(r, ClassInfo):
            raise AnalysisError(f"class {full} not found (anchor vanished)")
        return r

    def fn(self, relpath: str, qualname: str) -> FunctionInfo:
        mod = self.by_relpath.get(relpath)
        if mod is None or qualname not in mod.functions:
            raise AnalysisError(f"function {relpath}::{qualname} not found (anchor vanished)")
        return mod.functions[qualname]

    def fn_opt(self, relpath: str, qualname: str) -> FunctionInfo | None:
        mod = self.by_relpath.get(relpath)
        if mod is None:
            return None
        return mod.functions.get(qualname)

    def mod(self, relpath: str) -> Module:
        m = self.by_relpath.get(relpath)
        if m is None:
            raise AnalysisError(f"module {relpath} not found (anchor vanished)")
        return m

    def mro(self, ci: ClassInfo) -> list[ClassInfo]:
        out: list[ClassInfo] = []
        seen: set[str] = set()

        def rec(c: ClassInfo) -> None:
            if c.full in seen:
                return
            seen.add(c.full)
            out.append(c)
            for b in c.bases:
                rec(b)

        rec(ci)
        return out

    def ext_ancestors(self, ci: ClassInfo) -> set[str]:
        out: set[str] = set()
        for c in self.mro(ci):
            out.update(c.ext_bases)
        return out

    def is_subclass(self, ci: ClassInfo, base: ClassInfo | str) -> bool:
        if isinstance(base, str):
            if any(c.full == base for c in self.mro(ci)):
                return True
            return base in self.ext_ancestors(ci)
        return any(c == base for c in self.mro(ci))

    def subclasses(self, base: ClassInfo | str, *, strict: bool = False) -> list[ClassInfo]:
        out = []
        for c in self.all_classes():
            if self.is_subclass(c, base):
                if strict and (c == base or (isinstance(base, str) and c.full == base)):
                    continue
                out.append(c)
        return sorted(out, key=lambda c: c.full)

    def find_method(self, ci: ClassInfo, name: str) -> FunctionInfo | None:
        for c in self.mro(ci):
            if name in c.methods:
                return c.methods[name]
        return None

    def enclosing_function(self, mod: Module, node: ast.AST) -> FunctionInfo | None:
        for a in mod.ancestors(node):
            if isinstance(a, (ast.FunctionDef, ast.AsyncFunctionDef)):
                for fi in mod.functions.values():
                    if fi.node is a:
                        return fi
        return None

    def qual_at(self, mod: Module, node: ast.AST) -> str:
        fi = self.enclosing_function(mod, node)
        if fi:
            return fi.qualname
        for a in mod.ancestors(node):
            if isinstance(a, ast.ClassDef):
                return a.name
        return "<module>"

    # ------------------------------------------------------------- registries
    def registries(self) -> tuple[dict[str, list[tuple[str, object, ast.AST, Module]]], dict]:
        """(filters, tags): name -> list of (name, resolved target, value expr, module).

        Read from `X.filters[...] = V` / `X.tags[...] = V(env)` assignments anywhere
        in the package (registration functions and Environment subclasses).
        """
        if self._registry_cache:
            return self._registry_cache
        filters: dict[str, list] = {}
        tags: dict[str, list] = {}
        for mod in self.modules.values():
            for node in ast.walk(mod.tree):
                if not isinstance(node, ast.Assign) or len(node.targets) != 1:
                    continue
                t = node.targets[0]
                if not (isinstance(t, ast.Subscript) and isinstance(t.value, ast.Attribute)):
                    continue
                kind = t.value.attr
                if kind not in ("filters", "tags"):
                    continue
                key = t.slice
                names: list[str] = []
                if isinstance(key, ast.Constant) and isinstance(key.value, str):
                    names = [key.value]
                else:
                    d = dotted(key)
                    if d and d.endswith(".name"):
                        owner = self.resolve(mod, d[: -len(".name")])
                        if isinstance(owner, ClassInfo):
                            for c in self.mro(owner):
                                v = c.class_attrs.get("name")
                                if isinstance(v, ast.Constant):
                                    names = [v.value]
                                    break
                        elif owner is None:
                            # loop variable over a tuple of classes: `for _filter in default_filters`
                            names = [f"<{d}>"]
                val = node.value
                tgt_expr = val.func if isinstance(val, ast.Call) else val
                d = dotted(tgt_expr)
                target = self.resolve(mod, d) if d else None
                for n in names:
                    (filters if kind == "filters" else tags).setdefault(n, []).append((n, target, val, mod))
        self._registry_cache = (filters, tags)
        return self._registry_cache

    def filter_callables(self) -> dict[str, list[FunctionInfo]]:
        """filter name -> implementing functions (function, or __call__ (+filter_async) of a class)."""
        filters, _ = self.registries()
        out: dict[str, list[FunctionInfo]] = {}
        for name, regs in filters.items():
            for _, target, _val, _mod in regs:
                fns: list[FunctionInfo] = []
                if isinstance(target, FunctionInfo):
                    fns.append(target)
                elif isinstance(target, ClassInfo):
                    for m in ("__call__", "filter_async"):
                        fi = self.find_method(target, m)
                        if fi:
                            fns.append(fi)
                for fi in fns:
                    if fi not in out.setdefault(name, []):
                        out[name].append(fi)
        return out

    def tag_nodes(self) -> dict[str, tuple[ClassInfo, list[ClassInfo]]]:
        """tag name -> (Tag class, [Node classes it constructs])."""
        _, tags = self.registries()
        node_base = self.cls("liquid2.ast.Node")
        out: dict[str, tuple[ClassInfo, list[ClassInfo]]] = {}
        for name, regs in tags.items():
            for _, target, _val, _mod in regs:
                if not isinstance(target, ClassInfo):
                    continue
                nodes: list[ClassInfo] = []
                for c in self.mro(target):
                    nc = c.class_attrs.get("node_class")
                    if nc is not None:
                        r = self.resolve(c.module, dotted(nc) or "")
                        if isinstance(r, ClassInfo) and r not in nodes:
                            nodes.append(r)
                    for m in c.methods.values():
                        for call in calls_in(m.node):
                            d = dotted(call.func)
                            if d:
                                r = self.resolve(c.module, d)
                                if isinstance(r, ClassInfo) and self.is_subclass(r, node_base) and r not in nodes:
                                    nodes.append(r)
                out[name] = (target, nodes)
        return out


def _all_stmts(body: Iterable[ast.stmt]) -> Iterator[ast.stmt]:
    """Statements of a body including those nested in compound statements
    (but not inside nested defs/classes - those are yielded, not entered)."""
    for st in body:
        yield st
        if isinstance(st, (ast.FunctionDef, ast.AsyncFunctionDef, ast.ClassDef)):
            continue
        for fld in ("body", "orelse", "finalbody"):
            sub = getattr(st, fld, None)
            if isinstance(sub, list) and sub and isinstance(sub[0], ast.stmt):
                yield from _all_stmts(sub)
        if isinstance(st, ast.Try):
            for h in st.handlers:
                yield from _all_stmts(h.body)
        if isinstance(st, ast.Match):
            for c in st.cases:
                yield from _all_stmts(c.body)


def site(mod: Module, node: ast.AST) -> str:
    return f"{mod.relpath}:{getattr(node, 'lineno', 0)}"
