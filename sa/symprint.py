"""Symbolic evaluation of printer code (`__str__` methods) on small abstract syntax trees.

Nothing from /repo is imported or run: the *source* of the `__str__` methods is interpreted by this module over
symbolic tree nodes (`Sym`), for the restricted Python the printers are written in (f-strings, isinstance tests,
comparisons of integer constants, nested helper functions, str()/join).  A construct outside that subset raises
`Unsupported`, which the caller reports as "not decided" - never as a pass.

The companion `PrattModel` re-parses the printed text with the operator table and associativity *read from the
parser's source* (see checks/C12.py), so printer and parser can be compared on every tree up to a bound.
"""

from __future__ import annotations

import ast
from dataclasses import dataclass
from dataclasses import field
from typing import Any

from .srcmodel import ClassInfo
from .srcmodel import FunctionInfo
from .srcmodel import Program


class Unsupported(Exception):
    pass


@dataclass
class Sym:
    cls: ClassInfo | None  # None = atom (a leaf printed as its name)
    fields: dict[str, Any] = field(default_factory=dict)
    name: str = ""

    def __repr__(self) -> str:
        if self.cls is None:
            return self.name
        return f"{self.cls.name}({', '.join(f'{k}={v!r}' for k, v in self.fields.items())})"


class _Return(Exception):
    def __init__(self, value: Any) -> None:
        self.value = value


@dataclass
class _Iter:
    """A Python iterator over a concrete list (`iter(x)` / `next(it)` / `for … in it`)."""

    def __init__(self, items: list[Any]) -> None:
        self.items = items
        self.i = 0


class _Regex:
    """A compiled pattern whose text was read from the source; matched against concrete strings only."""

    def __init__(self, pattern: str, flags: int = 0) -> None:
        import re

        self.rx = re.compile(pattern, flags)


_BUILTIN_TYPES = {"str": str, "int": int, "float": float, "bool": bool, "list": list, "tuple": tuple, "dict": dict}


class _Closure:
    node: ast.FunctionDef
    env: dict[str, Any]
    fi: FunctionInfo


class _Break(Exception):
    pass


class _Continue(Exception):
    pass


class SymEval:
    def __init__(self, prog: Program, *, max_steps: int = 20000) -> None:
        self.prog = prog
        self.steps = 0
        self.max_steps = max_steps

    # ------------------------------------------------------------------ entry points
    def to_str(self, v: Any) -> str:
        if isinstance(v, Sym):
            if v.cls is None:
                return v.name
            m = self.prog.find_method(v.cls, "__str__")
            if m is None:
                raise Unsupported(f"{v.cls.name} has no __str__")
            r = self.call(m, {"self": v})
            if not isinstance(r, str):
                raise Unsupported(f"{v.cls.name}.__str__ returned {type(r).__name__}")
            return r
        if isinstance(v, (str, int, float)) or v is None:
            return str(v)
        raise Unsupported(f"str() of {type(v).__name__}")

    def call(self, fi: FunctionInfo, env: dict[str, Any]) -> Any:
        return self._run(fi.node, dict(env), fi)

    # ------------------------------------------------------------------ statements
    def _run(self, fn: ast.FunctionDef | ast.AsyncFunctionDef, env: dict[str, Any], fi: FunctionInfo) -> Any:
        try:
            self._block(fn.body, env, fi)
        except _Return as r:
            return r.value
        return None

    def _block(self, body: list[ast.stmt], env: dict[str, Any], fi: FunctionInfo) -> None:
        for st in body:
            self.steps += 1
            if self.steps > self.max_steps:
                raise Unsupported("step budget exhausted")
            if isinstance(st, ast.Return):
                raise _Return(self.ev(st.value, env, fi) if st.value is not None else None)
            if isinstance(st, ast.Expr):
                if isinstance(st.value, ast.Constant):
                    continue
                self.ev(st.value, env, fi)
            elif isinstance(st, ast.Assert):
                continue
            elif isinstance(st, (ast.Assign, ast.AnnAssign)):
                if isinstance(st, ast.AnnAssign) and st.value is None:
                    continue
                val = self.ev(st.value, env, fi)
                for t in st.targets if isinstance(st, ast.Assign) else [st.target]:
                    self._bind(t, val, env)
            elif isinstance(st, ast.AugAssign) and isinstance(st.target, ast.Name) and isinstance(st.op, ast.Add):
                env[st.target.id] = env[st.target.id] + self.ev(st.value, env, fi)
            elif isinstance(st, ast.If):
                self._block(st.body if self.truth(self.ev(st.test, env, fi)) else st.orelse, env, fi)
            elif isinstance(st, ast.For):
                for x in self._iter(self.ev(st.iter, env, fi)):
                    self._bind(st.target, x, env)
                    try:
                        self._block(st.body, env, fi)
                    except _Break:
                        break
                    except _Continue:
                        continue
            elif isinstance(st, ast.While):
                while self.truth(self.ev(st.test, env, fi)):
                    self.steps += 1
                    if self.steps > self.max_steps:
                        raise Unsupported("step budget exhausted")
                    try:
                        self._block(st.body, env, fi)
                    except _Break:
                        break
                    except _Continue:
                        continue
            elif isinstance(st, ast.Break):
                raise _Break
            elif isinstance(st, ast.Continue):
                raise _Continue
            elif isinstance(st, ast.FunctionDef):
                env[st.name] = _Closure(st, env, fi)
            elif isinstance(st, ast.Pass):
                continue
            else:
                raise Unsupported(f"statement {type(st).__name__} at {fi.file}:{st.lineno}")

    def _bind(self, t: ast.AST, val: Any, env: dict[str, Any]) -> None:
        if isinstance(t, ast.Name):
            env[t.id] = val
        elif isinstance(t, (ast.Tuple, ast.List)):
            vals = list(self._iter(val))
            if len(vals) != len(t.elts):
                raise Unsupported("unpack arity")
            for e, v in zip(t.elts, vals):
                self._bind(e, v, env)
        else:
            raise Unsupported(f"assignment target {type(t).__name__}")

    @staticmethod
    def _iter(v: Any) -> list[Any]:
        if isinstance(v, (list, tuple)):
            return list(v)
        if isinstance(v, dict):
            return list(v)
        if isinstance(v, _Iter):
            rest = v.items[v.i :]
            v.i = len(v.items)
            return rest
        raise Unsupported(f"iteration over {type(v).__name__}")

    @staticmethod
    def truth(v: Any) -> bool:
        if isinstance(v, Sym):
            return True  # AST objects keep default truthiness (C12.R7)
        return bool(v)

    # ------------------------------------------------------------------ expressions
    def ev(self, e: ast.AST | None, env: dict[str, Any], fi: FunctionInfo) -> Any:  # noqa: PLR0911, PLR0912, PLR0915
        self.steps += 1
        if self.steps > self.max_steps:
            raise Unsupported("step budget exhausted")
        if e is None:
            return None
        if isinstance(e, ast.Constant):
            return e.value
        if isinstance(e, ast.JoinedStr):
            out = []
            for v in e.values:
                if isinstance(v, ast.Constant):
                    out.append(v.value)
                elif isinstance(v, ast.FormattedValue):
                    if v.format_spec is not None:
                        raise Unsupported("format spec")
                    val = self.ev(v.value, env, fi)
                    if v.conversion == ord("r"):
                        if isinstance(val, Sym):
                            raise Unsupported("repr of a node")
                        out.append(repr(val))
                    else:
                        out.append(self.to_str(val))
            return "".join(out)
        if isinstance(e, ast.Name):
            if e.id in env:
                return env[e.id]
            if e.id in _BUILTIN_TYPES and not isinstance(self.prog.resolve(fi.module, e.id), (ClassInfo, FunctionInfo)):
                return _BUILTIN_TYPES[e.id]
            return self._global(fi, e.id)
        if isinstance(e, ast.Attribute):
            base = self.ev(e.value, env, fi)
            if isinstance(base, Sym):
                if e.attr in base.fields:
                    return base.fields[e.attr]
                raise Unsupported(f"field {e.attr} of {base!r}")
            if isinstance(base, dict) and e.attr in base:
                return base[e.attr]
            raise Unsupported(f"attribute {e.attr} of {type(base).__name__}")
        if isinstance(e, ast.IfExp):
            return self.ev(e.body if self.truth(self.ev(e.test, env, fi)) else e.orelse, env, fi)
        if isinstance(e, ast.BoolOp):
            val: Any = None
            for v in e.values:
                val = self.ev(v, env, fi)
                if isinstance(e.op, ast.And) and not self.truth(val):
                    return val
                if isinstance(e.op, ast.Or) and self.truth(val):
                    return val
            return val
        if isinstance(e, ast.UnaryOp):
            v = self.ev(e.operand, env, fi)
            if isinstance(e.op, ast.Not):
                return not self.truth(v)
            if isinstance(e.op, ast.USub) and isinstance(v, (int, float)):
                return -v
            raise Unsupported("unary op")
        if isinstance(e, ast.Compare):
            left = self.ev(e.left, env, fi)
            for op, rhs in zip(e.ops, e.comparators):
                right = self.ev(rhs, env, fi)
                if isinstance(op, ast.Is):
                    r = left is right
                elif isinstance(op, ast.IsNot):
                    r = left is not right
                elif isinstance(left, Sym) or isinstance(right, Sym):
                    raise Unsupported("comparison of nodes")
                elif isinstance(op, ast.Eq):
                    r = left == right
                elif isinstance(op, ast.NotEq):
                    r = left != right
                elif isinstance(op, ast.Lt):
                    r = left < right
                elif isinstance(op, ast.LtE):
                    r = left <= right
                elif isinstance(op, ast.Gt):
                    r = left > right
                elif isinstance(op, ast.GtE):
                    r = left >= right
                elif isinstance(op, ast.In):
                    r = left in right
                elif isinstance(op, ast.NotIn):
                    r = left not in right
                else:
                    raise Unsupported("comparison op")
                if not r:
                    return False
                left = right
            return True
        if isinstance(e, ast.BinOp) and isinstance(e.op, ast.Add):
            a, b = self.ev(e.left, env, fi), self.ev(e.right, env, fi)
            if type(a) is type(b) and isinstance(a, (str, list, int)):
                return a + b
            raise Unsupported("+ on mixed values")
        if isinstance(e, ast.BinOp) and isinstance(e.op, (ast.Sub, ast.Mult, ast.BitAnd, ast.BitOr, ast.BitXor, ast.LShift, ast.RShift, ast.FloorDiv, ast.Mod)):
            a, b = self.ev(e.left, env, fi), self.ev(e.right, env, fi)
            if isinstance(a, int) and isinstance(b, int) and not isinstance(a, bool) and not isinstance(b, bool):
                import operator as _op

                fn = {ast.Sub: _op.sub, ast.Mult: _op.mul, ast.BitAnd: _op.and_, ast.BitOr: _op.or_, ast.BitXor: _op.xor, ast.LShift: _op.lshift, ast.RShift: _op.rshift, ast.FloorDiv: _op.floordiv, ast.Mod: _op.mod}[type(e.op)]
                if isinstance(e.op, (ast.FloorDiv, ast.Mod)) and b == 0:
                    raise Unsupported("division by zero")
                if isinstance(e.op, ast.LShift) and b > 64:
                    raise Unsupported("shift too large")
                return fn(a, b)
            raise Unsupported("integer operator on non-integers")
        if isinstance(e, (ast.List, ast.Tuple)):
            out2: list[Any] = []
            for x in e.elts:
                if isinstance(x, ast.Starred):
                    out2.extend(self._iter(self.ev(x.value, env, fi)))
                else:
                    out2.append(self.ev(x, env, fi))
            return out2 if isinstance(e, ast.List) else tuple(out2)
        if isinstance(e, (ast.GeneratorExp, ast.ListComp)):
            if len(e.generators) != 1:
                raise Unsupported("nested comprehension")
            g = e.generators[0]
            res = []
            for x in self._iter(self.ev(g.iter, env, fi)):
                env2 = dict(env)
                self._bind(g.target, x, env2)
                if all(self.truth(self.ev(c, env2, fi)) for c in g.ifs):
                    res.append(self.ev(e.elt, env2, fi))
            return res
        if isinstance(e, ast.Subscript):
            base = self.ev(e.value, env, fi)
            if isinstance(e.slice, ast.Slice):
                lo = self.ev(e.slice.lower, env, fi) if e.slice.lower is not None else None
                hi = self.ev(e.slice.upper, env, fi) if e.slice.upper is not None else None
                if isinstance(base, (list, tuple, str)) and e.slice.step is None:
                    return base[lo:hi]
                raise Unsupported("slice")
            idx = self.ev(e.slice, env, fi)
            if isinstance(idx, Sym):
                raise Unsupported("node as index")
            if isinstance(base, (list, tuple, str)) and isinstance(idx, int):
                try:
                    return base[idx]
                except IndexError as err:
                    raise Unsupported("index out of range") from err
            if isinstance(base, dict):
                if idx in base:
                    return base[idx]
                raise Unsupported("missing key")
            raise Unsupported("subscript")
        if isinstance(e, ast.Call):
            return self._call(e, env, fi)
        raise Unsupported(f"expression {type(e).__name__} at {fi.file}:{getattr(e, 'lineno', 0)}")

    def _global(self, fi: FunctionInfo, name: str) -> Any:
        r = self.prog.resolve(fi.module, name)
        if isinstance(r, ClassInfo):
            return r
        mod = fi.module
        for st in mod.tree.body:
            tgt_ok = (isinstance(st, ast.Assign) and any(isinstance(t, ast.Name) and t.id == name for t in st.targets)) or (isinstance(st, ast.AnnAssign) and isinstance(st.target, ast.Name) and st.target.id == name and st.value is not None)
            if tgt_ok:
                if isinstance(st.value, ast.Constant):
                    return st.value.value
                if isinstance(st.value, ast.Dict):
                    out = {}
                    for k, v in zip(st.value.keys, st.value.values):
                        kk = self.ev(k, {}, fi)
                        if isinstance(kk, Sym):
                            raise Unsupported("node as dict key")
                        out[kk] = self.ev(v, {}, fi)
                    return out
                if isinstance(st.value, (ast.Tuple, ast.List)):
                    return self.ev(st.value, {}, fi)
                if isinstance(st.value, ast.Call) and isinstance(st.value.func, ast.Attribute) and isinstance(st.value.func.value, ast.Name) and st.value.func.value.id == "re" and st.value.func.attr == "compile" and st.value.args:
                    pat = self.ev(st.value.args[0], {}, fi)
                    if isinstance(pat, str) and len(st.value.args) == 1 and not st.value.keywords:
                        return _Regex(pat)
                    raise Unsupported("re.compile with flags")
                if isinstance(st.value, ast.Call) and isinstance(st.value.func, ast.Name) and st.value.func.id in ("frozenset", "set", "tuple") and len(st.value.args) == 1:
                    items = self.ev(st.value.args[0], {}, fi)
                    if isinstance(items, (list, tuple)) and not any(isinstance(i, Sym) for i in items):
                        return frozenset(items) if st.value.func.id != "tuple" else tuple(items)
        # a constant imported from another liquid2 module
        target = mod.imports.get(name) if hasattr(mod, "imports") else None
        if isinstance(target, str) and target.startswith("liquid2.") and "." in target:
            mname, _, attr = target.rpartition(".")
            m2 = self.prog.modules.get(mname)
            if m2 is not None and m2 is not mod:
                holder = next((f for f in m2.functions.values()), None)
                if holder is not None:
                    return self._global(holder, attr)
        # constants re-exported from another liquid2 module
        if isinstance(r, str):
            raise Unsupported(f"external name {name}")
        raise Unsupported(f"global {name}")

    def _isinstance(self, v: Any, c: Any) -> bool:
        cs = c if isinstance(c, (tuple, list)) else [c]
        for k in cs:
            if isinstance(k, type):
                if not isinstance(v, Sym) and isinstance(v, k) and not (k is int and isinstance(v, bool) and False):
                    return True
                continue
            if not isinstance(k, ClassInfo):
                raise Unsupported("isinstance against a non-liquid2 class")
            if isinstance(v, Sym) and v.cls is not None and self.prog.is_subclass(v.cls, k):
                return True
        return False

    def _call(self, c: ast.Call, env: dict[str, Any], fi: FunctionInfo) -> Any:
        f = c.func
        if c.keywords and not (isinstance(f, ast.Name) and f.id in env):
            kw = {k.arg: self.ev(k.value, env, fi) for k in c.keywords if k.arg}
        else:
            kw = {k.arg: self.ev(k.value, env, fi) for k in c.keywords if k.arg}
        if isinstance(f, ast.Name):
            if f.id in env and isinstance(env[f.id], _Closure):
                cl: _Closure = env[f.id]
                params = [a.arg for a in cl.node.args.args]
                args = [self.ev(a, env, fi) for a in c.args]
                env2 = dict(cl.env)
                env2[f.id] = cl
                for p, a in zip(params, args):
                    env2[p] = a
                for a_, d_ in zip(reversed(cl.node.args.args), reversed(cl.node.args.defaults)):
                    if a_.arg not in params[: len(args)]:
                        env2[a_.arg] = self.ev(d_, cl.env, cl.fi)
                for a_, d_ in zip(cl.node.args.kwonlyargs, cl.node.args.kw_defaults):
                    if d_ is not None:
                        env2[a_.arg] = self.ev(d_, cl.env, cl.fi)
                env2.update(kw)
                return self._run(cl.node, env2, cl.fi)
            if f.id == "iter" and len(c.args) == 1:
                return _Iter(self._iter(self.ev(c.args[0], env, fi)))
            if f.id == "next" and len(c.args) == 1:
                it = self.ev(c.args[0], env, fi)
                if isinstance(it, _Iter) and it.i < len(it.items):
                    it.i += 1
                    return it.items[it.i - 1]
                raise Unsupported("next() on an exhausted or unknown iterator")
            if f.id == "str" and len(c.args) == 1:
                return self.to_str(self.ev(c.args[0], env, fi))
            if f.id == "repr" and len(c.args) == 1:
                v = self.ev(c.args[0], env, fi)
                if isinstance(v, Sym):
                    raise Unsupported("repr of a node")
                return repr(v)
            if f.id == "isinstance" and len(c.args) == 2:
                return self._isinstance(self.ev(c.args[0], env, fi), self.ev(c.args[1], env, fi))
            if f.id == "float" and len(c.args) == 1:
                v = self.ev(c.args[0], env, fi)
                if isinstance(v, (str, int, float)):
                    return float(v)
                raise Unsupported("float() of a node")
            if f.id == "len" and len(c.args) == 1:
                v = self.ev(c.args[0], env, fi)
                if isinstance(v, str):
                    return len(v)
                return len(self._iter(v))
            if f.id == "type" and len(c.args) == 1:
                v = self.ev(c.args[0], env, fi)
                if isinstance(v, Sym):
                    return v.cls if v.cls is not None else "<type of a leaf expression>"
                raise Unsupported("type() of a non-node")
            r = self.prog.resolve(fi.module, f.id)
            if isinstance(r, FunctionInfo):
                params = [a.arg for a in r.node.args.args]
                env2 = dict(zip(params, [self.ev(a, env, fi) for a in c.args]))
                env2.update(kw)
                for a, d in zip(reversed(r.node.args.args), reversed(r.node.args.defaults)):
                    env2.setdefault(a.arg, self.ev(d, {}, r))
                for a, d in zip(r.node.args.kwonlyargs, r.node.args.kw_defaults):
                    if d is not None:
                        env2.setdefault(a.arg, self.ev(d, {}, r))
                return self._run(r.node, env2, r)
            raise Unsupported(f"call of {f.id}")
        if isinstance(f, ast.Attribute):
            if f.attr == "join" and len(c.args) == 1:
                sep = self.ev(f.value, env, fi)
                items = self._iter(self.ev(c.args[0], env, fi))
                if isinstance(sep, str):
                    return sep.join(self.to_str(i) if not isinstance(i, str) else i for i in items)
            recv = self.ev(f.value, env, fi)
            if isinstance(recv, _Regex) and f.attr in ("fullmatch", "match", "search") and len(c.args) == 1:
                arg = self.ev(c.args[0], env, fi)
                if isinstance(arg, str):
                    return getattr(recv.rx, f.attr)(arg) is not None
                raise Unsupported("regex applied to a non-string")
            if isinstance(recv, list) and f.attr == "append" and len(c.args) == 1:
                recv.append(self.ev(c.args[0], env, fi))
                return None
            if isinstance(recv, dict) and f.attr == "get":
                args = [self.ev(a, env, fi) for a in c.args]
                key = args[0]
                if isinstance(key, Sym):
                    raise Unsupported("node as dict key")
                return recv.get(key, args[1] if len(args) > 1 else None)
            if isinstance(recv, Sym) and recv.cls is not None:
                m = self.prog.find_method(recv.cls, f.attr)
                if m is not None:
                    params = [a.arg for a in m.node.args.args]
                    env2 = dict(zip(params, [recv] + [self.ev(a, env, fi) for a in c.args]))
                    env2.update(kw)
                    for a, d in zip(reversed(m.node.args.args), reversed(m.node.args.defaults)):
                        env2.setdefault(a.arg, self.ev(d, {}, m))
                    for a, d in zip(m.node.args.kwonlyargs, m.node.args.kw_defaults):
                        if d is not None:
                            env2.setdefault(a.arg, self.ev(d, {}, m))
                    return self._run(m.node, env2, m)
            if isinstance(recv, str) and f.attr in ("strip", "lower", "upper", "rstrip", "lstrip") and not c.args:
                return getattr(recv, f.attr)()
            if isinstance(recv, str) and f.attr in ("partition", "rpartition", "split", "startswith", "endswith", "replace", "removeprefix", "removesuffix", "zfill", "find", "count"):
                args = [self.ev(a, env, fi) for a in c.args]
                if all(isinstance(a, (str, int)) for a in args):
                    r = getattr(recv, f.attr)(*args)
                    return list(r) if isinstance(r, tuple) else r
            raise Unsupported(f"method {f.attr} on {type(recv).__name__}")
        raise Unsupported("call form")


# ---------------------------------------------------------------------- parser model
@dataclass
class PrattModel:
    """Operator-precedence parser with the parameters read from the parser's source."""

    infix: dict[str, tuple[str, int]]  # printed symbol -> (class name, precedence)
    prefix: dict[str, str]  # printed symbol -> class name
    prefix_operand_precedence: int  # precedence passed when parsing a prefix operator's operand
    lowest: int
    right_absorbs_equal: bool  # loop continues while next precedence >= current (right-assoc for equal precedence)

    def tokenize(self, text: str) -> list[str]:
        out: list[str] = []
        for chunk in text.replace("(", " ( ").replace(")", " ) ").split():
            out.append(chunk)
        return out

    def parse(self, text: str) -> Any:
        self.toks = self.tokenize(text)
        self.i = 0
        t = self._expr(self.lowest)
        if self.i != len(self.toks):
            raise ValueError(f"trailing tokens {self.toks[self.i:]}")
        return t

    def _peek(self) -> str | None:
        return self.toks[self.i] if self.i < len(self.toks) else None

    def _expr(self, precedence: int) -> Any:
        tok = self._peek()
        if tok is None:
            raise ValueError("unexpected end")
        self.i += 1
        if tok == "(":
            left = self._grouped()
        elif tok in self.prefix:
            left = (self.prefix[tok], self._expr(self.prefix_operand_precedence))
        elif tok in self.infix or tok == ")":
            raise ValueError(f"unexpected {tok}")
        else:
            left = tok
        while True:
            nxt = self._peek()
            if nxt is None or nxt == ")":
                break
            if nxt not in self.infix:
                raise ValueError(f"unexpected {nxt}")
            p = self.infix[nxt][1]
            if p < precedence or (p == precedence and not self.right_absorbs_equal):
                break
            self.i += 1
            left = (self.infix[nxt][0], left, self._expr(p))
        return left

    def _grouped(self) -> Any:
        t = self._expr(self.lowest)
        if self._peek() != ")":
            raise ValueError("unbalanced parentheses")
        self.i += 1
        return t
