"""E4 - intraprocedural abstract-value dataflow ("content is HTML-safe") with light summaries.

Abstract value of an expression: True  = SAFE  (content cannot carry an unescaped HTML-significant
character that came from render data: constants, author literals, escaped text, percent-encoded
text, engine-generated integers, buffers filled by node rendering, safe combinations thereof);
False = UNKNOWN (anything else - parameters, evaluated data, …).
Variables are tracked flow-sensitively over sa.cfg with isinstance(_, Markup) narrowing.
"""

from __future__ import annotations

import ast
from typing import Callable

from .cfg import CFG
from .cfg import N
from .cfg import forward
from .srcmodel import ClassInfo
from .srcmodel import FunctionInfo
from .srcmodel import Program
from .srcmodel import dotted

ESCAPERS = {"markupsafe.escape", "html.escape", "markupsafe.escape_silent"}
MARKUP = {"markupsafe.Markup"}
ENCODERS = {"urllib.parse.quote_plus", "urllib.parse.quote"}
STR_METHODS_PRESERVING = {
    "strip", "lstrip", "rstrip", "lower", "upper", "capitalize", "title", "swapcase", "casefold", "replace", "join",
    "format", "center", "ljust", "rjust", "zfill", "expandtabs", "removeprefix", "removesuffix", "partition", "rpartition",
    "split", "rsplit", "splitlines", "translate", "__add__", "__mod__",
}
GETTEXT_FAMILY = {"gettext": (0,), "ngettext": (0, 1), "pgettext": (1,), "npgettext": (1, 2)}


class Env(dict):
    """var -> SAFE?  (absent = not safe)."""


def _join(a: dict, b: dict) -> dict:
    out = {}
    for k, v in a.items():
        w = b.get(k)
        if not v or not w:
            continue
        if v is True and w is True:
            out[k] = True
        elif v == w:
            out[k] = v
        elif isinstance(v, frozenset) and w is True:
            out[k] = v
        elif isinstance(w, frozenset) and v is True:
            out[k] = w
        elif isinstance(v, frozenset) and isinstance(w, frozenset):
            out[k] = v | w
    return out


class Safety:
    def __init__(self, prog: Program) -> None:
        self.prog = prog
        self.node_base = prog.cls("liquid2.ast.Node")
        self.expr_base = prog.cls("liquid2.expression.Expression")
        self._ret_cache: dict[str, bool] = {}
        self._state_cache: dict = {}
        self._ret_active: set[str] = set()
        self._int_names: set[str] | None = None
        self._param_cache: dict[tuple[str, str], bool] = {}
        self._param_active: set[tuple[str, str]] = set()

    # ------------------------------------------------------------- resolving
    def qual(self, fi: FunctionInfo, e: ast.AST) -> str | None:
        """Fully-qualified external name of a Name/Attribute callee, through the module's imports."""
        d = dotted(e)
        if d is None:
            return None
        r = self.prog.resolve(fi.module, d)
        if isinstance(r, str):
            return r
        if isinstance(r, FunctionInfo):
            return f"{r.module.name}.{r.qualname}"
        if isinstance(r, ClassInfo):
            return r.full
        return None

    def is_markup_ctor(self, fi: FunctionInfo, call: ast.Call) -> bool:
        return self.qual(fi, call.func) in MARKUP

    def int_returning_names(self) -> set[str]:
        """Method/function names every definition of which is annotated `-> int`."""
        if self._int_names is None:
            by_name: dict[str, list[bool]] = {}
            for f in self.prog.all_functions():
                r = f.node.returns
                by_name.setdefault(f.name, []).append(r is not None and ast.unparse(r) == "int")
            self._int_names = {n for n, v in by_name.items() if v and all(v)}
        return self._int_names

    def is_ast_class(self, ci: ClassInfo | None) -> bool:
        return ci is not None and (self.prog.is_subclass(ci, self.node_base) or self.prog.is_subclass(ci, self.expr_base))

    # ------------------------------------------------------------ auto_escape
    def autoescape_flag_ok(self, e: ast.expr | None, env: dict) -> bool:
        """The value passed as auto_escape= is the environment's flag (possibly and-ed with the filter's own opt-in)."""
        if e is None:
            return False
        if isinstance(e, ast.Constant):
            return e.value is True
        if isinstance(e, ast.BoolOp) and isinstance(e.op, ast.And):
            return all(self.autoescape_flag_ok(v, env) for v in e.values)
        d = dotted(e) or ""
        if d.endswith("auto_escape") or d.endswith("auto_escape_message") or d.endswith("autoescape"):
            return True
        return False

    # -------------------------------------------------------------- expr safety
    def safe(self, fi: FunctionInfo, e: ast.AST | None, env: dict, depth: int = 0) -> bool:  # noqa: PLR0911, PLR0912
        if e is None:
            return True
        if isinstance(e, ast.Constant):
            return True
        if isinstance(e, ast.Await):
            return self.safe(fi, e.value, env, depth)
        if isinstance(e, ast.NamedExpr):
            return self.safe(fi, e.value, env, depth)
        if isinstance(e, ast.Name):
            if env.get(e.id):
                return True
            deps = env.get("#dep:" + e.id)
            return bool(deps) and all(env.get(d) for d in deps)
        if isinstance(e, ast.JoinedStr):
            return all(self.safe(fi, v, env, depth) for v in e.values)
        if isinstance(e, ast.FormattedValue):
            if e.conversion == ord("r"):
                return False
            return self.safe(fi, e.value, env, depth) or self.is_int(fi, e.value, env)
        if isinstance(e, ast.IfExp):
            return self.safe(fi, e.body, env, depth) and self.safe(fi, e.orelse, env, depth)
        if isinstance(e, ast.BoolOp):
            return all(self.safe(fi, v, env, depth) for v in e.values)
        if isinstance(e, ast.BinOp):
            if isinstance(e.op, (ast.Add, ast.Mod, ast.Mult)):
                return (self.safe(fi, e.left, env, depth) or self.is_int(fi, e.left, env)) and (self.safe(fi, e.right, env, depth) or self.is_int(fi, e.right, env))
            return self.is_int(fi, e, env)
        if isinstance(e, (ast.List, ast.Tuple, ast.Set)):
            return all(self.safe(fi, x, env, depth) for x in e.elts)
        if isinstance(e, ast.Dict):
            return all(self.safe(fi, v, env, depth) for v in e.values)
        if isinstance(e, (ast.ListComp, ast.GeneratorExp, ast.SetComp)):
            return self.safe(fi, e.elt, env, depth)
        if isinstance(e, ast.DictComp):
            return self.safe(fi, e.value, env, depth)
        if isinstance(e, ast.Subscript):
            return self.safe(fi, e.value, env, depth)
        if isinstance(e, ast.Starred):
            return self.safe(fi, e.value, env, depth)
        if isinstance(e, ast.Attribute):
            # parse-time fields of AST objects are author text (nodes are immutable after parsing: C09.R2)
            if isinstance(e.value, ast.Name) and e.value.id == "self" and self.is_ast_class(fi.cls or (fi.parent_fn.cls if fi.parent_fn else None)):
                return True
            if isinstance(e.value, ast.Attribute):
                return self.safe(fi, e.value, env, depth)  # self.block.text
            return False
        if isinstance(e, ast.Call):
            return self.safe_call(fi, e, env, depth)
        return False

    def is_int(self, fi: FunctionInfo, e: ast.AST, env: dict) -> bool:
        if isinstance(e, ast.Constant):
            return isinstance(e.value, (int, float)) and not isinstance(e.value, bool)
        if isinstance(e, ast.BinOp) and isinstance(e.op, (ast.Add, ast.Sub, ast.Mult, ast.FloorDiv, ast.Mod)):
            return self.is_int(fi, e.left, env) and self.is_int(fi, e.right, env)
        if isinstance(e, ast.Call):
            nm = e.func.attr if isinstance(e.func, ast.Attribute) else (e.func.id if isinstance(e.func, ast.Name) else None)
            if nm in ("len", "int") and isinstance(e.func, ast.Name):
                return True
            return nm in self.int_returning_names()
        if isinstance(e, ast.Attribute):
            # property annotated -> int on an engine class (ForLoop / TableRow …)
            return e.attr in self.int_returning_names()
        if isinstance(e, ast.Name):
            return bool(env.get("#int:" + e.id))
        return False

    def safe_call(self, fi: FunctionInfo, c: ast.Call, env: dict, depth: int) -> bool:  # noqa: PLR0911, PLR0912
        q = self.qual(fi, c.func)
        args = list(c.args)
        kw = {k.arg: k.value for k in c.keywords}
        if q in ESCAPERS or q in ENCODERS:
            return True
        if q in MARKUP:
            return all(self.safe(fi, a, env, depth) for a in args) if args else True
        if q in ("liquid2.stringify.to_liquid_string", "liquid2.builtin.expressions._to_liquid_string", "liquid2.builtin.expressions.to_liquid_string") or (
            isinstance(c.func, ast.Name) and c.func.id in ("to_liquid_string", "_to_liquid_string")
        ):
            if self.autoescape_flag_ok(kw.get("auto_escape"), env):
                return True
            return bool(args) and self.safe(fi, args[0], env, depth)
        if q == "liquid2.utils.html.strip_tags" or q == "liquid2.utils.strip_tags":
            return bool(args) and self.safe(fi, args[0], env, depth)
        if isinstance(c.func, ast.Name) and c.func.id == "str" and len(args) == 1:
            a0 = args[0]
            if isinstance(a0, ast.Name) and env.get("#undef:" + a0.id) and env.get("#undefsrc:" + a0.id):
                return True  # str() of an Undefined the engine built from an author-chosen name
            return self.safe(fi, a0, env, depth) or self.is_int(fi, a0, env)
        if isinstance(c.func, ast.Name) and c.func.id in ("int", "len", "float", "abs", "round", "hash", "bool"):
            return True
        if isinstance(c.func, ast.Attribute):
            attr = c.func.attr
            recv = c.func.value
            if attr == "getvalue" and isinstance(recv, ast.Name) and env.get("#buf:" + recv.id):
                return True
            if attr == "sub" and len(args) >= 2:  # compiled_regex.sub(repl, string)
                rq = self.qual(fi, recv)
                if rq is None or not rq.startswith("re."):
                    return self.safe(fi, args[0], env, depth) and self.safe(fi, args[1], env, depth)
            if q == "re.sub" and len(args) >= 3:
                return self.safe(fi, args[1], env, depth) and self.safe(fi, args[2], env, depth)
            is_self = isinstance(recv, ast.Name) and recv.id == "self"
            if attr in GETTEXT_FAMILY and not is_self and len(args) > max(GETTEXT_FAMILY[attr]):
                return all(self.safe(fi, args[i], env, depth) for i in GETTEXT_FAMILY[attr])
            if attr == "strftime" and len(args) == 1:
                # digits and locale names plus the literal characters of the format - and, for %Z, the name of the time zone, which
                # is arbitrary text held by the datetime's tzinfo (datetime.timezone(offset, name)): safe only where that name has
                # been tested against its escaped form (or found empty) on the path here
                return isinstance(recv, ast.Name) and bool(env.get("#tzsafe:" + recv.id)) and self.safe(fi, args[0], env, depth)
            if attr in ("unescape", "striptags"):
                return False
            if attr == "markup" and len(args) == 1:  # RenderContext.markup
                return self.safe(fi, args[0], env, depth)
            if attr in STR_METHODS_PRESERVING:
                return self.safe(fi, recv, env, depth) and all(self.safe(fi, a, env, depth) or self.is_int(fi, a, env) for a in args) and all(
                    self.safe(fi, v, env, depth) for v in kw.values()
                )
            if attr in self.int_returning_names():
                return True
            # method of the same class: return summary
            if isinstance(recv, ast.Name) and recv.id == "self" and fi.cls is not None and depth < 3:
                m = self.prog.find_method(fi.cls, attr)
                if m is not None:
                    return self.returns_safe(m, depth + 1, self._arg_safety(fi, m, c, env, depth))
            # a method name with exactly one definition in the package (e.g. Environment.trim)
            if depth < 3:
                defs = self.unique_method(attr)
                if defs is not None:
                    return self.returns_safe(defs, depth + 1, self._arg_safety(fi, defs, c, env, depth))
        if isinstance(c.func, ast.Name) and depth < 3:
            r = self.prog.resolve(fi.module, c.func.id)
            if isinstance(r, FunctionInfo):
                return self.returns_safe(r, depth + 1, self._arg_safety(fi, r, c, env, depth))
        return False

    def unique_method(self, name: str) -> FunctionInfo | None:
        if not hasattr(self, "_by_name"):
            self._by_name: dict[str, list[FunctionInfo]] = {}
            for f in self.prog.all_functions():
                if f.cls is not None:
                    self._by_name.setdefault(f.name, []).append(f)
        d = self._by_name.get(name, [])
        return d[0] if len(d) == 1 and not name.startswith("__") else None

    def _arg_safety(self, fi: FunctionInfo, callee: FunctionInfo, c: ast.Call, env: dict, depth: int) -> frozenset[str]:
        params = [p for p in callee.params() if p not in ("self", "cls")]
        out = set()
        for i, a in enumerate(c.args):
            if isinstance(a, ast.Starred) or i >= len(params):
                break
            if self.safe(fi, a, env, depth + 1):
                out.add(params[i])
        for k in c.keywords:
            if k.arg and k.arg in params and self.safe(fi, k.value, env, depth + 1):
                out.add(k.arg)
        return frozenset(out)

    # ------------------------------------------------------------- dataflow
    def solve(self, fi: FunctionInfo, *, param_safe: Callable[[str], bool] | None = None) -> tuple[CFG, dict[int, dict]]:
        cfg = CFG(fi.node)
        init: dict = {}
        local_names = set(fi.params()) | {n.id for n in ast.walk(fi.node) if isinstance(n, ast.Name) and isinstance(n.ctx, ast.Store)}
        for p in fi.params():
            if param_safe and param_safe(p):
                init[p] = True

        def bind(target: ast.AST, value_safe: bool, st: dict, value: ast.AST | None = None) -> None:
            if isinstance(target, ast.Name):
                for k in (target.id, "#buf:" + target.id, "#int:" + target.id, "#dep:" + target.id, "#undef:" + target.id, "#undefsrc:" + target.id, "#tzsafe:" + target.id, "#tzof:" + target.id):
                    st.pop(k, None)
                # anything that depended on the old value of this name is no longer justified
                for k in [k for k, v in st.items() if (k.startswith("#dep:") and (target.id in v or "#tzsafe:" + target.id in v)) or (k.startswith("#tzof:") and v == target.id)]:
                    st.pop(k, None)
                if value_safe:
                    st[target.id] = True
                elif value is not None:
                    callee_names = {id(c.func) for c in ast.walk(value) if isinstance(c, ast.Call) and isinstance(c.func, ast.Name)}
                    free = sorted({n.id for n in ast.walk(value) if isinstance(n, ast.Name) and id(n) not in callee_names and not st.get(n.id) and n.id in local_names})
                    # x.strftime(fmt) is safe modulo the time zone name of x: a hypothesis a later test can discharge
                    tz = sorted({"#tzsafe:" + c.func.value.id for c in ast.walk(value) if isinstance(c, ast.Call) and isinstance(c.func, ast.Attribute) and c.func.attr == "strftime" and isinstance(c.func.value, ast.Name) and not st.get("#tzsafe:" + c.func.value.id)})
                    free = tz + free
                    if free and len(free) <= 5:
                        import itertools

                        found = None
                        for size in range(1, len(free) + 1):
                            for combo in itertools.combinations(free, size):
                                hyp = dict(st)
                                for nm in combo:
                                    hyp[nm] = True
                                if self.safe(fi, value, hyp):
                                    found = frozenset(combo)
                                    break
                            if found:
                                break
                        if found:
                            st["#dep:" + target.id] = found
                if value is not None:
                    tv = value
                    if isinstance(tv, ast.IfExp):
                        alts = [x for x in (tv.body, tv.orelse) if not (isinstance(x, ast.Constant) and (x.value is None or x.value == ""))]
                        tv = alts[0] if len(alts) == 1 else tv
                    if isinstance(tv, ast.Call) and isinstance(tv.func, ast.Attribute) and tv.func.attr == "tzname" and isinstance(tv.func.value, ast.Name) and not tv.args:
                        st["#tzof:" + target.id] = tv.func.value.id
                if value is not None:
                    for u in ast.walk(value):
                        if isinstance(u, ast.Call) and isinstance(u.func, ast.Attribute) and u.func.attr == "undefined" and u.args and self.safe(fi, u.args[0], st):
                            st["#undefsrc:" + target.id] = True
                if value is not None:
                    v = value.value if isinstance(value, ast.Await) else value
                    if isinstance(v, ast.Call) and isinstance(v.func, ast.Attribute) and v.func.attr in ("get_output_buffer", "_get_buffer"):
                        st["#buf:" + target.id] = True
                    if self.is_int(fi, v, st):
                        st["#int:" + target.id] = True
            elif isinstance(target, (ast.Tuple, ast.List)):
                for t in target.elts:
                    bind(t, value_safe, st)
            elif isinstance(target, ast.Starred):
                bind(target.value, value_safe, st)

        def walrus(e: ast.AST, st: dict) -> None:
            for n in ast.walk(e):
                if isinstance(n, ast.NamedExpr):
                    bind(n.target, self.safe(fi, n.value, st), st, n.value)

        def transfer(n: N, st: dict, label: str) -> dict:
            if label == "exc":
                return st
            nd = n.node
            if n.kind == "test" and nd is not None:
                st = dict(st)
                walrus(nd, st)
                if label in ("true", "false"):
                    self._refine(fi, nd, st, label == "true")
                return st
            if n.kind == "for" and isinstance(nd, (ast.For, ast.AsyncFor)):
                st = dict(st)
                bind(nd.target, self.safe(fi, nd.iter, st), st)
                return st
            if n.kind == "with_enter" and isinstance(nd, (ast.With, ast.AsyncWith)):
                st = dict(st)
                for item in nd.items:
                    if item.optional_vars is not None:
                        bind(item.optional_vars, False, st)
                return st
            if n.kind == "handler" and isinstance(nd, ast.ExceptHandler):
                if nd.name:
                    st = dict(st)
                    st.pop(nd.name, None)
                return st
            if n.kind == "case":
                st = dict(st)
                for x in ast.walk(nd.pattern):  # type: ignore[union-attr]
                    for fld in ("name", "rest"):
                        nm = getattr(x, fld, None)
                        if isinstance(nm, str):
                            st.pop(nm, None)
                return st
            if n.kind != "stmt" or nd is None or n.note in ("def", "unhandled"):
                return st
            if n.note in ("for-iter", "match-subject"):
                st = dict(st)
                walrus(nd, st)
                return st
            st = dict(st)
            walrus(nd, st)
            if isinstance(nd, ast.Assign):
                vs = self.safe(fi, nd.value, st)
                for t in nd.targets:
                    bind(t, vs, st, nd.value)
            elif isinstance(nd, ast.AnnAssign) and nd.value is not None:
                bind(nd.target, self.safe(fi, nd.value, st), st, nd.value)
            elif isinstance(nd, ast.AugAssign):
                if isinstance(nd.target, ast.Name):
                    ok = bool(st.get(nd.target.id)) and (self.safe(fi, nd.value, st) or self.is_int(fi, nd.value, st))
                    isint = bool(st.get("#int:" + nd.target.id)) and self.is_int(fi, nd.value, st)
                    bind(nd.target, ok, st)
                    if isint:
                        st["#int:" + nd.target.id] = True
            elif isinstance(nd, ast.Delete):
                for t in nd.targets:
                    bind(t, False, st)
            return st

        IN = forward(cfg, init, transfer, _join)
        return cfg, IN

    def _refine(self, fi: FunctionInfo, test: ast.AST, st: dict, branch: bool) -> None:
        if isinstance(test, ast.UnaryOp) and isinstance(test.op, ast.Not):
            self._refine(fi, test.operand, st, not branch)
            return
        if isinstance(test, ast.BoolOp):
            if (isinstance(test.op, ast.And) and branch) or (isinstance(test.op, ast.Or) and not branch):
                for v in test.values:
                    self._refine(fi, v, st, branch)
            else:
                # a disjunction that holds / a conjunction that fails: one operand decided it - keep what every operand alone establishes
                outs = []
                for v in test.values:
                    alt = dict(st)
                    self._refine(fi, v, alt, branch)
                    outs.append(alt)
                for k in set.intersection(*(set(o) for o in outs)) if outs else ():
                    if k not in st and all(o[k] == outs[0][k] for o in outs):
                        st[k] = outs[0][k]
            return
        # the time zone name tested against its escaped form, or found empty
        if isinstance(test, ast.Compare) and len(test.ops) == 1 and isinstance(test.ops[0], (ast.Eq, ast.NotEq)):
            a, b = test.left, test.comparators[0]
            for x, y in ((a, b), (b, a)):
                if isinstance(x, ast.Call) and len(x.args) == 1 and self.qual(fi, x.func) in ESCAPERS and isinstance(y, ast.Name) and isinstance(x.args[0], ast.Name) and x.args[0].id == y.id:
                    if branch == isinstance(test.ops[0], ast.Eq):
                        st[y.id] = True  # the text is its own escaped form: it holds no HTML-significant character
                        if st.get("#tzof:" + y.id):
                            st["#tzsafe:" + st["#tzof:" + y.id]] = True
        if isinstance(test, ast.Name) and not branch and st.get("#tzof:" + test.id):
            st["#tzsafe:" + st["#tzof:" + test.id]] = True  # no time zone name at all
        if isinstance(test, ast.Call) and isinstance(test.func, ast.Name) and test.func.id == "isinstance" and len(test.args) == 2 and branch:
            v, t = test.args
            if isinstance(v, ast.Name):
                ts = t.elts if isinstance(t, ast.Tuple) else [t]
                if ts and all(self.qual(fi, x) in MARKUP for x in ts):
                    st[v.id] = True  # a Markup value's content is safe by the invariant this rule maintains
                if ts and all((dotted(x) or "") in ("int", "float", "bool") for x in ts):
                    st["#int:" + v.id] = True
                if ts and all((dotted(x) or "").endswith("Undefined") for x in ts):
                    st["#undef:" + v.id] = True
        if isinstance(test, ast.Call) and isinstance(test.func, ast.Name) and test.func.id == "is_undefined" and len(test.args) == 1 and branch:
            if isinstance(test.args[0], ast.Name):
                st["#undef:" + test.args[0].id] = True

    def state_at(self, fi: FunctionInfo, node: ast.AST, *, param_safe: Callable[[str], bool] | None = None) -> dict | None:
        key = (fi.fid, param_safe is not None)
        if key not in self._state_cache:
            self._state_cache[key] = self.solve(fi, param_safe=param_safe)
        cfg, IN = self._state_cache[key]
        for n in cfg.nodes:
            if n.node is None or n.kind in ("entry", "exit", "raise"):
                continue
            if n.kind == "for":
                continue
            if any(x is node for x in ast.walk(n.node)) and not isinstance(n.node, (ast.With, ast.AsyncWith, ast.ExceptHandler, ast.match_case)):
                st = IN.get(n.id)
                if st is None:
                    return None
                # walrus / refinements inside the same statement before `node` are not modelled further
                return st
            if isinstance(n.node, (ast.With, ast.AsyncWith)) and n.kind == "with_enter" and any(x is node for item in n.node.items for x in ast.walk(item.context_expr)):
                return IN.get(n.id)
        return None

    def returns_safe(self, fi: FunctionInfo, depth: int = 0, safe_params: frozenset[str] = frozenset()) -> bool:
        key = f"{fi.fid}|{','.join(sorted(safe_params))}"
        if key in self._ret_cache:
            return self._ret_cache[key]
        if key in self._ret_active:
            return False
        self._ret_active.add(key)
        try:
            rets = [n for n in _own_nodes(fi.node) if isinstance(n, ast.Return)]
            ok = bool(rets)
            cfg, IN = self.solve(fi, param_safe=lambda p: p in safe_params or self.param_safe(fi, p))
            for r in rets:
                st = None
                for n in cfg.nodes:
                    if n.node is r:
                        st = IN.get(n.id)
                if st is None:
                    continue  # unreachable
                if not self.safe(fi, r.value, st, depth):
                    ok = False
            self._ret_cache[key] = ok
            return ok
        finally:
            self._ret_active.discard(key)

    def param_safe(self, fi: FunctionInfo, p: str) -> bool:
        """A parameter is safe when every call site in the package passes a safe argument (methods: by name)."""
        if p in ("self", "cls"):
            return False
        key = (fi.fid, p)
        if key in self._param_cache:
            return self._param_cache[key]
        if key in self._param_active:
            return False
        self._param_active.add(key)
        try:
            params = [x for x in fi.params() if x not in ("self", "cls")]
            if p not in params or fi.cls is None or not fi.name.startswith("_") or fi.name.startswith("__"):
                self._param_cache[key] = False
                return False  # only private helpers: public API can be called from anywhere
            idx = params.index(p)
            sites = 0
            ok = True
            for other in self.prog.all_functions():
                if other.module is not fi.module:
                    continue
                for c in _own_nodes(other.node):
                    if isinstance(c, ast.Call) and isinstance(c.func, ast.Attribute) and c.func.attr == fi.name:
                        sites += 1
                        arg = c.args[idx] if idx < len(c.args) else next((k.value for k in c.keywords if k.arg == p), None)
                        st = self.state_at(other, c, param_safe=None)
                        if arg is None or st is None or not self.safe(other, arg, st, 1):
                            ok = False
            res = ok and sites > 0
            self._param_cache[key] = res
            return res
        finally:
            self._param_active.discard(key)


def _own_nodes(fn: ast.AST):
    stack = list(ast.iter_child_nodes(fn))
    while stack:
        n = stack.pop()
        yield n
        if isinstance(n, (ast.FunctionDef, ast.AsyncFunctionDef, ast.ClassDef, ast.Lambda)):
            continue
        stack.extend(ast.iter_child_nodes(n))
