"""E3 - dynamic-traversal vs static-traversal agreement for AST classes.

dynamic(C, methods)  = first-level attributes `a` of self such that an access path rooted at self.a (directly, through a
                       local alias, or through a loop/comprehension variable ranging over it) is the receiver of one of the
                       *use* calls (evaluate/render/…) or is passed to a helper of the same class that does so.
static(C, methods)   = attributes contributed by the static traversal methods, with the kind of contribution:
                       ELEMENT (self.a itself / its elements / `x.value for x in self.a`) or DELEGATED (only
                       `self.a.children()` - i.e. a's children but not a).
"""

from __future__ import annotations

import ast
from dataclasses import dataclass
from dataclasses import field

from .srcmodel import ClassInfo
from .srcmodel import FunctionInfo
from .srcmodel import Program

ELEMENT, DELEGATED = "element", "delegated"


def _root_attrs(e: ast.AST, aliases: dict[str, set[str]], helper_reads: dict[str, set[str]] | None = None, *, strict: bool = False) -> set[str]:
    """First-level attributes of self an access path is rooted at (through aliases / self-helper calls).

    strict: the *value* of e is (an element of) the attribute itself - the result of calling a method on it (`self.a.evaluate(c)`,
    `load(self.a)`) is something else and roots nowhere. Used for what children()/expressions() hand out."""
    while True:
        if isinstance(e, ast.Await):
            e = e.value
        elif isinstance(e, ast.Call):
            f = e.func
            if helper_reads is not None and isinstance(f, ast.Attribute) and isinstance(f.value, ast.Name) and f.value.id == "self" and f.attr in helper_reads:
                return set(helper_reads[f.attr])
            if isinstance(f, ast.Name) and f.id in ("zip", "zip_longest", "enumerate", "chain", "list", "iter", "reversed", "sorted", "tuple") or (isinstance(f, ast.Attribute) and f.attr in ("zip_longest", "chain")):
                out: set[str] = set()
                for a in e.args:
                    out |= _root_attrs(a, aliases, helper_reads, strict=strict)
                return out
            if strict and not (isinstance(f, ast.Attribute) and f.attr in ("values", "items", "keys", "copy")):
                return set()
            e = f
        elif isinstance(e, ast.Subscript):
            e = e.value
        elif isinstance(e, ast.Starred):
            e = e.value
        elif isinstance(e, ast.Attribute):
            if isinstance(e.value, ast.Name) and e.value.id == "self":
                return {e.attr}
            e = e.value
        elif isinstance(e, ast.Name):
            return set(aliases.get(e.id, ()))
        else:
            return set()


def _root_attr(e: ast.AST, aliases: dict[str, set[str]]) -> str | None:
    r = sorted(_root_attrs(e, aliases))
    return r[0] if r else None


def _aliases(fn: ast.AST, helper_reads: dict[str, set[str]] | None = None, *, strict: bool = False) -> dict[str, set[str]]:
    """local name -> self attributes it may derive from (assignment, for/comprehension target)."""
    al: dict[str, set[str]] = {}
    changed = True
    while changed:
        changed = False

        def bind(target: ast.AST, src: ast.AST) -> None:
            nonlocal changed
            a = _root_attrs(src, al, helper_reads, strict=strict)
            if not a:
                return
            for t in ast.walk(target):
                if isinstance(t, ast.Name) and not a <= al.get(t.id, set()):
                    al.setdefault(t.id, set()).update(a)
                    changed = True

        for n in ast.walk(fn):
            if isinstance(n, ast.Assign):
                for t in n.targets:
                    bind(t, n.value)
            elif isinstance(n, ast.AnnAssign) and n.value is not None:
                bind(n.target, n.value)
            elif isinstance(n, ast.NamedExpr):
                bind(n.target, n.value)
            elif isinstance(n, (ast.For, ast.AsyncFor)):
                bind(n.target, n.iter)
            elif isinstance(n, ast.comprehension):
                bind(n.target, n.iter)
            elif isinstance(n, ast.Call) and isinstance(n.func, ast.Attribute) and n.func.attr in ("append", "extend") and isinstance(n.func.value, ast.Name) and n.args:
                bind(n.func.value, n.args[0])
            elif isinstance(n, ast.Subscript) and isinstance(n.ctx, ast.Store) and isinstance(n.value, ast.Name):
                par_val = None
                # d[k] = v  -> d derives from v
                for m_ in ast.walk(fn):
                    if isinstance(m_, ast.Assign) and n in m_.targets:
                        par_val = m_.value
                if par_val is not None:
                    bind(n.value, par_val)
    return al


def _helper_reads(prog: Program, ci: ClassInfo) -> dict[str, set[str]]:
    """method name -> self attributes (non-method) it reads; for value-returning helpers such as CallNode.macro_args."""
    out: dict[str, set[str]] = {}
    methods = set()
    for k in prog.mro(ci):
        methods |= set(k.methods)
    for k in prog.mro(ci):
        for name, m in k.methods.items():
            if name in out:
                continue
            out[name] = {a.attr for a in ast.walk(m.node) if isinstance(a, ast.Attribute) and isinstance(a.value, ast.Name) and a.value.id == "self" and a.attr not in methods and isinstance(a.ctx, ast.Load)}
    return out


@dataclass
class Use:
    attr: str
    call: ast.Call
    via: str


def dynamic_uses(prog: Program, ci: ClassInfo, method_names: tuple[str, ...], use_calls: set[str], _depth: int = 0) -> list[Use]:
    out: list[Use] = []
    for mn in method_names:
        m = prog.find_method(ci, mn)
        if m is None or m.cls is None:
            continue
        out += _uses_in(prog, ci, m, use_calls, _depth)
    return out


def _uses_in(prog: Program, ci: ClassInfo, m: FunctionInfo, use_calls: set[str], depth: int) -> list[Use]:
    hr = _helper_reads(prog, ci)
    al = _aliases(m.node, hr)
    out: list[Use] = []
    for c in ast.walk(m.node):
        if not isinstance(c, ast.Call):
            continue
        if isinstance(c.func, ast.Attribute) and c.func.attr in use_calls:
            for a in sorted(_root_attrs(c.func.value, al, hr)):
                out.append(Use(a, c, f"{m.qualname}: {ast.unparse(c.func)[:60]}"))
        # match statement on self.x with class patterns binding sub-fields
        # helper of the same class: self.h(...)
        if isinstance(c.func, ast.Attribute) and isinstance(c.func.value, ast.Name) and c.func.value.id == "self" and depth < 2:
            h = prog.find_method(ci, c.func.attr)
            if h is not None and h is not m and h.name not in ("children", "expressions", "__str__"):
                out += _uses_in(prog, ci, h, use_calls, depth + 1)
    # `match self.x: case _y: _y.evaluate(...)`
    for n in ast.walk(m.node):
        if isinstance(n, ast.Match):
            a = _root_attr(n.subject, al)
            if a is None:
                continue
            for case in n.cases:
                names = {x.name for x in ast.walk(case.pattern) if isinstance(x, ast.MatchAs) and x.name}
                for c in ast.walk(case):
                    if isinstance(c, ast.Call) and isinstance(c.func, ast.Attribute) and c.func.attr in use_calls:
                        r = c.func.value
                        while isinstance(r, (ast.Attribute, ast.Subscript, ast.Await)):
                            r = r.value
                        if isinstance(r, ast.Name) and r.id in names:
                            out.append(Use(a, c, f"{m.qualname}: match self.{a}"))
    return out


@dataclass
class Contribution:
    attr: str
    kind: str
    where: str
    conditional: str = ""


def static_contributions(prog: Program, ci: ClassInfo, method_names: tuple[str, ...]) -> list[Contribution]:
    out: list[Contribution] = []
    for mn in method_names:
        m = prog.find_method(ci, mn)
        if m is None:
            continue
        al = _aliases(m.node, strict=True)
        # local accumulators (children = [...]; children.append(...); return children) are not contributions themselves
        delegated_locals: set[str] = {t.id for n_ in ast.walk(m.node) if isinstance(n_, ast.Assign) for t in n_.targets if isinstance(t, ast.Name)}

        def scoped(al_: dict, binders: list[tuple[ast.AST, ast.AST]]) -> dict:
            """Aliases with every loop / comprehension variable re-bound to the iterable of the loop that is in force here (the
            function-wide alias map is a union over all loops that reuse the name: crediting `for f in self.tail_filters: …f.children()`
            to self.filters as well would hide a dropped contribution)."""
            out_al = dict(al_)
            for target, it in binders:
                roots = _root_attrs(it, out_al, strict=True)
                for t in ast.walk(target):
                    if isinstance(t, ast.Name):
                        out_al[t.id] = set(roots)
            return out_al

        def classify(e: ast.AST, al: dict, m: FunctionInfo = m) -> list[tuple[str, str]]:
            """(attr, kind) pairs for an expression whose value is contributed as element(s)."""
            if isinstance(e, ast.Await):
                return classify(e.value, al)
            if isinstance(e, ast.Starred):
                return classify(e.value, al)
            if isinstance(e, (ast.GeneratorExp, ast.ListComp)):
                return classify(e.elt, scoped(al, [(g.target, g.iter) for g in e.generators]))
            if isinstance(e, ast.Call) and isinstance(e.func, ast.Attribute) and e.func.attr in ("children", "expressions", "children_async"):
                return [(a, DELEGATED) for a in sorted(_root_attrs(e.func.value, al, strict=True))]
            if isinstance(e, ast.Call) and isinstance(e.func, ast.Attribute) and e.func.attr in ("values", "items", "keys"):
                return classify(e.func.value, al)
            if isinstance(e, ast.Call) and isinstance(e.func, ast.Name) and e.func.id in ("list", "tuple", "iter", "chain", "reversed"):
                out_: list[tuple[str, str]] = []
                for a_ in e.args:
                    out_ += classify(a_, al)
                return out_
            return [(a, ELEMENT) for a in sorted(_root_attrs(e, al, strict=True))]

        def add(e: ast.AST, where: ast.AST) -> None:
            items: list[ast.AST] = []
            if isinstance(e, (ast.List, ast.Tuple)):
                items = list(e.elts)
            elif isinstance(e, ast.BinOp) and isinstance(e.op, ast.Add):
                add(e.left, where)
                add(e.right, where)
                return
            else:
                items = [e]
            loops = [a for a in m.module.ancestors(where) if isinstance(a, (ast.For, ast.AsyncFor))]  # noqa: B023
            here = scoped(al, [(a.target, a.iter) for a in reversed(loops)])  # noqa: B023
            for it in items:
                if isinstance(it, ast.Name) and it.id in delegated_locals:
                    continue
                for r in classify(it, here):
                    cond = ""
                    for anc in m.module.ancestors(where):  # noqa: B023
                        if isinstance(anc, ast.If):
                            cond = ast.unparse(anc.test)[:60]
                            break
                        if anc is m.node:  # noqa: B023
                            break
                    out.append(Contribution(r[0], r[1], f"{m.qualname}:{getattr(where, 'lineno', 0)}", cond))  # noqa: B023

        for n in ast.walk(m.node):
            if isinstance(n, ast.Return) and n.value is not None:
                add(n.value, n)
            elif isinstance(n, ast.Expr) and isinstance(n.value, (ast.Yield, ast.YieldFrom)) and n.value.value is not None:
                add(n.value.value, n)
            elif isinstance(n, ast.Assign) and isinstance(n.value, (ast.List, ast.Tuple, ast.Call, ast.ListComp)):
                # children = [self.left] / children = self.left.children()
                add(n.value, n)
            elif isinstance(n, ast.Call) and isinstance(n.func, ast.Attribute) and n.func.attr in ("append", "extend", "insert") and n.args:
                add(n.args[-1], n)
    return out


def carrier_typed(ci: ClassInfo, attr: str, prog: Program) -> bool:
    """The attribute holds carrier objects (Filter / argument classes), not Expression/Node objects themselves."""
    for k in prog.mro(ci):
        init = k.methods.get("__init__")
        if init is None:
            continue
        for p in init.node.args.args + init.node.args.kwonlyargs:
            if p.arg == attr and p.annotation is not None:
                t = ast.unparse(p.annotation)
                return _is_carrier_type(t)
        for n in ast.walk(init.node):
            if isinstance(n, ast.AnnAssign) and isinstance(n.target, ast.Attribute) and n.target.attr == attr:
                t = ast.unparse(n.annotation)
                return _is_carrier_type(t)
    return False


def _is_carrier_type(t: str) -> bool:
    import re

    return bool(re.search(r"\b(Filter|KeywordArgument|PositionalArgument|Parameter|MessageBlock|Macro)\b", t))
