"""E2 - sync/async twin (and sibling) normaliser + structural comparator."""

from __future__ import annotations

import ast
import copy
import re
from dataclasses import dataclass

from .report import norm
from .srcmodel import FunctionInfo
from .srcmodel import Program

ASYNC_SUFFIX = re.compile(r"_async(?=$|__$)")


def strip_async_name(name: str) -> str:
    if name == "filter_async":
        return "__call__"
    if name.endswith("_async__") and name.startswith("__"):
        return name  # protocol hook names such as __getitem_async__ are kept
    return ASYNC_SUFFIX.sub("", name)


def find_pairs(prog: Program) -> list[tuple[FunctionInfo, FunctionInfo]]:
    """(sync, async) pairs: same scope, names X / X_async (or __call__ / filter_async)."""
    out = []
    for mod in prog.modules.values():
        for q, fa in mod.functions.items():
            scope, _, name = q.rpartition(".")
            base = strip_async_name(name)
            if base == name:
                continue
            qs = f"{scope}.{base}" if scope else base
            fs = mod.functions.get(qs)
            if fs is None and fa.cls is not None:
                # inherited sync twin
                m = prog.find_method(fa.cls, base)
                fs = m
            if fs is not None and fs is not fa:
                out.append((fs, fa))
    return sorted(out, key=lambda p: p[1].fid)


class _Norm(ast.NodeTransformer):
    def __init__(self, is_undefined_equiv: bool = True) -> None:
        self.is_undefined_equiv = is_undefined_equiv

    # --- async forms --------------------------------------------------------
    def visit_Await(self, node: ast.Await) -> ast.AST:
        return self.visit(node.value)

    def visit_AsyncFunctionDef(self, node: ast.AsyncFunctionDef) -> ast.AST:
        new = ast.FunctionDef(
            name=node.name, args=node.args, body=node.body, decorator_list=node.decorator_list, returns=None, type_comment=None, type_params=[]
        )
        return self.visit_FunctionDef(ast.copy_location(new, node))

    def visit_FunctionDef(self, node: ast.FunctionDef) -> ast.AST:
        node.name = strip_async_name(node.name)
        node.returns = None
        node.decorator_list = []
        for a in node.args.posonlyargs + node.args.args + node.args.kwonlyargs:
            a.annotation = None
        if node.args.vararg:
            node.args.vararg.annotation = None
        if node.args.kwarg:
            node.args.kwarg.annotation = None
        body = node.body
        if body and isinstance(body[0], ast.Expr) and isinstance(body[0].value, ast.Constant) and isinstance(body[0].value.value, str):
            body = body[1:]
        node.body = body or [ast.Pass()]
        self.generic_visit(node)
        node.body = _flatten(node.body) or [ast.Pass()]
        return node

    def visit_AsyncFor(self, node: ast.AsyncFor) -> ast.AST:
        new = ast.For(target=node.target, iter=node.iter, body=node.body, orelse=node.orelse, type_comment=None)
        return self.generic_visit(ast.copy_location(new, node))

    def visit_AsyncWith(self, node: ast.AsyncWith) -> ast.AST:
        new = ast.With(items=node.items, body=node.body, type_comment=None)
        return self.generic_visit(ast.copy_location(new, node))

    def visit_comprehension(self, node: ast.comprehension) -> ast.AST:
        node.is_async = 0
        return self.generic_visit(node)

    # --- names --------------------------------------------------------------
    def visit_Name(self, node: ast.Name) -> ast.AST:
        node.id = strip_async_name(node.id)
        return node

    def visit_Attribute(self, node: ast.Attribute) -> ast.AST:
        node.attr = strip_async_name(node.attr)
        return self.generic_visit(node)

    def visit_keyword(self, node: ast.keyword) -> ast.AST:
        return self.generic_visit(node)

    # --- noise --------------------------------------------------------------
    def visit_Assert(self, node: ast.Assert) -> ast.AST | None:
        return None

    def visit_AnnAssign(self, node: ast.AnnAssign) -> ast.AST | None:
        if node.value is None:
            return None
        new = ast.Assign(targets=[node.target], value=node.value, type_comment=None)
        return self.generic_visit(ast.copy_location(new, node))

    def visit_Call(self, node: ast.Call) -> ast.AST:
        self.generic_visit(node)
        # list comprehension consumed directly by a call == generator expression
        node.args = [ast.copy_location(ast.GeneratorExp(elt=a.elt, generators=a.generators), a) if isinstance(a, ast.ListComp) else a for a in node.args]
        # isinstance(x, Undefined) == is_undefined(x)
        if self.is_undefined_equiv and isinstance(node.func, ast.Name) and node.func.id == "isinstance" and len(node.args) == 2:
            t = node.args[1]
            if isinstance(t, ast.Name) and t.id == "Undefined":
                return ast.copy_location(ast.Call(func=ast.Name(id="is_undefined", ctx=ast.Load()), args=[node.args[0]], keywords=[]), node)
        # cast(T, x) == x
        if isinstance(node.func, ast.Name) and node.func.id == "cast" and len(node.args) == 2:
            return node.args[1]
        # loop.run_in_executor(None, f, *a) == f(*a);  run_in_executor(None, lambda: E) == E
        if isinstance(node.func, ast.Attribute) and node.func.attr == "run_in_executor" and len(node.args) >= 2:
            ex = node.args[0]
            if isinstance(ex, ast.Constant) and ex.value is None:
                f = node.args[1]
                if isinstance(f, ast.Lambda) and not (f.args.args or f.args.kwonlyargs or f.args.vararg or f.args.kwarg) and len(node.args) == 2:
                    return f.body
                return ast.copy_location(ast.Call(func=f, args=node.args[2:], keywords=[]), node)
        return node

    def visit_Assign(self, node: ast.Assign) -> ast.AST | None:
        # drop  loop = asyncio.get_running_loop()
        v = node.value
        if isinstance(v, ast.Call) and isinstance(v.func, ast.Attribute) and v.func.attr in ("get_running_loop", "get_event_loop"):
            return None
        return self.generic_visit(node)

    def visit_Expr(self, node: ast.Expr) -> ast.AST | None:
        if isinstance(node.value, ast.Constant):
            return None  # stray docstrings / ellipsis
        return self.generic_visit(node)


def _flatten(body: list[ast.stmt]) -> list[ast.stmt]:
    return [s for s in body if s is not None]


class _Alpha(ast.NodeTransformer):
    """Rename locals (parameters except self/cls, assigned names, loop/with/except targets) by first occurrence."""

    def __init__(self, fn: ast.FunctionDef) -> None:
        self.map: dict[str, str] = {}
        self.locals: set[str] = set()
        a = fn.args
        for p in a.posonlyargs + a.args + a.kwonlyargs:
            if p.arg not in ("self", "cls"):
                self.locals.add(p.arg)
        if a.vararg:
            self.locals.add(a.vararg.arg)
        if a.kwarg:
            self.locals.add(a.kwarg.arg)
        for n in ast.walk(fn):
            if isinstance(n, ast.Name) and isinstance(n.ctx, (ast.Store, ast.Del)):
                self.locals.add(n.id)
            elif isinstance(n, ast.ExceptHandler) and n.name:
                self.locals.add(n.name)
            elif isinstance(n, (ast.FunctionDef, ast.AsyncFunctionDef)) and n is not fn:
                self.locals.add(n.name)
                for p in n.args.posonlyargs + n.args.args + n.args.kwonlyargs:
                    self.locals.add(p.arg)
            elif isinstance(n, ast.Lambda):
                for p in n.args.posonlyargs + n.args.args + n.args.kwonlyargs:
                    self.locals.add(p.arg)

    def _r(self, name: str) -> str:
        if name not in self.locals:
            return name
        if name not in self.map:
            self.map[name] = f"v{len(self.map)}"
        return self.map[name]

    def visit_Name(self, node: ast.Name) -> ast.AST:
        node.id = self._r(node.id)
        return node

    def visit_arg(self, node: ast.arg) -> ast.AST:
        node.arg = self._r(node.arg)
        return node

    def visit_ExceptHandler(self, node: ast.ExceptHandler) -> ast.AST:
        if node.name:
            node.name = self._r(node.name)
        return self.generic_visit(node)

    def visit_FunctionDef(self, node: ast.FunctionDef) -> ast.AST:
        node.name = self._r(node.name)
        return self.generic_visit(node)

    def visit_keyword(self, node: ast.keyword) -> ast.AST:
        # keyword *names* in calls are API, not locals
        node.value = self.visit(node.value)
        return node


def normalise(fn: ast.FunctionDef | ast.AsyncFunctionDef, *, alpha: bool = True) -> ast.FunctionDef:
    tree = copy.deepcopy(fn)
    out = _Norm().visit(tree)
    assert isinstance(out, ast.FunctionDef)
    out.name = "_"
    out = _inline_hook_helpers(out)
    out = _yield_from_to_return(out)
    out = _inline_single_use_temps(out)
    if alpha:
        # parameters keep their order; rename in order of first textual occurrence
        out = _Alpha(out).visit(out)
    ast.fix_missing_locations(out)
    return out


def _inline_single_use_temps(fn: ast.FunctionDef) -> ast.FunctionDef:
    """`t = E; <stmt using t exactly once, immediately after>`  ->  `<stmt with E>` (straight-line only)."""

    def process(body: list[ast.stmt]) -> list[ast.stmt]:
        out: list[ast.stmt] = []
        i = 0
        while i < len(body):
            s = body[i]
            for fld in ("body", "orelse", "finalbody"):
                sub = getattr(s, fld, None)
                if isinstance(sub, list) and sub and isinstance(sub[0], ast.stmt):
                    setattr(s, fld, process(sub))
            if isinstance(s, ast.Try):
                for h in s.handlers:
                    h.body = process(h.body)
            if (
                isinstance(s, ast.Assign)
                and len(s.targets) == 1
                and isinstance(s.targets[0], ast.Name)
                and i + 1 < len(body)
            ):
                name = s.targets[0].id
                nxt = body[i + 1]
                uses_next = [n for n in ast.walk(nxt) if isinstance(n, ast.Name) and n.id == name]
                uses_later = any(isinstance(n, ast.Name) and n.id == name for later in body[i + 2 :] for n in ast.walk(later))
                uses_total_fn = sum(1 for n in ast.walk(fn) if isinstance(n, ast.Name) and n.id == name)
                simple_next = isinstance(nxt, (ast.Return, ast.Expr, ast.Assign, ast.AugAssign, ast.Raise))
                if len(uses_next) == 1 and isinstance(uses_next[0].ctx, ast.Load) and not uses_later and uses_total_fn == 2 and simple_next:
                    target = uses_next[0]

                    class Sub(ast.NodeTransformer):
                        def visit_Name(self, node: ast.Name) -> ast.AST:
                            return s.value if node is target else node  # noqa: B023

                    body[i + 1] = Sub().visit(nxt)
                    i += 1
                    continue
            out.append(s)
            i += 1
        return out

    fn.body = process(fn.body)
    return fn


def _yield_from_to_return(fn: ast.FunctionDef) -> ast.FunctionDef:
    """A generator whose only yields are `yield from X` statements == `return X` (+ `return []` on fall-through)."""
    yields = [n for n in _walk_own(fn) if isinstance(n, (ast.Yield, ast.YieldFrom))]
    if not yields or not all(isinstance(y, ast.YieldFrom) for y in yields):
        return fn

    class R(ast.NodeTransformer):
        ok = True

        def visit_Expr(self, node: ast.Expr) -> ast.AST:
            if isinstance(node.value, ast.YieldFrom):
                return ast.copy_location(ast.Return(value=node.value.value), node)
            return node

        def visit_FunctionDef(self, node: ast.FunctionDef) -> ast.AST:
            return node if node is not fn else self.generic_visit(node)

        def visit_Lambda(self, node: ast.Lambda) -> ast.AST:
            return node

    r = R()
    fn = r.visit(fn)
    if any(isinstance(n, (ast.Yield, ast.YieldFrom)) for n in _walk_own(fn)):
        return fn  # a yield-from in expression position: leave alone
    last = fn.body[-1]
    if not isinstance(last, (ast.Return, ast.Raise)):
        fn.body.append(ast.Return(value=ast.List(elts=[], ctx=ast.Load())))
    return fn


def _walk_own(fn: ast.AST):
    stack = list(ast.iter_child_nodes(fn))
    while stack:
        n = stack.pop()
        yield n
        if isinstance(n, (ast.FunctionDef, ast.AsyncFunctionDef, ast.Lambda, ast.ClassDef)):
            continue
        stack.extend(ast.iter_child_nodes(n))


def _inline_hook_helpers(fn: ast.FunctionDef) -> ast.FunctionDef:
    """A local helper `def h(a, b): if hasattr(a, "__x_async__"): return a.__x_async__(b); return a[b]`
    is the documented async protocol hook with the sync operation as fallback: calls h(p, q) == p[q]."""
    helpers: dict[str, ast.FunctionDef] = {}
    for st in fn.body:
        if isinstance(st, ast.FunctionDef) and len(st.args.args) == 2 and len(st.body) == 2:
            a, b = st.args.args[0].arg, st.args.args[1].arg
            first, second = st.body
            if (
                isinstance(first, ast.If)
                and isinstance(first.test, ast.Call)
                and isinstance(first.test.func, ast.Name)
                and first.test.func.id == "hasattr"
                and len(first.test.args) == 2
                and isinstance(first.test.args[1], ast.Constant)
                and str(first.test.args[1].value).endswith("_async__")
                and not first.orelse
                and isinstance(second, ast.Return)
                and isinstance(second.value, ast.Subscript)
                and isinstance(second.value.value, ast.Name)
                and second.value.value.id == a
                and isinstance(second.value.slice, ast.Name)
                and second.value.slice.id == b
            ):
                helpers[st.name] = st
    if not helpers:
        return fn

    class I(ast.NodeTransformer):
        def visit_Call(self, node: ast.Call) -> ast.AST:
            self.generic_visit(node)
            if isinstance(node.func, ast.Name) and node.func.id in helpers and len(node.args) == 2 and not node.keywords:
                return ast.copy_location(ast.Subscript(value=node.args[0], slice=node.args[1], ctx=ast.Load()), node)
            return node

    fn.body = [st for st in fn.body if not (isinstance(st, ast.FunctionDef) and st.name in helpers)]
    return I().visit(fn)


def is_default_delegation(fa: ast.FunctionDef | ast.AsyncFunctionDef, sync_name: str) -> bool:
    """Body (after the docstring) is exactly `return self.<sync>(<params forwarded unchanged>)`."""
    body = [s for s in fa.body if not (isinstance(s, ast.Expr) and isinstance(s.value, ast.Constant))]
    if len(body) != 1 or not isinstance(body[0], ast.Return):
        return False
    c = body[0].value
    if isinstance(c, ast.Await):
        c = c.value
    # executor form:  <loop>.run_in_executor(None, <owner>.<sync>, <params…>)  ==  <owner>.<sync>(<params…>)
    if isinstance(c, ast.Call) and isinstance(c.func, ast.Attribute) and c.func.attr == "run_in_executor" and len(c.args) >= 2 and isinstance(c.args[0], ast.Constant) and c.args[0].value is None and not c.keywords:
        c = ast.Call(func=c.args[1], args=list(c.args[2:]), keywords=[])
    if not (isinstance(c, ast.Call) and isinstance(c.func, ast.Attribute) and isinstance(c.func.value, ast.Name) and c.func.attr == sync_name):
        return False
    if c.func.value.id != "self" and not c.func.value.id[:1].isupper():
        return False  # owner is `self` or the class itself (static / class methods)
    a = fa.args
    pos = [p.arg for p in a.posonlyargs + a.args if p.arg != "self"]
    got_pos = [x.id if isinstance(x, ast.Name) else None for x in c.args if not isinstance(x, ast.Starred)]
    if got_pos != pos:
        return False
    star = [x for x in c.args if isinstance(x, ast.Starred)]
    if bool(star) != bool(a.vararg) or (star and not (isinstance(star[0].value, ast.Name) and star[0].value.id == a.vararg.arg)):
        return False
    kws = {k.arg: k.value for k in c.keywords}
    for p in a.kwonlyargs:
        v = kws.pop(p.arg, None)
        if not (isinstance(v, ast.Name) and v.id == p.arg):
            return False
    if a.kwarg:
        v = kws.pop(None, None)
        if not (isinstance(v, ast.Name) and v.id == a.kwarg.arg):
            return False
    return not kws


@dataclass
class Diff:
    sync_text: str
    async_text: str
    sync_line: int
    async_line: int


def _stmt_dump(s: ast.AST) -> str:
    return ast.dump(s, include_attributes=False)


def diff_functions(fs: ast.FunctionDef, fa: ast.FunctionDef) -> list[Diff]:
    """Minimal differing statements between two normalised functions."""
    diffs: list[Diff] = []

    def cmp_pair(sa: ast.stmt, sb: ast.stmt) -> None:
        if _stmt_dump(sa) == _stmt_dump(sb):
            return
        if type(sa) is type(sb) and isinstance(sa, (ast.If, ast.For, ast.While, ast.With, ast.Try, ast.FunctionDef)):
            hdr_a, hdr_b = _header(sa), _header(sb)
            if hdr_a[0] == hdr_b[0]:
                for fld in ("body", "orelse", "finalbody"):
                    xa, xb = getattr(sa, fld, None), getattr(sb, fld, None)
                    if isinstance(xa, list) and isinstance(xb, list):
                        cmp_body(xa, xb, sa.lineno, sb.lineno)
                if isinstance(sa, ast.Try):
                    ha, hb = sa.handlers, sb.handlers  # type: ignore[union-attr]
                    for j in range(max(len(ha), len(hb))):
                        if j >= len(ha) or j >= len(hb):
                            diffs.append(Diff(norm(ha[j]) if j < len(ha) else "<no handler>", norm(hb[j]) if j < len(hb) else "<no handler>", sa.lineno, sb.lineno))
                        elif _stmt_dump(ha[j]) != _stmt_dump(hb[j]):
                            ta = ast.dump(ha[j].type) if ha[j].type else ""
                            tb = ast.dump(hb[j].type) if hb[j].type else ""
                            if ta == tb:
                                cmp_body(ha[j].body, hb[j].body, ha[j].lineno, hb[j].lineno)
                            else:
                                diffs.append(Diff(norm(ha[j]), norm(hb[j]), ha[j].lineno, hb[j].lineno))
                return
            diffs.append(Diff(hdr_a[1], hdr_b[1], sa.lineno, sb.lineno))
            return
        diffs.append(Diff(norm(sa), norm(sb), sa.lineno, sb.lineno))

    def cmp_body(a: list[ast.stmt], b: list[ast.stmt], la: int, lb: int) -> None:
        import difflib

        da, db = [_stmt_dump(x) for x in a], [_stmt_dump(x) for x in b]
        sm = difflib.SequenceMatcher(a=da, b=db, autojunk=False)
        for tag, i1, i2, j1, j2 in sm.get_opcodes():
            if tag == "equal":
                continue
            xs, ys = a[i1:i2], b[j1:j2]
            k = min(len(xs), len(ys))
            for x, y in zip(xs[:k], ys[:k]):
                cmp_pair(x, y)
            for x in xs[k:]:
                diffs.append(Diff(norm(x), "<nothing>", getattr(x, "lineno", la), lb))
            for y in ys[k:]:
                diffs.append(Diff("<nothing>", norm(y), la, getattr(y, "lineno", lb)))

    # parameters
    pa, pb = ast.dump(fs.args), ast.dump(fa.args)
    if pa != pb:
        diffs.append(Diff("def _(" + ast.unparse(fs.args) + ")", "def _(" + ast.unparse(fa.args) + ")", fs.lineno, fa.lineno))
    cmp_body(fs.body, fa.body, fs.lineno, fa.lineno)
    return diffs


def _header(s: ast.stmt) -> tuple[str, str]:
    if isinstance(s, ast.If):
        return ("if" + ast.dump(s.test), "if " + norm(s.test))
    if isinstance(s, ast.While):
        return ("while" + ast.dump(s.test), "while " + norm(s.test))
    if isinstance(s, ast.For):
        return ("for " + ast.dump(s.target) + ast.dump(s.iter), "for " + norm(s.target) + " in " + norm(s.iter))
    if isinstance(s, ast.With):
        return ("with " + "".join(ast.dump(i) for i in s.items), "with " + ", ".join(norm(i) for i in s.items))
    if isinstance(s, ast.Try):
        return ("try", "try")
    if isinstance(s, ast.FunctionDef):
        return ("def" + ast.dump(s.args), "def " + s.name)
    return ("?", norm(s))
