"""E6 - annotation-driven static type approximation (no inference engine: it reads what the code declares).

`TypeApprox.of(fi, expr)` returns the declared type text of an expression inside function *fi*, or None when the
code does not say.  Sources, in order: literals; parameter annotations; annotated assignments; single plain
assignments `x = <expr>` (followed once); `self.x` through class-level annotations, annotated stores and
`self.x = <param>` in `__init__`; return annotations of resolved callees and constructors; a table of builtin
results (str(), len(), "".join(), str methods).  isinstance() tests that dominate the expression refine a name
(`if isinstance(x, str): ... x ...`, early `return`/`raise` on the negated test).

The classification helpers answer the two questions the escape catalogue asks about *data values* (values of
JSON-like context data, which this code base annotates `object` / `Any`):
  may_be_big_int(t)   - str()/format()/repr() of it can raise ValueError (CPython int->str digit limit)
  may_be_unhashable(t)- hashing it (dict/set membership, dict key) can raise TypeError
Unknown (None) is reported separately by callers: counted, never silently treated as safe or unsafe.
"""

from __future__ import annotations

import ast
import re

from .srcmodel import ClassInfo
from .srcmodel import FunctionInfo
from .srcmodel import Program
from .srcmodel import dotted

STR_METHODS = {
    "strip", "lstrip", "rstrip", "lower", "upper", "title", "capitalize", "replace", "join", "format", "casefold", "center", "ljust", "rjust",
    "zfill", "expandtabs", "translate", "removeprefix", "removesuffix", "swapcase", "group", "decode", "read", "getvalue",
}
BUILTIN_RESULT = {
    "str": "str", "repr": "str", "len": "len", "bool": "bool", "chr": "str", "ascii": "str", "format": "str", "float": "float", "int": "int",
    "sorted": "list", "list": "list", "tuple": "tuple", "dict": "dict", "set": "set", "frozenset": "frozenset", "isinstance": "bool", "hasattr": "bool",
    "id": "len", "hash": "len", "ord": "len", "type": "type", "escape": "Markup", "Markup": "Markup", "soft_str": "str",
}
DATA_WORDS = re.compile(r"\b(object|Any)\b")
INT_WORDS = re.compile(r"\b(int|Number|Integral|SupportsInt)\b")
HASHABLE_WORDS = re.compile(
    r"^(str|int|len|bool|float|bytes|None|NoneType|TokenType|Token|TokenT|type|Markup|Path|Decimal|tuple\[str, \.\.\.\]|Enum|re\.Pattern(\[str\])?)(\s*\|\s*(str|int|len|bool|float|bytes|None|TokenType|Token|TokenT|type|Markup|Path|Decimal))*$"
)


class TypeApprox:
    def __init__(self, prog: Program) -> None:
        self.prog = prog
        self._attr_cache: dict[tuple[str, str], str | None] = {}

    # ------------------------------------------------------------------ expression types
    def of(self, fi: FunctionInfo, e: ast.AST | None, _depth: int = 0) -> str | None:  # noqa: PLR0911, PLR0912
        if e is None or _depth > 6:
            return None
        if isinstance(e, ast.Constant):
            return "None" if e.value is None else type(e.value).__name__
        if isinstance(e, ast.JoinedStr):
            return "str"
        if isinstance(e, (ast.List, ast.ListComp)):
            return "list"
        if isinstance(e, ast.Tuple):
            return "tuple"
        if isinstance(e, (ast.Dict, ast.DictComp)):
            return "dict"
        if isinstance(e, (ast.Set, ast.SetComp)):
            return "set"
        if isinstance(e, ast.Compare) or (isinstance(e, ast.UnaryOp) and isinstance(e.op, ast.Not)):
            return "bool"
        if isinstance(e, ast.Await):
            return self.of(fi, e.value, _depth + 1)
        if isinstance(e, ast.NamedExpr):
            return self.of(fi, e.value, _depth + 1)
        if isinstance(e, ast.IfExp):
            a, b = self.of(fi, e.body, _depth + 1), self.of(fi, e.orelse, _depth + 1)
            if a is None or b is None:
                return None
            return a if a == b else f"{a} | {b}"
        if isinstance(e, ast.BoolOp):
            ts = [self.of(fi, v, _depth + 1) for v in e.values]
            if any(t is None for t in ts):
                return None
            return " | ".join(sorted(set(ts)))  # type: ignore[arg-type]
        if isinstance(e, ast.BinOp):
            lt, rt = self.of(fi, e.left, _depth + 1), self.of(fi, e.right, _depth + 1)
            if isinstance(e.op, ast.Mod) and lt == "str":
                return "str"
            if isinstance(e.op, ast.Add) and (lt == "str" or rt == "str"):
                return "str"
            if lt in ("len", "int") and rt in ("len", "int") and isinstance(e.op, (ast.Add, ast.Sub, ast.Mult, ast.FloorDiv, ast.Mod)):
                return "len" if lt == rt == "len" and not isinstance(e.op, ast.Mult) else "int"
            return None
        if isinstance(e, ast.Name):
            return self._name(fi, e, _depth)
        if isinstance(e, ast.Attribute):
            return self._attribute(fi, e, _depth)
        if isinstance(e, ast.Call):
            return self._call(fi, e, _depth)
        if isinstance(e, ast.Subscript):
            base = self.of(fi, e.value, _depth + 1)
            if base is None:
                return None
            if isinstance(e.slice, ast.Constant) and isinstance(e.slice.value, tuple) and e.slice.value[0] == "tuple-index":
                m = re.fullmatch(r"[Tt]uple\[(.+)\]", base.replace(" | None", ""))
                if m:
                    parts = _split_top(m.group(1))
                    i = e.slice.value[1]
                    if len(parts) == 2 and parts[1] == "...":
                        return parts[0]
                    return parts[i] if i < len(parts) else None
                return None
            if isinstance(e.slice, ast.Slice):
                return base if base in ("str", "list", "tuple") or base.startswith(("list[", "tuple[")) else None
            if base == "str":
                return "str"
            m = re.fullmatch(r"(?:list|Sequence|Iterable|Iterator|tuple|deque|List|Tuple)\[(.+?)(?:, \.\.\.)?\]", base)
            if m and "," not in m.group(1):
                return m.group(1)
            m = re.fullmatch(r"(?:dict|Mapping|Dict|MutableMapping|DefaultDict|defaultdict)\[(.+?), (.+)\]", base)
            if m:
                return m.group(2)
            return None
        return None

    @staticmethod
    def _elem(t: str | None) -> str | None:
        if t is None:
            return None
        if t == "str":
            return "str"
        m = re.fullmatch(r"(?:list|Sequence|Iterable|Iterator|tuple|deque|List|Tuple|set|Set|frozenset|Collection)\[(.+?)(?:, \.\.\.)?\]", t)
        if m and "," not in m.group(1):
            return m.group(1)
        return None

    def _refined(self, fi: FunctionInfo, name: ast.Name) -> str | None:
        """isinstance refinement: `name` sits in the true branch of `isinstance(name, T)` (if / ifexp / and-chain),
        or after an `if not isinstance(name, T): raise/return`."""
        mod = fi.module
        child: ast.AST = name
        for a in mod.ancestors(name):
            tests: list[tuple[ast.AST, bool]] = []
            if isinstance(a, ast.If) and any(child is s for s in a.body):
                tests.append((a.test, True))
            elif isinstance(a, ast.IfExp) and child is a.body:
                tests.append((a.test, True))
            elif isinstance(a, ast.BoolOp) and isinstance(a.op, ast.And):
                idx = next((i for i, v in enumerate(a.values) if v is child), None)
                if idx:
                    tests.extend((v, True) for v in a.values[:idx])
            # else / elif branch of  `if … or not isinstance(x, T) …:`  ->  x is T there
            if isinstance(a, ast.If) and any(child is s for s in a.orelse):
                disj = a.test.values if isinstance(a.test, ast.BoolOp) and isinstance(a.test.op, ast.Or) else [a.test]
                for dsj in disj:
                    if isinstance(dsj, ast.UnaryOp) and isinstance(dsj.op, ast.Not):
                        r = self._isinstance_type(dsj.operand, name.id)
                        if r:
                            return r
            for t, _pos in tests:
                for sub in (t.values if isinstance(t, ast.BoolOp) and isinstance(t.op, ast.And) else [t]):
                    r = self._isinstance_type(sub, name.id)
                    if r:
                        return r
            # preceding sibling guard:  if not isinstance(x, T): raise/return
            body = getattr(a, "body", None)
            for blk in (body, getattr(a, "orelse", None), getattr(a, "finalbody", None)):
                if isinstance(blk, list) and any(child is s for s in blk):
                    for s in blk:
                        if s is child:
                            break
                        if isinstance(s, ast.If) and isinstance(s.test, ast.UnaryOp) and isinstance(s.test.op, ast.Not) and s.body and isinstance(s.body[-1], (ast.Raise, ast.Return, ast.Continue)):
                            r = self._isinstance_type(s.test.operand, name.id)
                            if r:
                                return r
                        if isinstance(s, ast.Assert):
                            r = self._isinstance_type(s.test, name.id)
                            if r:
                                return r
            child = a
            if a is fi.node:
                break
        return None

    @staticmethod
    def _isinstance_type(t: ast.AST, name: str) -> str | None:
        if isinstance(t, ast.Call) and isinstance(t.func, ast.Name) and t.func.id == "isinstance" and len(t.args) == 2 and isinstance(t.args[0], ast.Name) and t.args[0].id == name:
            ty = t.args[1]
            elts = ty.elts if isinstance(ty, ast.Tuple) else [ty]
            names = [dotted(x) for x in elts]
            if all(names):
                return " | ".join(names)  # type: ignore[arg-type]
        return None

    refine = True  # isinstance() narrowing; callers asking "where does the value come from" switch it off

    def declared(self, fi: FunctionInfo, e: ast.AST | None) -> str | None:
        """Type as declared at the value's source, ignoring isinstance() narrowing on the way."""
        old = self.refine
        self.refine = False
        try:
            return self.of(fi, e)
        finally:
            self.refine = old

    def _name(self, fi: FunctionInfo, e: ast.Name, depth: int) -> str | None:
        r = self._refined(fi, e) if self.refine else None
        if r:
            return r
        f: FunctionInfo | None = fi
        while f is not None:
            a = f.node.args
            for p in a.posonlyargs + a.args + a.kwonlyargs:
                if p.arg == e.id:
                    if p.annotation is not None:
                        return ast.unparse(p.annotation).strip("'\"")
                    if p.arg in ("self", "cls") and f.cls is not None:
                        return f.cls.name
                    return None
            if a.vararg and a.vararg.arg == e.id:
                return "tuple"
            if a.kwarg and a.kwarg.arg == e.id:
                return "dict"
            stores: list[ast.AST] = []
            for n in ast.walk(f.node):
                if isinstance(n, ast.AnnAssign) and isinstance(n.target, ast.Name) and n.target.id == e.id:
                    return ast.unparse(n.annotation).strip("'\"")
                if isinstance(n, ast.Assign) and any(isinstance(t, ast.Name) and t.id == e.id for t in n.targets):
                    stores.append(n.value)
                elif isinstance(n, ast.Assign) and any(isinstance(t, ast.Tuple) and any(isinstance(x, ast.Name) and x.id == e.id for x in t.elts) for t in n.targets):
                    tt = next(t for t in n.targets if isinstance(t, ast.Tuple) and any(isinstance(x, ast.Name) and x.id == e.id for x in t.elts))
                    i = next(i for i, x in enumerate(tt.elts) if isinstance(x, ast.Name) and x.id == e.id)
                    if isinstance(n.value, ast.Tuple) and len(n.value.elts) == len(tt.elts):
                        stores.append(n.value.elts[i])
                    else:
                        stores.append(ast.Subscript(value=n.value, slice=ast.Constant(("tuple-index", i)), ctx=ast.Load()))
                elif isinstance(n, ast.NamedExpr) and n.target.id == e.id:
                    stores.append(n.value)
                elif isinstance(n, (ast.For, ast.AsyncFor, ast.comprehension)) and any(isinstance(t, ast.Name) and t.id == e.id for t in ast.walk(n.target)):
                    stores.append(ast.Subscript(value=n.iter, slice=ast.Constant(0), ctx=ast.Load()) if isinstance(n.target, ast.Name) else ast.Name(id="?", ctx=ast.Load()))
                elif isinstance(n, (ast.AugAssign,)) and isinstance(n.target, ast.Name) and n.target.id == e.id:
                    stores.append(ast.BinOp(left=n.target, op=n.op, right=n.value))
                elif isinstance(n, ast.ExceptHandler) and n.name == e.id:
                    return "Exception"
                elif isinstance(n, (ast.With, ast.AsyncWith)):
                    for it in n.items:
                        if isinstance(it.optional_vars, ast.Name) and it.optional_vars.id == e.id:
                            stores.append(ast.Name(id="?", ctx=ast.Load()))
            if stores:
                ts = set()
                for v in stores:
                    if isinstance(v, ast.BinOp) and isinstance(v.left, ast.Name) and v.left.id == e.id:
                        continue  # x += ...: same type as the other stores
                    t = self.of(f, v, depth + 1) if not (isinstance(v, ast.Name) and v.id == "?") else None
                    if t is None:
                        return None
                    ts.add(t)
                if not ts:
                    return None
                return ts.pop() if len(ts) == 1 else " | ".join(sorted(ts))
            f = f.parent_fn
        # module-level constant
        for st in fi.module.tree.body:
            if isinstance(st, ast.AnnAssign) and isinstance(st.target, ast.Name) and st.target.id == e.id:
                return ast.unparse(st.annotation)
            if isinstance(st, ast.Assign) and any(isinstance(t, ast.Name) and t.id == e.id for t in st.targets):
                return self.of(fi, st.value, depth + 1)
        r2 = self.prog.resolve(fi.module, e.id)
        if isinstance(r2, ClassInfo):
            return "type"
        return None

    def class_of(self, fi: FunctionInfo, t: str | None) -> ClassInfo | None:
        if not t:
            return None
        t = t.replace(" | None", "").replace("None | ", "").strip()
        if not re.fullmatch(r"[A-Za-z_][\w.]*", t):
            return None
        r = self.prog.resolve(fi.module, t)
        if isinstance(r, ClassInfo):
            return r
        cands = [c for c in self.prog.all_classes() if c.name == t]
        return cands[0] if len(cands) == 1 else None

    def attr_type(self, ci: ClassInfo, attr: str) -> str | None:
        key = (ci.full, attr)
        if key in self._attr_cache:
            return self._attr_cache[key]
        self._attr_cache[key] = None
        out: str | None = None
        for c in self.prog.mro(ci):
            for st in c.node.body:
                if isinstance(st, ast.AnnAssign) and isinstance(st.target, ast.Name) and st.target.id == attr:
                    out = ast.unparse(st.annotation)
                    break
                if isinstance(st, ast.Assign) and any(isinstance(t, ast.Name) and t.id == attr for t in st.targets):
                    init = c.methods.get("__init__") or next(iter(c.methods.values()), None)
                    out = self.of(init, st.value, 3) if init is not None else None
                    break
            if out:
                break
            m = c.methods.get(attr)
            if m is not None and any(d in ("property", "cached_property", "functools.cached_property") for d in m.decorators()):
                out = ast.unparse(m.node.returns) if m.node.returns is not None else None
                break
            for mname in ("__init__", "__post_init__"):
                init = c.methods.get(mname)
                if init is None:
                    continue
                for n in ast.walk(init.node):
                    if isinstance(n, ast.AnnAssign) and isinstance(n.target, ast.Attribute) and isinstance(n.target.value, ast.Name) and n.target.value.id == "self" and n.target.attr == attr:
                        out = ast.unparse(n.annotation)
                        break
                    if isinstance(n, ast.Assign) and any(isinstance(t, ast.Attribute) and isinstance(t.value, ast.Name) and t.value.id == "self" and t.attr == attr for t in n.targets):
                        out = self.of(init, n.value, 3)
                        break
                if out:
                    break
            if out:
                break
        # a bare type variable resolved through the class's parametrised base:  class StringLiteral(Literal[str])
        if out is not None and re.fullmatch(r"[A-Z]\w?", out):
            for c in self.prog.mro(ci):
                for b in c.base_exprs:
                    m = re.fullmatch(r"\w+\[([\w.]+)\]", b.replace(" ", ""))
                    if m and m.group(1) != out:
                        out = m.group(1)
                        break
                else:
                    continue
                break
        self._attr_cache[key] = out
        return out

    def _attribute(self, fi: FunctionInfo, e: ast.Attribute, depth: int) -> str | None:
        if e.attr in ("__name__", "__qualname__", "__module__", "__doc__"):
            return "str"
        if e.attr == "__class__":
            return "type"
        d = dotted(e)
        if d is not None:
            r = self.prog.resolve(fi.module, d)
            if isinstance(r, ClassInfo):
                return "type"
            if isinstance(r, str) and r.startswith(("sys.", "os.", "string.")):
                return None
        base = self.of(fi, e.value, depth + 1)
        if base is None:
            return None
        if base == "type" and e.attr == "__name__":
            return "str"
        if base.replace(" | None", "") in ("re.Match[str]", "Match[str]", "re.Match"):
            return None
        ci = self.class_of(fi, base)
        if ci is not None:
            if e.attr in ("name", "_name_") and any(x.split(".")[-1] in ("Enum", "IntEnum", "StrEnum", "Flag") for x in self.prog.ext_ancestors(ci)):
                return "str"
            return self.attr_type(ci, e.attr)
        return None

    def _call(self, fi: FunctionInfo, c: ast.Call, depth: int) -> str | None:
        f = c.func
        if isinstance(f, ast.Name):
            r = self.prog.resolve(fi.module, f.id)
            if isinstance(r, FunctionInfo):
                return ast.unparse(r.node.returns).strip("'\"") if r.node.returns is not None else None
            if isinstance(r, ClassInfo):
                return r.name
            if f.id in ("min", "max") and c.args:
                ts = {self.of(fi, a, depth + 1) for a in c.args}
                if ts <= {"len", "int"}:
                    return "len" if "len" in ts and f.id == "min" else ("len" if ts == {"len"} else "int")
                return None
            if f.id == "iter" and len(c.args) == 1:
                t = self.of(fi, c.args[0], depth + 1)
                el = self._elem(t)
                return f"Iterator[{el}]" if el else None
            if f.id == "next" and c.args:
                return self._elem(self.of(fi, c.args[0], depth + 1))
            if f.id in ("reversed", "enumerate", "zip", "map", "filter"):
                return None
            if f.id == "cast" and len(c.args) == 2:
                return ast.unparse(c.args[0]).strip("'\"")
            if f.id in BUILTIN_RESULT and not isinstance(r, (FunctionInfo, ClassInfo)):
                return BUILTIN_RESULT[f.id]
            p: FunctionInfo | None = fi
            while p is not None:
                q = f"{p.qualname}.<locals>.{f.id}"
                if q in fi.module.functions:
                    g = fi.module.functions[q]
                    return ast.unparse(g.node.returns) if g.node.returns is not None else None
                p = p.parent_fn
            return None
        if isinstance(f, ast.Attribute):
            d = dotted(f)
            if d is not None:
                r = self.prog.resolve(fi.module, d)
                if isinstance(r, FunctionInfo):
                    return ast.unparse(r.node.returns).strip("'\"") if r.node.returns is not None else None
                if isinstance(r, ClassInfo):
                    return r.name
            recv = self.of(fi, f.value, depth + 1)
            if isinstance(f.value, ast.Constant) and isinstance(f.value.value, str) and f.attr in STR_METHODS:
                return "str"
            if recv in ("str", "Markup") and f.attr in STR_METHODS:
                return recv
            if recv in ("str", "Markup") and f.attr in ("split", "rsplit", "splitlines"):
                return "list[str]"
            if recv in ("str", "Markup") and f.attr in ("find", "rfind", "index", "rindex", "count"):
                return "len"
            if recv in ("str", "Markup") and f.attr in ("startswith", "endswith", "isdigit", "isspace", "isalpha", "isalnum", "isupper", "islower"):
                return "bool"
            if recv is not None and f.attr in ("get", "pop", "setdefault"):
                m2 = re.fullmatch(r"(?:dict|Mapping|Dict|MutableMapping|DefaultDict|defaultdict)\[(.+?), (.+)\]", recv)
                if m2:
                    return m2.group(2) + (" | None" if f.attr != "setdefault" and len(c.args) < 2 else "")
            ci = self.class_of(fi, recv)
            if ci is not None:
                m = self.prog.find_method(ci, f.attr)
                if m is not None and m.node.returns is not None:
                    return ast.unparse(m.node.returns).strip("'\"")
            return None
        return None


def _split_top(t: str) -> list[str]:
    out, depth, cur = [], 0, ""
    for ch in t:
        if ch == "[":
            depth += 1
        elif ch == "]":
            depth -= 1
        if ch == "," and depth == 0:
            out.append(cur.strip())
            cur = ""
        else:
            cur += ch
    if cur.strip():
        out.append(cur.strip())
    return out


# ---------------------------------------------------------------------- classifications
def is_data(t: str | None) -> bool:
    """Declared as an arbitrary (context data) value."""
    return bool(t) and bool(DATA_WORDS.search(t or ""))


def may_be_big_int(t: str | None) -> bool | None:
    """True: declared data value or arbitrary int; False: provably not an unbounded int; None: undeclared."""
    if t is None:
        return None
    if DATA_WORDS.search(t):
        return True
    if INT_WORDS.search(t.replace("len", "")) and re.search(r"\bint\b", t):
        return True
    return False


def may_be_unhashable(t: str | None) -> bool | None:
    if t is None:
        return None
    if DATA_WORDS.search(t):
        return True
    if HASHABLE_WORDS.match(t):
        return False
    if re.search(r"\b(list|dict|set|List|Dict|Sequence|Mapping|Iterable)\b", t):
        return True
    return False
