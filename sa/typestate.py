"""Small interprocedural typestate helper on top of sa.cfg.

A client supplies
  * a finite lattice (join),
  * `stmt_effect(stmt_ast, state) -> state` for non-call effects of a simple statement,
  * `call_effect(call_ast, state, branch) -> state | None` for calls it knows (None = not handled),
  * `test_refine(test_ast, state, branch) -> state` for branch refinement.
Expressions are evaluated in (approximate) evaluation order; short-circuit operands
are joined with "not evaluated".
"""

from __future__ import annotations

import ast
from typing import Any
from typing import Callable

from .cfg import CFG
from .cfg import N
from .cfg import forward

State = Any


class Typestate:
    def __init__(
        self,
        *,
        join: Callable[[State, State], State],
        stmt_effect: Callable[[ast.AST, State], State],
        call_effect: Callable[[ast.Call, State, bool | None], State | None],
        test_refine: Callable[[ast.AST, State, bool], State] | None = None,
    ) -> None:
        self.join = join
        self.stmt_effect = stmt_effect
        self.call_effect = call_effect
        self.test_refine = test_refine or (lambda t, s, b: s)

    # ------------------------------------------------------------ expressions
    def expr(self, e: ast.AST | None, st: State, branch: bool | None = None) -> State:
        """State after evaluating expression *e* from *st*.

        *branch*: when not None, the truth value *e* is known to take (edge-sensitive).
        """
        if e is None:
            return st
        if isinstance(e, ast.UnaryOp) and isinstance(e.op, ast.Not):
            return self.expr(e.operand, st, None if branch is None else not branch)
        if isinstance(e, ast.NamedExpr):
            return self.expr(e.value, st, branch)
        if isinstance(e, ast.Await):
            return self.expr(e.value, st, branch)
        if isinstance(e, ast.BoolOp):
            is_and = isinstance(e.op, ast.And)
            # first operand always evaluated; later ones maybe
            known_all = branch is not None and (branch if is_and else not branch)
            cur = self.expr(e.values[0], st, (is_and if known_all else None))
            for v in e.values[1:]:
                nxt = self.expr(v, cur, (is_and if known_all else None))
                cur = nxt if known_all else self.join(cur, nxt)
            if branch is not None:
                cur = self.test_refine(e, cur, branch)
            return cur
        if isinstance(e, ast.IfExp):
            s0 = self.expr(e.test, st)
            a = self.expr(e.body, self.expr(e.test, st, True))
            b = self.expr(e.orelse, self.expr(e.test, st, False))
            del s0
            return self.join(a, b)
        if isinstance(e, ast.Call):
            cur = st
            if isinstance(e.func, ast.Attribute):
                cur = self.expr(e.func.value, cur)
            else:
                cur = self.expr(e.func, cur)
            for a in e.args:
                cur = self.expr(a.value if isinstance(a, ast.Starred) else a, cur)
            for k in e.keywords:
                cur = self.expr(k.value, cur)
            out = self.call_effect(e, cur, branch)
            return cur if out is None else out
        if isinstance(e, (ast.Lambda, ast.GeneratorExp, ast.ListComp, ast.SetComp, ast.DictComp)):
            return st  # deferred / local; clients that care handle them in stmt_effect
        if isinstance(e, ast.Compare):
            cur = self.expr(e.left, st)
            for c in e.comparators:
                cur = self.expr(c, cur)
            if branch is not None:
                cur = self.test_refine(e, cur, branch)
            return cur
        cur = st
        for child in ast.iter_child_nodes(e):
            if isinstance(child, ast.expr):
                cur = self.expr(child, cur)
        if branch is not None:
            cur = self.test_refine(e, cur, branch)
        return cur

    # -------------------------------------------------------------- statements
    def stmt(self, s: ast.AST, st: State) -> State:
        if isinstance(s, ast.Expr):
            return self.stmt_effect(s, self.expr(s.value, st))
        if isinstance(s, ast.Assign):
            cur = self.expr(s.value, st)
            return self.stmt_effect(s, cur)
        if isinstance(s, ast.AnnAssign):
            cur = self.expr(s.value, st)
            return self.stmt_effect(s, cur)
        if isinstance(s, ast.AugAssign):
            cur = self.expr(s.value, st)
            return self.stmt_effect(s, cur)
        if isinstance(s, ast.Return):
            return self.stmt_effect(s, self.expr(s.value, st))
        if isinstance(s, (ast.Raise, ast.Assert, ast.Delete, ast.Pass, ast.Break, ast.Continue, ast.Global, ast.Nonlocal, ast.Import, ast.ImportFrom)):
            cur = st
            for child in ast.iter_child_nodes(s):
                if isinstance(child, ast.expr):
                    cur = self.expr(child, cur)
            return self.stmt_effect(s, cur)
        if isinstance(s, ast.expr):
            return self.expr(s, st)
        return self.stmt_effect(s, st)

    # ---------------------------------------------------------------- transfer
    def transfer(self, n: N, st: State, label: str) -> State:
        if label == "exc":
            return st  # pre-state: the statement did not complete
        if n.kind in ("entry", "exit", "raise", "handler", "case", "with_exit"):
            return st
        if n.kind == "test":
            if label in ("true", "false"):
                return self.expr(n.node, st, label == "true")
            return self.expr(n.node, st)
        if n.kind == "for":
            return st
        if n.kind == "with_enter":
            cur = st
            for item in n.node.items:  # type: ignore[union-attr]
                cur = self.expr(item.context_expr, cur)
            return cur
        if n.kind == "stmt":
            if n.note in ("for-iter", "match-subject"):
                return self.expr(n.node, st)
            if n.note in ("def", "unhandled"):
                return st
            return self.stmt(n.node, st)  # type: ignore[arg-type]
        return st

    def solve(self, cfg: CFG, init: State) -> dict[int, State]:
        return forward(cfg, init, self.transfer, self.join)
