"""Small shared helpers for the checks."""

from __future__ import annotations

import ast
from typing import Callable
from typing import Iterator

from .cfg import CFG
from .cfg import N
from .srcmodel import FunctionInfo
from .srcmodel import Module
from .srcmodel import Program


def is_self_attr(e: ast.AST | None, attr: str | None = None) -> bool:
    return isinstance(e, ast.Attribute) and isinstance(e.value, ast.Name) and e.value.id == "self" and (attr is None or e.attr == attr)


def cfg_node_of(cfg: CFG, node: ast.AST) -> N | None:
    """The CFG node whose statement/test contains *node* (innermost = the one with the smallest subtree)."""
    best = None
    best_size = None
    for n in cfg.nodes:
        if n.node is None or n.kind in ("entry", "exit", "raise"):
            continue
        if n.kind in ("for",) and isinstance(n.node, (ast.For, ast.AsyncFor)):
            scope: list[ast.AST] = [n.node.target]
        elif n.kind in ("with_enter", "with_exit") and isinstance(n.node, (ast.With, ast.AsyncWith)):
            if n.kind == "with_exit":
                continue
            scope = [i.context_expr for i in n.node.items]
        elif n.kind == "handler" and isinstance(n.node, ast.ExceptHandler):
            scope = [n.node.type] if n.node.type is not None else []
        elif n.kind == "case":
            scope = [n.node.pattern] + ([n.node.guard] if n.node.guard else [])  # type: ignore[union-attr]
        elif n.note == "unhandled":
            continue
        else:
            scope = [n.node]
        for s in scope:
            if s is None:
                continue
            size = 0
            hit = False
            for x in ast.walk(s):
                size += 1
                if x is node:
                    hit = True
            if hit and (best_size is None or size < best_size):
                best, best_size = n, size
    return best


def dominated_by(cfg: CFG, target: N, pred: Callable[[N], bool]) -> bool:
    """Every path entry -> target passes through a node satisfying pred."""
    return cfg.all_paths_pass(target, pred)


def guarded_by_test(cfg: CFG, target: N, is_guard: Callable[[ast.AST], bool | None]) -> N | None:
    """Find a test node t, is_guard(t.node) in (True: bad-on-true, False: bad-on-false), such that the
    bad edge cannot reach target and every path to target passes t. Returns the test node."""
    for t in cfg.nodes:
        if t.kind != "test" or t.node is None:
            continue
        g = is_guard(t.node)
        if g is None:
            continue
        bad = "true" if g else "false"
        via_bad = any(lab == bad and (m is target or target.id in cfg.reachable(m, avoid=lambda x, t=t: x is t)) for m, lab in t.succ)
        without = target.id in cfg.reachable(cfg.entry, avoid=lambda x, t=t: x is t)
        if not via_bad and not without:
            return t
    return None


def own_calls(fi: FunctionInfo, *, attr: str | None = None, name: str | None = None) -> Iterator[ast.Call]:
    for c in ast.walk(fi.node):
        if isinstance(c, ast.Call):
            if attr is not None and isinstance(c.func, ast.Attribute) and c.func.attr == attr:
                yield c
            elif name is not None and isinstance(c.func, ast.Name) and c.func.id == name:
                yield c
            elif attr is None and name is None:
                yield c


def all_calls(prog: Program) -> Iterator[tuple[Module, ast.Call]]:
    for mod in prog.modules.values():
        for n in ast.walk(mod.tree):
            if isinstance(n, ast.Call):
                yield mod, n


def enclosing_with(mod: Module, node: ast.AST, pred: Callable[[ast.withitem], bool]) -> ast.With | None:
    for a in mod.ancestors(node):
        if isinstance(a, (ast.With, ast.AsyncWith)) and any(pred(i) for i in a.items):
            # node must be in the body, not in the header
            if any(node is x for b in a.body for x in ast.walk(b)):
                return a  # type: ignore[return-value]
        if isinstance(a, (ast.FunctionDef, ast.AsyncFunctionDef)):
            break
    return None


def render_methods(prog: Program) -> Iterator[FunctionInfo]:
    node_base = prog.cls("liquid2.ast.Node")
    for ci in prog.subclasses(node_base):
        for name in ("render_to_output", "render_to_output_async"):
            m = ci.methods.get(name)
            if m is not None:
                yield m


def callee_name(fn: ast.AST, c: ast.Call) -> str | None:
    """The attribute/function name a call finally refers to, looking through local aliases (`pb = self.env.parser.parse_block; pb(…)`),
    so that a rule keyed on *what* is called does not depend on what the local alias happens to be named."""
    f = c.func
    if isinstance(f, ast.Attribute):
        return f.attr
    if isinstance(f, ast.Name):
        srcs = [a.value for a in ast.walk(fn) if isinstance(a, ast.Assign) and any(isinstance(t, ast.Name) and t.id == f.id for t in a.targets)]
        if srcs and all(isinstance(v, ast.Attribute) for v in srcs) and len({v.attr for v in srcs}) == 1:  # type: ignore[union-attr]
            return srcs[0].attr  # type: ignore[union-attr]
        return f.id
    return None


def region_when_true(mod: Module, node: ast.If) -> list[ast.stmt]:
    """Statements that run when the *core* condition of `node` holds. For `if C:` that is the body; for the guard form
    `if not C: <leave>` it is the else branch plus - when the body always leaves the block - the statements that follow the if."""
    neg = isinstance(node.test, ast.UnaryOp) and isinstance(node.test.op, ast.Not)
    if not neg:
        return list(node.body)
    out = list(node.orelse)
    if node.body and isinstance(node.body[-1], (ast.Return, ast.Raise, ast.Continue, ast.Break)):
        parent = mod.parent(node)
        for fld in ("body", "orelse", "finalbody"):
            b = getattr(parent, fld, None)
            if isinstance(b, list) and node in b:
                out += b[b.index(node) + 1 :]
        if isinstance(parent, ast.ExceptHandler) and node in parent.body:
            out += parent.body[parent.body.index(node) + 1 :]
    return out
