#!/venv/bin/python
"""Benign-refactoring campaign (evaluation tooling, NOT a check): apply behaviour-preserving rewrites to a scratch copy of
liquid2, confirm with the unedited test suite that behaviour is preserved, and run every static check on the result.
Any new finding or ANALYSIS-ERROR is a false alarm / a brittleness of a rule.

usage: benign_campaign.py rename [file-substring ...]   alpha-rename the local variables of every function (per file)
       benign_campaign.py swapif [file-substring ...]   `if c: A else: B`  ->  `if not c: B else: A` (per file)
       benign_campaign.py retvar|condvar [...]           `return E` -> `t = E; return t`;  `if C:` -> `t = C; if t:`
       benign_campaign.py all                           rename + swapif, whole package at once
       benign_campaign.py <kind> --whole                one variant with every file rewritten
Results are printed; nothing under /verif or /repo is modified."""

from __future__ import annotations

import ast
import importlib
import os
import shutil
import subprocess
import sys
import tempfile
from pathlib import Path

VERIF = Path(__file__).resolve().parent.parent
sys.path.insert(0, str(VERIF))
REPO = Path("/repo")


class _Rename(ast.NodeTransformer):
    """Rename names that are plain locals of a function: stored in it, not parameters, not global/nonlocal, and not
    re-bound (as parameter or by assignment) in any nested function, lambda or class."""

    def visit_FunctionDef(self, node: ast.FunctionDef) -> ast.AST:  # noqa: N802
        self.generic_visit(node)  # inner functions first
        params = {a.arg for a in node.args.posonlyargs + node.args.args + node.args.kwonlyargs}
        if node.args.vararg:
            params.add(node.args.vararg.arg)
        if node.args.kwarg:
            params.add(node.args.kwarg.arg)
        declared = {n for s in ast.walk(node) if isinstance(s, (ast.Global, ast.Nonlocal)) for n in s.names}
        stored = set()
        nested_bound = set()
        for sub in ast.walk(node):
            if sub is node:
                continue
            if isinstance(sub, (ast.FunctionDef, ast.AsyncFunctionDef, ast.Lambda)):
                a = sub.args
                nested_bound |= {x.arg for x in a.posonlyargs + a.args + a.kwonlyargs}
                if a.vararg:
                    nested_bound.add(a.vararg.arg)
                if a.kwarg:
                    nested_bound.add(a.kwarg.arg)
                if not isinstance(sub, ast.Lambda):
                    nested_bound.add(sub.name)
                    nested_bound |= {n.id for n in ast.walk(sub) if isinstance(n, ast.Name) and isinstance(n.ctx, ast.Store)}
            if isinstance(sub, ast.ClassDef):
                nested_bound.add(sub.name)
                nested_bound |= {n.id for n in ast.walk(sub) if isinstance(n, ast.Name) and isinstance(n.ctx, ast.Store)}
        own_nested_defs = {s.name for s in ast.walk(node) if isinstance(s, (ast.FunctionDef, ast.AsyncFunctionDef, ast.ClassDef)) and s is not node}
        for n in ast.walk(node):
            if isinstance(n, ast.Name) and isinstance(n.ctx, ast.Store):
                stored.add(n.id)
            if isinstance(n, ast.ExceptHandler) and n.name:
                stored.add(n.name)
        # names matched by `case` patterns / imported names are left alone
        skip = {x.name for x in ast.walk(node) if isinstance(x, (ast.MatchAs, ast.MatchStar)) and x.name} | {al.asname or al.name.split(".")[0] for s in ast.walk(node) if isinstance(s, (ast.Import, ast.ImportFrom)) for al in s.names}
        targets = {n for n in stored - params - declared - nested_bound - own_nested_defs - skip if not n.startswith("__") and not n.endswith("_rn")}
        if not targets:
            return node
        for n in ast.walk(node):
            if isinstance(n, ast.Name) and n.id in targets:
                n.id = n.id + "_rn"
            if isinstance(n, ast.ExceptHandler) and n.name in targets:
                n.name = n.name + "_rn"
        return node

    visit_AsyncFunctionDef = visit_FunctionDef  # type: ignore[assignment]  # noqa: N815


class _SwapIf(ast.NodeTransformer):
    def visit_If(self, node: ast.If) -> ast.AST:  # noqa: N802
        self.generic_visit(node)
        if node.orelse and not (len(node.orelse) == 1 and isinstance(node.orelse[0], ast.If)):
            t = node.test.operand if isinstance(node.test, ast.UnaryOp) and isinstance(node.test.op, ast.Not) else ast.UnaryOp(op=ast.Not(), operand=node.test)
            node.test, node.body, node.orelse = t, node.orelse, node.body
        return node


class _RetVar(ast.NodeTransformer):
    """`return EXPR` -> `ret_tmpN = EXPR; return ret_tmpN` (same evaluation order; a fresh name per site)."""

    n = 0

    def _body(self, body: list[ast.stmt]) -> list[ast.stmt]:
        out: list[ast.stmt] = []
        for st in body:
            if isinstance(st, ast.Return) and st.value is not None and not isinstance(st.value, (ast.Name, ast.Constant)):
                _RetVar.n += 1
                nm = f"ret_tmp{_RetVar.n}"
                out.append(ast.Assign(targets=[ast.Name(id=nm, ctx=ast.Store())], value=st.value, lineno=st.lineno))
                out.append(ast.Return(value=ast.Name(id=nm, ctx=ast.Load())))
            else:
                out.append(st)
        return out

    def generic_visit(self, node: ast.AST) -> ast.AST:
        super().generic_visit(node)
        if isinstance(node, ast.Lambda):
            return node
        for fld in ("body", "orelse", "finalbody"):
            b = getattr(node, fld, None)
            if isinstance(b, list) and b and isinstance(b[0], ast.stmt):
                setattr(node, fld, self._body(b))
        if isinstance(node, ast.Try):
            for h in node.handlers:
                h.body = self._body(h.body)
        return node


class _CondVar(ast.NodeTransformer):
    """`if COND:` -> `cond_tmpN = COND; if cond_tmpN:` for plain if statements that are not part of an elif chain."""

    n = 0

    def _body(self, body: list[ast.stmt]) -> list[ast.stmt]:
        out: list[ast.stmt] = []
        for st in body:
            if isinstance(st, ast.If) and not isinstance(st.test, (ast.Name, ast.Constant)) and not any(isinstance(x, (ast.NamedExpr, ast.Await)) for x in ast.walk(st.test)):
                _CondVar.n += 1
                nm = f"cond_tmp{_CondVar.n}"
                out.append(ast.Assign(targets=[ast.Name(id=nm, ctx=ast.Store())], value=st.test, lineno=st.lineno))
                st.test = ast.Name(id=nm, ctx=ast.Load())
            out.append(st)
        return out

    def generic_visit(self, node: ast.AST) -> ast.AST:
        super().generic_visit(node)
        for fld in ("body", "finalbody"):
            b = getattr(node, fld, None)
            if isinstance(b, list) and b and isinstance(b[0], ast.stmt):
                setattr(node, fld, self._body(b))
        # orelse: only when it is a real else block, not an elif chain
        b = getattr(node, "orelse", None)
        if isinstance(b, list) and b and isinstance(b[0], ast.stmt) and not (isinstance(node, ast.If) and len(b) == 1 and isinstance(b[0], ast.If)):
            node.orelse = self._body(b)  # type: ignore[attr-defined]
        return node


class _SwapIfExp(ast.NodeTransformer):
    def visit_IfExp(self, node: ast.IfExp) -> ast.AST:  # noqa: N802
        self.generic_visit(node)
        t = node.test.operand if isinstance(node.test, ast.UnaryOp) and isinstance(node.test.op, ast.Not) else ast.UnaryOp(op=ast.Not(), operand=node.test)
        node.test, node.body, node.orelse = t, node.orelse, node.body
        return node


class _Yoda(ast.NodeTransformer):
    """`x == CONST` -> `CONST == x`, `x is None` -> `None is x` (single comparisons against a constant)."""

    def visit_Compare(self, node: ast.Compare) -> ast.AST:  # noqa: N802
        self.generic_visit(node)
        if len(node.ops) == 1 and isinstance(node.ops[0], (ast.Eq, ast.NotEq, ast.Is, ast.IsNot)) and isinstance(node.comparators[0], ast.Constant) and not isinstance(node.left, ast.Constant):
            node.left, node.comparators = node.comparators[0], [node.left]
        return node


class _KwReorder(ast.NodeTransformer):
    """Reverse the keyword arguments of every call (no **kwargs involved)."""

    def visit_Call(self, node: ast.Call) -> ast.AST:  # noqa: N802
        self.generic_visit(node)
        if len(node.keywords) > 1 and all(k.arg is not None for k in node.keywords) and all(isinstance(k.value, (ast.Name, ast.Constant, ast.Attribute)) for k in node.keywords):
            node.keywords = list(reversed(node.keywords))
        return node


class _ExcOrder(ast.NodeTransformer):
    def visit_ExceptHandler(self, node: ast.ExceptHandler) -> ast.AST:  # noqa: N802
        self.generic_visit(node)
        if isinstance(node.type, ast.Tuple):
            node.type.elts = list(reversed(node.type.elts))
        return node


class _CtorLit(ast.NodeTransformer):
    """Empty displays written as constructor calls: `[]` -> `list()`, `{}` -> `dict()` (assigned values and call arguments)."""

    def visit_List(self, node: ast.List) -> ast.AST:  # noqa: N802
        if not node.elts and isinstance(node.ctx, ast.Load):
            return ast.Call(func=ast.Name(id="list", ctx=ast.Load()), args=[], keywords=[])
        return self.generic_visit(node)

    def visit_Dict(self, node: ast.Dict) -> ast.AST:  # noqa: N802
        if not node.keys:
            return ast.Call(func=ast.Name(id="dict", ctx=ast.Load()), args=[], keywords=[])
        return self.generic_visit(node)

    def visit_AnnAssign(self, node: ast.AnnAssign) -> ast.AST:  # noqa: N802
        if node.value is not None:
            node.value = self.visit(node.value)
        return node

    def visit_arguments(self, node: ast.arguments) -> ast.AST:  # noqa: N802
        return node  # defaults stay literal

    def visit_ClassDef(self, node: ast.ClassDef) -> ast.AST:  # noqa: N802
        # class-level tables (KEYWORD_MAP = {...}) are data, leave them; methods are visited
        for st in node.body:
            if isinstance(st, (ast.FunctionDef, ast.AsyncFunctionDef)):
                self.visit(st)
        return node


class _DeMorgan(ast.NodeTransformer):
    """`not (a and b)` -> `not a or not b`; `not (a or b)` -> `not a and not b`."""

    def visit_UnaryOp(self, node: ast.UnaryOp) -> ast.AST:  # noqa: N802
        self.generic_visit(node)
        if isinstance(node.op, ast.Not) and isinstance(node.operand, ast.BoolOp):
            b = node.operand
            return ast.BoolOp(op=ast.Or() if isinstance(b.op, ast.And) else ast.And(), values=[ast.UnaryOp(op=ast.Not(), operand=v) for v in b.values])
        return node


class _IsinstSplit(ast.NodeTransformer):
    """`isinstance(x, (A, B))` -> `isinstance(x, A) or isinstance(x, B)` (x a plain name or attribute: evaluated twice without effect)."""

    def visit_Call(self, node: ast.Call) -> ast.AST:  # noqa: N802
        self.generic_visit(node)
        if isinstance(node.func, ast.Name) and node.func.id == "isinstance" and len(node.args) == 2 and isinstance(node.args[1], ast.Tuple) and len(node.args[1].elts) > 1 and isinstance(node.args[0], (ast.Name, ast.Attribute)):
            import copy

            return ast.BoolOp(op=ast.Or(), values=[ast.Call(func=ast.Name(id="isinstance", ctx=ast.Load()), args=[copy.deepcopy(node.args[0]), t], keywords=[]) for t in node.args[1].elts])
        return node


class _Passes(ast.NodeTransformer):
    """A `pass` in front of every statement of every function body (stands for an inserted no-op such as a log line)."""

    def generic_visit(self, node: ast.AST) -> ast.AST:
        super().generic_visit(node)
        if isinstance(node, (ast.FunctionDef, ast.AsyncFunctionDef, ast.If, ast.For, ast.While, ast.With, ast.Try, ast.AsyncFor, ast.AsyncWith)):
            for fld in ("body", "orelse", "finalbody"):
                b = getattr(node, fld, None)
                if isinstance(b, list) and b and isinstance(b[0], ast.stmt) and not (fld == "orelse" and isinstance(node, ast.If) and len(b) == 1 and isinstance(b[0], ast.If)):
                    nb: list[ast.stmt] = []
                    for i, st in enumerate(b):
                        if not (i == 0 and isinstance(st, ast.Expr) and isinstance(st.value, ast.Constant)):
                            nb.append(ast.Pass())
                        nb.append(st)
                    setattr(node, fld, nb)
        return node


class _ArgTemp(ast.NodeTransformer):
    """Name an intermediate value: in `… recv.m(E, …)` / `… f(E, …)` statements (expression statements, assignments, returns) whose
    first positional argument E is itself a call, write `arg_tmpN = E` in front and pass `arg_tmpN`. Only when everything evaluated
    before E in the statement is a plain name or attribute chain of names (no calls, no subscripts), so that nothing E could affect
    is read earlier."""

    n = 0

    @staticmethod
    def _pure_chain(e: ast.AST) -> bool:
        while isinstance(e, ast.Attribute):
            e = e.value
        return isinstance(e, ast.Name)

    def _rewrite(self, st: ast.stmt) -> list[ast.stmt]:
        val = st.value if isinstance(st, (ast.Expr, ast.Assign, ast.Return)) else None
        if isinstance(st, ast.Assign) and not all(isinstance(t, ast.Name) for t in st.targets):
            return [st]
        if isinstance(val, ast.Await):
            return [st]
        if isinstance(val, ast.Call) and self._pure_chain(val.func) and val.args and isinstance(val.args[0], ast.Call) and not any(isinstance(x, (ast.Await, ast.NamedExpr, ast.Yield, ast.YieldFrom, ast.Starred)) for x in ast.walk(val)):
            _ArgTemp.n += 1
            nm = f"arg_tmp{_ArgTemp.n}"
            pre = ast.Assign(targets=[ast.Name(id=nm, ctx=ast.Store())], value=val.args[0], lineno=st.lineno)
            val.args[0] = ast.Name(id=nm, ctx=ast.Load())
            return [pre, st]
        return [st]

    def generic_visit(self, node: ast.AST) -> ast.AST:
        super().generic_visit(node)
        if isinstance(node, ast.Lambda):
            return node
        for fld in ("body", "orelse", "finalbody"):
            b = getattr(node, fld, None)
            if isinstance(b, list) and b and isinstance(b[0], ast.stmt) and not isinstance(node, ast.ClassDef) and not isinstance(node, ast.Module):
                setattr(node, fld, [x for st in b for x in self._rewrite(st)])
        return node


class _MethodOrder(ast.NodeTransformer):
    """Reverse the order of the methods of every class (classes that define a name twice - overloads, property setters - are left)."""

    def visit_ClassDef(self, node: ast.ClassDef) -> ast.AST:  # noqa: N802
        self.generic_visit(node)
        defs = [st for st in node.body if isinstance(st, (ast.FunctionDef, ast.AsyncFunctionDef))]
        names = [d.name for d in defs]
        if len(set(names)) != len(names) or len(defs) < 2:
            return node
        # keep everything that is not a method in place, methods go to the end in reverse order
        first_def = next(i for i, st in enumerate(node.body) if st in defs)
        if any(not isinstance(st, (ast.FunctionDef, ast.AsyncFunctionDef)) for st in node.body[first_def:]):
            return node  # class attributes between methods may depend on earlier ones
        node.body = node.body[:first_def] + list(reversed(defs))
        return node


class _AddElse(ast.NodeTransformer):
    """`if c: …; return X` followed by REST  ->  `if c: …; return X else: REST` (the body always leaves the block)."""

    def _body(self, body: list[ast.stmt]) -> list[ast.stmt]:
        for i, st in enumerate(body):
            if isinstance(st, ast.If) and not st.orelse and isinstance(st.body[-1], (ast.Return, ast.Raise, ast.Continue, ast.Break)) and i + 1 < len(body):
                st.orelse = self._body(body[i + 1 :])
                return body[: i + 1]
        return body

    def generic_visit(self, node: ast.AST) -> ast.AST:
        super().generic_visit(node)
        for fld in ("body", "orelse", "finalbody"):
            b = getattr(node, fld, None)
            if isinstance(b, list) and b and isinstance(b[0], ast.stmt) and not isinstance(node, (ast.Module, ast.ClassDef)):
                setattr(node, fld, self._body(b))
        return node


class _MsgText(ast.NodeTransformer):
    """Reword the message of every `raise X("…")` (prefix added)."""

    def visit_Raise(self, node: ast.Raise) -> ast.AST:  # noqa: N802
        self.generic_visit(node)
        cls_name = ast.unparse(node.exc.func).split(".")[-1] if isinstance(node.exc, ast.Call) else ""
        # the argument of an interrupt (BreakLoop("break")) is a payload that ends up in a message, not a message
        if isinstance(node.exc, ast.Call) and node.exc.args and (cls_name.endswith("Error") or cls_name == "Exception"):
            a = node.exc.args[0]
            if isinstance(a, ast.Constant) and isinstance(a.value, str):
                node.exc.args[0] = ast.Constant(value="error: " + a.value)
            elif isinstance(a, ast.JoinedStr):
                a.values.insert(0, ast.Constant(value="error: "))
        return node


def transform(src: str, kind: str) -> str:
    tree = ast.parse(src)
    if kind in ("rename", "all"):
        tree = _Rename().visit(tree)
    if kind in ("swapif", "all"):
        tree = _SwapIf().visit(tree)
    for k_, cls_ in (("swapifexp", _SwapIfExp), ("yoda", _Yoda), ("kwreorder", _KwReorder), ("excorder", _ExcOrder), ("msgtext", _MsgText), ("ctorlit", _CtorLit), ("demorgan", _DeMorgan), ("isinstsplit", _IsinstSplit), ("passes", _Passes), ("argtemp", _ArgTemp), ("methodorder", _MethodOrder), ("addelse", _AddElse)):
        if kind == k_:
            tree = cls_().visit(tree)
    if kind == "retvar":
        tree = _RetVar().visit(tree)
    if kind == "condvar":
        tree = _CondVar().visit(tree)
    ast.fix_missing_locations(tree)
    return ast.unparse(tree)


def suite_passes(tmp: Path) -> tuple[bool, str]:
    env = dict(os.environ, PYTHONPATH=str(tmp), PYTHONDONTWRITEBYTECODE="1")
    r = subprocess.run(["/venv/bin/python", "-m", "pytest", "-q", "-x", "-p", "no:cacheprovider", "-n", "4", "--timeout=300", "tests"], cwd=str(tmp), env=env, capture_output=True, text=True, timeout=1200)
    tail = (r.stdout.strip().splitlines() or [""])[-1]
    return r.returncode == 0 and "passed" in tail and "failed" not in tail, tail


def run_checks(tmp: Path) -> dict[str, list[str]]:
    from sa.report import Result
    from sa.srcmodel import Program

    base, mut = Program(), Program(tmp)
    out: dict[str, list[str]] = {}
    for f in sorted((VERIF / "checks").glob("C*.py")):
        prop = f.stem
        mod = importlib.import_module(f"checks.{prop}")
        b = Result(prop, "quick")
        mod.run(base, b)
        m = Result(prop, "quick")
        try:
            mod.run(mut, m)
        except Exception as err:  # noqa: BLE001
            out[prop] = [f"ANALYSIS-ERROR {type(err).__name__}: {err}"[:300]]
            continue
        known = {(x.rule, x.key) for x in b.findings}
        new = [x for x in m.findings if (x.rule, x.key) not in known]
        if new:
            out[prop] = [f"{x.rule} {x.file}:{x.line} {x.qualname}: {x.construct}"[:260] for x in new[:6]]
    return out


def main() -> int:
    kind = sys.argv[1]
    subs = sys.argv[2:]
    files = sorted(p for p in (REPO / "liquid2").rglob("*.py") if "__pycache__" not in p.parts)
    groups: list[list[Path]]
    if subs[:1] == ["--whole"]:
        groups = [files]
    elif kind == "all" or not subs:
        groups = [files] if kind == "all" else [[f] for f in files]
    else:
        groups = [[f] for f in files if any(s in str(f) for s in subs)]
    total_alarm = 0
    for grp in groups:
        tmp = Path(tempfile.mkdtemp(prefix="verif-benign-"))
        try:
            shutil.copytree(REPO / "liquid2", tmp / "liquid2", ignore=shutil.ignore_patterns("__pycache__"))
            os.symlink(REPO / "tests", tmp / "tests")
            os.symlink(REPO / "pyproject.toml", tmp / "pyproject.toml")
            changed = 0
            for f in grp:
                rel = f.relative_to(REPO)
                src = f.read_text()
                try:
                    new = transform(src, kind)
                except Exception as err:  # noqa: BLE001
                    print(f"{rel}: transform failed: {err}")
                    continue
                if ast.dump(ast.parse(new)) != ast.dump(ast.parse(src)):
                    (tmp / rel).write_text(new)
                    changed += 1
            if not changed:
                continue
            label = str(grp[0].relative_to(REPO)) if len(grp) == 1 else f"{len(grp)} files"
            ok, tail = suite_passes(tmp)
            if not ok:
                print(f"{label}: [{kind}] NOT behaviour-preserving (suite: {tail}) - skipped")
                continue
            det = run_checks(tmp)
            if det:
                total_alarm += 1
                print(f"{label}: [{kind}] suite passes, checks ALARM: {det}")
            else:
                print(f"{label}: [{kind}] suite passes, all 19 checks silent")
        finally:
            shutil.rmtree(tmp, ignore_errors=True)
    print(f"alarms on behaviour-preserving variants: {total_alarm}")
    return 0


if __name__ == "__main__":
    sys.exit(main())
