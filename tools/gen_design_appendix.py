#!/venv/bin/python
"""Rewrite the generated appendices of DESIGN.md (between the BEGIN/END GENERATED markers) from
evidence/*.json, seeded/*/meta.json, selftest/*.json and known_findings.json."""
import json
import re
from pathlib import Path

V = Path(__file__).resolve().parent.parent
out = []
out.append("## Appendix D — rule inventory as built (generated from the evidence files)\n")
out.append("| property | rule | what it requires | obligations on the current tree |\n|---|---|---|---|")
for ev in sorted((V / "evidence").glob("C*.json")):
    d = json.loads(ev.read_text())
    cov = d["coverage"]
    for rule, text in cov.get("rules", {}).items():
        n = cov.get("obligations_per_rule", {}).get(rule, 0)
        out.append(f"| {d['property_id']} | {rule} | {text.replace('|', '/')} | {n} |")
out.append("")
out.append("## Appendix E — independent seeded changes and which checks report them (generated)\n")
out.append("Each row is a change written by a fresh sub-agent that saw only the property text and a scratch worktree; each was "
           "re-validated here (`tools/seed_eval.py`: suite passes with the patch, the agent's demo fails with it and passes without). "
           "`first run` = what the checks reported before any strengthening prompted by that change; `now` = the thorough tier of the "
           "listed properties applies the patch to a scratch copy on every run and fails the self-test if it is no longer reported.\n")
out.append("| id | breaks | needs to manifest | reported by (rule of the owning property) |\n|---|---|---|---|")
for meta in sorted((V / "seeded").glob("*/meta.json")):
    m = json.loads(meta.read_text())
    own = m["breaks_property"]
    det = m.get("detected_by", {})
    own_rules = sorted({x.split()[0] for x in det.get(own, [])})
    others = sorted(p for p in det if p != own and not p.startswith("<"))
    cell = (", ".join(own_rules) if own_rules else "**not reported by its own property**") + (f" (also {', '.join(others)})" if others else "")
    if m.get("retired"):
        cell = "*retired*: " + m["retired"][:160]
    first = m.get("first_run")
    if first is not None:
        cell += f"; first run: {first}"
    out.append(f"| {m['id']} | {own} | {m['needs_to_manifest'].replace('|', '/')} | {cell} |")
out.append("")
out.append("## Appendix F — self-test corpus sizes (generated)\n")
out.append("| property | hand-written mutants | benign variants | seeded patches |\n|---|---|---|---|")
for st in sorted((V / "selftest").glob("C*.json")):
    v = json.loads(st.read_text())
    p = st.stem
    seeded = sum(1 for meta in (V / "seeded").glob("*/meta.json") if p in json.loads(meta.read_text()).get("caught_by", []))
    out.append(f"| {p} | {sum(1 for x in v if x['kind'] == 'mutant')} | {sum(1 for x in v if x['kind'] == 'benign')} | {seeded} |")
out.append("")
out.append("## Appendix G — findings ledger, final disposition (generated from known_findings.json)\n")
out.append("| property | rule | status | commit / key | what failed |\n|---|---|---|---|---|")
for k in json.loads((V / "known_findings.json").read_text()):
    ref = k.get("commit") or k.get("key", "")
    what = k["what"].replace("|", "/")
    what = re.sub(r"^fixed: property=\S+ \S+ ", "", what)
    out.append(f"| {k['property']} | {k['rule']} | {k['status']} | `{ref[:90]}` | {what[:300]} |")
out.append("")
for label, rdir, rnd in (("H", "reported", 3), ("I", "reported4", 4)):
    if not (V / rdir / "status.json").exists():
        continue
    out.append(f"## Appendix {label} — violations reported by the independent hunters (round {rnd}), disposition on the current tree (generated from {rdir}/status.json)\n")
    out.append(f"Each script is archived unchanged under `{rdir}/`; `exit` is its exit status against /repo at the time "
               f"`{rdir}/status.json` was last refreshed (0 = the behaviour it demonstrates is gone). These scripts *run* the library; they are "
               "not part of any check and decide nothing - they are the cross-reference against which the static rules were extended.\n")
    rep = json.loads((V / rdir / "status.json").read_text())
    from collections import Counter
    cnt = Counter((r["property"], r["exit_on_head"] == 0) for r in rep)
    out.append("| property | reported | repaired | open |\n|---|---|---|---|")
    for p in sorted({r["property"] for r in rep}):
        out.append(f"| {p} | {cnt[(p, True)] + cnt[(p, False)]} | {cnt[(p, True)]} | {cnt[(p, False)]} |")
    out.append("")
    out.append("| script | exit | disposition |\n|---|---|---|")
    for r in rep:
        out.append(f"| {r['script']} | {r['exit_on_head']} | {r['disposition'].replace('|', '/')} |")
    out.append("")
text = "\n".join(out)
design = (V / "DESIGN.md").read_text()
begin, end = "<!-- BEGIN GENERATED -->", "<!-- END GENERATED -->"
if begin in design:
    design = design[: design.index(begin) + len(begin)] + "\n" + text + "\n" + design[design.index(end):]
else:
    design = design.rstrip() + "\n\n" + begin + "\n" + text + "\n" + end + "\n"
(V / "DESIGN.md").write_text(design)
print("DESIGN.md appendices regenerated:", len(out), "lines")
