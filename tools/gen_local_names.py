#!/venv/bin/python
"""Regenerate sa/local_names.json: for every function of /repo/liquid2, its local variables in order of first binding.
Run after /repo changes that were confirmed by reading (the names are what the text-keyed parts of the rules were written against);
sa/canon.py uses it to undo pure renamings of locals before the rules look at a tree."""
import ast
import json
import sys
from pathlib import Path

V = Path(__file__).resolve().parent.parent
sys.path.insert(0, str(V))
from sa import canon  # noqa: E402

root = Path("/repo")
out: dict[str, dict[str, list[str]]] = {}
for p in sorted((root / "liquid2").rglob("*.py")):
    rel = p.relative_to(root).as_posix()
    snap = canon.snapshot(ast.parse(p.read_text()))
    if snap:
        out[rel] = snap
(V / "sa" / "local_names.json").write_text(json.dumps(out, indent=0, sort_keys=True) + "\n")
print(sum(len(v) for v in out.values()), "functions with locals in", len(out), "modules")
