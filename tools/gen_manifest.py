#!/venv/bin/python
"""Regenerate MANIFEST.json from the META dict of every checks/Cxx.py (single source of truth)."""
import importlib
import json
import sys
from pathlib import Path

VERIF = Path(__file__).resolve().parent.parent
sys.path.insert(0, str(VERIF))

NOT_APPLICABLE = {
    "C19": "Every clause is a relation between run-time values (permutation, partition, inverse, idempotence, "
    "exact decimal arithmetic over all inputs); nothing about it is visible in the shape of the code and a "
    "syntactic proxy would fire on behaviour-preserving edits. No static clause claimed (DESIGN.md section 5).",
}

props = [json.loads(l)["id"] for l in (VERIF / "properties.jsonl").read_text().splitlines() if l.strip()]
checks = []
na = []
for pid in props:
    f = VERIF / "checks" / f"{pid}.py"
    if pid in NOT_APPLICABLE:
        na.append({"property_id": pid, "reason": NOT_APPLICABLE[pid]})
        continue
    if not f.exists():
        na.append({"property_id": pid, "reason": "static check for this property not built yet (see DESIGN.md section 3 for the planned rules)"})
        continue
    meta = importlib.import_module(f"checks.{pid}").META
    # the level text was written with the first rules of each check; say how many rules the check carries today
    try:
        import json as _json

        _ev = _json.loads((VERIF / "evidence" / f"{pid}.json").read_text())
        _n_rules = _ev.get("coverage", {}).get("rules")
        _n_rules = len(_n_rules) if isinstance(_n_rules, (list, dict)) else _n_rules
    except Exception:  # noqa: BLE001
        _n_rules = None
    if _n_rules:
        meta = dict(meta)
        meta["level_text"] = meta["level_text"].rstrip() + f" As built the check carries {_n_rules} rules - each a further necessary condition of the same kind, listed with its instance count in the evidence file and in DESIGN.md Appendix D, and introduced round by round in DESIGN.md sections 0-0o."
    checks.append(
        {
            "property_id": pid,
            "quick_cmd": f"./check {pid} --tier quick",
            "thorough_cmd": f"./check {pid} --tier thorough",
            "evidence_file": f"/verif/evidence/{pid}.json",
            "replay_cmd_template": "./check --replay {path}",
            "engine": "sa",
            "level_claimed": {"category": "other", "text": meta["level_text"], "design_ref": meta.get("design_ref", f"DESIGN.md section 3, {pid}")},
            "level_note": meta["level_note"],
            "technique": meta["technique"],
        }
    )

manifest = {
    "version": 1,
    "setup_cmd": "./tools/setup.sh",
    "hooks": {
        "guard": "JG_RP_PYTHON_LIQUID2_VERIF",
        "enable": "no hooks: the checks parse /repo's working tree with ast and never import or run it",
        "baseline_off_cmd": "cd /repo && /venv/bin/python -m pytest -q -p no:cacheprovider --timeout=900",
        "source_commits": [],
        "add_only": True,
    },
    "engines": [
        {
            "name": "sa",
            "path": "/verif/sa",
            "serves_properties": [c["property_id"] for c in checks],
            "kind_free_text": "repository-specific static analysis over the ast of /repo/liquid2: resolved program model, "
            "CHA call graph, statement CFG with typestate/dominance, sync/async twin comparator, traversal agreement, "
            "abstract-value dataflow, exception-escape analysis, table/ordering agreement, effects audit",
        }
    ],
    "checks": checks,
    "not_applicable": na,
    "notes": "Static analysis only: every verdict is a construct in the source (file:line qualname, rule, instance). "
    "All claims are level 'other': each check decides named structural clauses (necessary conditions) of its property, "
    "not the behavioural universal; the undecided clauses are listed in each evidence file under coverage.not_decided "
    "and in DESIGN.md. Exit 2 + 'ANALYSIS-ERROR' means the checker could not analyse the tree (vanished anchor), never a verdict.",
}
(VERIF / "MANIFEST.json").write_text(json.dumps(manifest, indent=1) + "\n")
print(f"MANIFEST.json: {len(checks)} checks, {len(na)} not_applicable")
