#!/venv/bin/python
"""Append entries to known_findings.json (run by hand, never by a check).
usage: kf.py known <prop> <rule> <key> <what> <demo>
       kf.py fixed <prop> <rule> <commit> <what> <demo>
"""
import json, sys
from pathlib import Path
f = Path(__file__).resolve().parent.parent / "known_findings.json"
data = json.loads(f.read_text()) if f.exists() else []
kind, prop, rule = sys.argv[1:4]
if kind == "known":
    key, what, demo = sys.argv[4:7]
    data.append({"property": prop, "status": "known", "rule": rule, "key": key, "what": what, "demo": demo})
else:
    commit, what, demo = sys.argv[4:7]
    data.append({"property": prop, "status": "fixed", "rule": rule, "commit": commit, "what": f"fixed: property={prop} {commit} {what}", "demo": demo})
f.write_text(json.dumps(data, indent=1) + "\n")
