#!/venv/bin/python
"""Mutation campaign (evaluation tooling, NOT a check): generate first-order AST mutants of liquid2 files, keep the ones
the unedited test suite does not kill, and record which of the static checks report each survivor.

usage: mutation_campaign.py gen  <relpath ...>          -> /tmp/mut/<file-key>/NNNN.json (one mutant per file)
       mutation_campaign.py test [-j N]                  -> runs the suite on every untested mutant (fail-fast)
       mutation_campaign.py detect [-j N]                -> runs the 19 checks on every surviving mutant
       mutation_campaign.py report                       -> survivors nobody reports, grouped by file/function

Mutation operators: comparison flips, and/or swap, condition negation, True/False, small-integer tweaks, statement
deletion (expression statements, assignments, augmented assignments, raise inside if), `return x` -> `return None` is not used
(mostly killed by type errors)."""

from __future__ import annotations

import ast
import copy
import json
import os
import shutil
import subprocess
import sys
import tempfile
from concurrent.futures import ProcessPoolExecutor
from pathlib import Path

VERIF = Path(__file__).resolve().parent.parent
sys.path.insert(0, str(VERIF))
OUT = Path("/tmp/mut")
REPO = Path("/repo")

CMP = {ast.Eq: ast.NotEq, ast.NotEq: ast.Eq, ast.Lt: ast.LtE, ast.LtE: ast.Lt, ast.Gt: ast.GtE, ast.GtE: ast.Gt, ast.Is: ast.IsNot, ast.IsNot: ast.Is, ast.In: ast.NotIn, ast.NotIn: ast.In}


def qualname_of(tree: ast.AST, target: ast.AST) -> str:
    path: list[str] = []

    def rec(n: ast.AST, stack: list[str]) -> bool:
        if n is target:
            path.extend(stack)
            return True
        for c in ast.iter_child_nodes(n):
            s = stack + [n.name] if isinstance(n, (ast.FunctionDef, ast.AsyncFunctionDef, ast.ClassDef)) else stack
            if rec(c, s):
                return True
        return False

    rec(tree, [])
    return ".".join(path) or "<module>"


def gen_for(rel: str) -> int:
    src = (REPO / rel).read_text()
    tree = ast.parse(src)
    key = rel.replace("/", "__")
    d = OUT / key
    d.mkdir(parents=True, exist_ok=True)
    sites: list[tuple[str, ast.AST, object]] = []
    for n in ast.walk(tree):
        if isinstance(n, ast.Compare) and len(n.ops) == 1 and type(n.ops[0]) in CMP:
            sites.append(("cmp", n, None))
        if isinstance(n, ast.BoolOp):
            sites.append(("boolop", n, None))
        if isinstance(n, (ast.If, ast.While, ast.IfExp)):
            sites.append(("negate", n, None))
        if isinstance(n, ast.Constant) and isinstance(n.value, bool):
            sites.append(("bool", n, None))
        elif isinstance(n, ast.Constant) and isinstance(n.value, int) and not isinstance(n.value, bool) and -2 <= n.value <= 2:
            sites.append(("int", n, None))
        if isinstance(n, (ast.FunctionDef, ast.AsyncFunctionDef, ast.If, ast.For, ast.While, ast.With, ast.Try, ast.AsyncFor, ast.AsyncWith)):
            for fld in ("body", "orelse", "finalbody"):
                body = getattr(n, fld, None)
                if not isinstance(body, list):
                    continue
                for i, st in enumerate(body):
                    if isinstance(st, ast.Expr) and isinstance(st.value, ast.Constant):
                        continue
                    if isinstance(st, (ast.Expr, ast.Assign, ast.AugAssign, ast.AnnAssign)) or (isinstance(st, ast.Raise) and isinstance(n, ast.If)) or isinstance(st, (ast.Break, ast.Continue)):
                        sites.append(("delete", n, (fld, i)))
    count = 0
    for kind, node, extra in sites:
        t2 = copy.deepcopy(tree)
        # locate the same node in the copy by position walk order
        orig_nodes = list(ast.walk(tree))
        idx = next(i for i, x in enumerate(orig_nodes) if x is node)
        n2 = list(ast.walk(t2))[idx]
        desc = ""
        if kind == "cmp":
            old = type(n2.ops[0]).__name__
            n2.ops = [CMP[type(n2.ops[0])]()]
            desc = f"{old}->{type(n2.ops[0]).__name__} in `{ast.unparse(node)[:60]}`"
        elif kind == "boolop":
            n2.op = ast.Or() if isinstance(n2.op, ast.And) else ast.And()
            desc = f"and<->or in `{ast.unparse(node)[:60]}`"
        elif kind == "negate":
            n2.test = ast.UnaryOp(op=ast.Not(), operand=n2.test)
            desc = f"negate `{ast.unparse(node.test)[:60]}`"
        elif kind == "bool":
            n2.value = not n2.value
            desc = f"{node.value}->{n2.value}"
        elif kind == "int":
            n2.value = n2.value + 1 if n2.value != 1 else 0
            desc = f"{node.value}->{n2.value}"
        elif kind == "delete":
            fld, i = extra  # type: ignore[misc]
            body = getattr(n2, fld)
            desc = f"delete `{ast.unparse(getattr(node, fld)[i])[:70]}`"
            body[i] = ast.Pass()
        ast.fix_missing_locations(t2)
        try:
            new_src = ast.unparse(t2)
            compile(new_src, rel, "exec")
        except Exception:  # noqa: BLE001
            continue
        line = getattr(node, "lineno", 0)
        if kind == "delete":
            line = getattr(node, extra[0])[extra[1]].lineno  # type: ignore[index]
        meta = {"file": rel, "kind": kind, "line": line, "function": qualname_of(tree, node if kind != "delete" else getattr(node, extra[0])[extra[1]]), "desc": desc, "status": "new"}  # type: ignore[index]
        (d / f"{count:04d}.json").write_text(json.dumps(meta))
        (d / f"{count:04d}.py").write_text(new_src)
        count += 1
    return count


def _scratch_with(rel: str, new_src: str) -> Path:
    tmp = Path(tempfile.mkdtemp(prefix="verif-mut-"))
    shutil.copytree(REPO / "liquid2", tmp / "liquid2", ignore=shutil.ignore_patterns("__pycache__"))
    (tmp / rel).write_text(new_src)
    os.symlink(REPO / "tests", tmp / "tests")  # the suite opens its data files relative to the working directory
    os.symlink(REPO / "pyproject.toml", tmp / "pyproject.toml")
    return tmp


def test_one(jpath: str) -> str:
    jp = Path(jpath)
    meta = json.loads(jp.read_text())
    if meta["status"] != "new":
        return f"{jp} {meta['status']}"
    tmp = _scratch_with(meta["file"], jp.with_suffix(".py").read_text())
    try:
        env = dict(os.environ, PYTHONPATH=str(tmp), PYTHONDONTWRITEBYTECODE="1")
        try:
            r = subprocess.run(["/venv/bin/python", "-m", "pytest", "-q", "-x", "-p", "no:cacheprovider", "-n", "3", "--timeout=120", "tests"], cwd=str(tmp), env=env, capture_output=True, text=True, timeout=600)
            tail = (r.stdout.strip().splitlines() or [""])[-1]
            meta["status"] = "survived" if r.returncode == 0 and "passed" in tail and "failed" not in tail and "error" not in tail else "killed"
        except subprocess.TimeoutExpired:
            meta["status"] = "killed"  # hang = killed by timeout
        jp.write_text(json.dumps(meta))
        return f"{jp} {meta['status']}"
    finally:
        shutil.rmtree(tmp, ignore_errors=True)


_BASE: dict = {}


def detect_one(jpath: str) -> str:
    import importlib

    from sa.report import Result
    from sa.srcmodel import Program

    jp = Path(jpath)
    meta = json.loads(jp.read_text())
    if meta["status"] != "survived" or "detected" in meta:
        return f"{jp} skip"
    tmp = _scratch_with(meta["file"], jp.with_suffix(".py").read_text())
    out: dict[str, list[str]] = {}
    try:
        mut_prog = Program(tmp)
        for f in sorted((VERIF / "checks").glob("C*.py")):
            prop = f.stem
            mod = importlib.import_module(f"checks.{prop}")
            if prop not in _BASE:
                if "prog" not in _BASE:
                    _BASE["prog"] = Program()
                b = Result(prop, "quick")
                mod.run(_BASE["prog"], b)
                _BASE[prop] = b
            mut = Result(prop, "quick")
            try:
                mod.run(mut_prog, mut)
            except Exception as err:  # noqa: BLE001
                out[prop] = [f"ANALYSIS-ERROR {type(err).__name__}: {err}"[:160]]
                continue
            known = {(x.rule, x.key) for x in _BASE[prop].findings}
            new = [x for x in mut.findings if (x.rule, x.key) not in known]
            if new:
                out[prop] = [f"{x.rule} {x.qualname}"[:120] for x in new[:3]]
    finally:
        shutil.rmtree(tmp, ignore_errors=True)
    meta["detected"] = out
    jp.write_text(json.dumps(meta))
    return f"{jp} {sorted(out)}"


def main() -> int:
    cmd = sys.argv[1]
    args = sys.argv[2:]
    jobs = 4
    if args[:1] == ["-j"]:
        jobs = int(args[1])
        args = args[2:]
    if cmd == "gen":
        for rel in args:
            print(rel, gen_for(rel))
    elif cmd in ("test", "detect"):
        files = sorted(str(p) for p in OUT.glob("*/*.json"))
        if args:
            files = [f for f in files if any(a in f for a in args)]
        fn = test_one if cmd == "test" else detect_one
        with ProcessPoolExecutor(max_workers=jobs) as ex:
            for i, line in enumerate(ex.map(fn, files, chunksize=1)):
                if i % 25 == 0 or "survived" in line:
                    print(line, flush=True)
    elif cmd == "report":
        rows = [json.loads(p.read_text()) | {"id": f"{p.parent.name}/{p.stem}"} for p in sorted(OUT.glob("*/*.json"))]
        tot = len(rows)
        surv = [r for r in rows if r["status"] == "survived"]
        det = [r for r in surv if r.get("detected")]
        print(f"mutants {tot}, killed by the suite {sum(1 for r in rows if r['status'] == 'killed')}, survived {len(surv)}, of those reported by a check {len(det)}, untested {sum(1 for r in rows if r['status'] == 'new')}")
        for r in surv:
            if "detected" in r and not r["detected"]:
                print(f"UNREPORTED {r['id']} {r['file']}:{r['line']} {r['function']}: {r['desc']}")
    return 0


if __name__ == "__main__":
    sys.exit(main())
