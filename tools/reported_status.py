#!/venv/bin/python
"""Documentation tool (NOT a check, never run by one): run every archived hunter script reported/Cxx/found*.py against
/repo's working tree and rewrite reported/status.json with its exit status and the disposition from reported/triage.json."""
import json
import os
import re
import subprocess
import sys
import tempfile
from concurrent.futures import ThreadPoolExecutor
from pathlib import Path

V = Path(__file__).resolve().parent.parent
ROUND = sys.argv[2] if len(sys.argv) > 2 else "reported"  # directory name: reported (round 3) / reported4 (round 4)
tri = json.loads((V / ROUND / "triage.json").read_text())
scripts = sorted((V / ROUND).glob("C*/found*.py"), key=lambda p: (p.parent.name, int(re.sub(r"\D", "", p.stem) or 0), p.stem))


def run(p: Path) -> int:
    with tempfile.TemporaryDirectory() as d:
        env = dict(os.environ, PYTHONPATH="/repo", PYTHONDONTWRITEBYTECODE="1")
        try:
            return subprocess.run(["/venv/bin/python", str(p)], cwd=d, env=env, capture_output=True, timeout=300).returncode
        except subprocess.TimeoutExpired:
            return 124


with ThreadPoolExecutor(int(sys.argv[1]) if len(sys.argv) > 1 else 12) as ex:
    rcs = list(ex.map(run, scripts))
rows = []
for p, rc in zip(scripts, rcs):
    c, f = p.parent.name, p.stem
    disp = "repaired in /repo (script now exits 0)" if rc == 0 else (tri.get(c, {}).get(f) or tri.get(c, {}).get("*") or tri["_default_open"])
    rows.append({"property": c, "script": f"{ROUND}/{c}/{f}.py", "exit_on_head": rc, "disposition": disp})
(V / ROUND / "status.json").write_text(json.dumps(rows, indent=1) + "\n")
print(len(rows), "scripts;", sum(1 for r in rows if r["exit_on_head"] == 0), "exit 0")
