#!/venv/bin/python
"""Validate a sub-agent's seeded change and record it under /verif/seeded/<id>/.

usage: seed_eval.py <worktree> <n> <seed-id> <property> "<what it needs to manifest>"

1. In a fresh scratch worktree of /repo HEAD: apply patch<n>.diff, run the full suite (must pass), run demo<n>.py
   (must fail), revert, run demo<n>.py (must pass).
2. Store patch.diff (re-diffed against HEAD), demo.py, meta.json.
3. Run every claimed check on a scratch copy with the patch applied and record which report a new finding.
"""

from __future__ import annotations

import json
import shutil
import subprocess
import sys
import tempfile
from pathlib import Path

VERIF = Path(__file__).resolve().parent.parent
sys.path.insert(0, str(VERIF))


def sh(cmd: str, cwd: str | None = None, env: dict | None = None, timeout: int = 900) -> tuple[int, str]:
    import os

    e = dict(os.environ)
    if env:
        e.update(env)
    r = subprocess.run(cmd, shell=True, cwd=cwd, env=e, capture_output=True, text=True, timeout=timeout)
    return r.returncode, (r.stdout + r.stderr)


_BASE: dict = {}


def detect(patch: Path) -> dict[str, list[str]]:
    from sa.report import Result
    from sa.srcmodel import Program
    import importlib

    out: dict[str, list[str]] = {}
    tmp = Path(tempfile.mkdtemp(prefix="verif-seed-"))
    try:
        shutil.copytree("/repo/liquid2", tmp / "liquid2", ignore=shutil.ignore_patterns("__pycache__"))
        rc, o = sh(f"patch -p1 -s -f -i {patch}", cwd=str(tmp))
        if rc != 0:
            return {"<apply failed>": [o[:300]]}
        mut_prog = Program(tmp)
        for f in sorted((VERIF / "checks").glob("C*.py")):
            prop = f.stem
            mod = importlib.import_module(f"checks.{prop}")
            if prop not in _BASE:
                if "prog" not in _BASE:
                    _BASE["prog"] = Program()
                b = Result(prop, "quick")
                mod.run(_BASE["prog"], b)
                _BASE[prop] = b
            base = _BASE[prop]
            mut = Result(prop, "quick")
            try:
                mod.run(mut_prog, mut)
            except Exception as err:  # noqa: BLE001
                out[prop] = [f"ANALYSIS-ERROR {type(err).__name__}: {err}"[:200]]
                continue
            known = {(x.rule, x.key) for x in base.findings}
            new = [x for x in mut.findings if (x.rule, x.key) not in known]
            if new:
                out[prop] = [f"{x.rule} {x.file}:{x.line} {x.qualname}: {x.message}"[:260] for x in new[:4]]
    finally:
        shutil.rmtree(tmp, ignore_errors=True)
    return out


def main() -> int:
    wt, n, sid, prop, needs = sys.argv[1:6]
    wt_p = Path(wt)
    patch = wt_p / f"patch{n}.diff"
    demo = wt_p / f"demo{n}.py"
    assert patch.exists() and demo.exists(), "patch/demo missing"
    scratch = Path(f"/tmp/seedval-{sid}")  # one scratch worktree per seed: evaluations can run side by side
    if scratch.exists():
        sh(f"git -C /repo worktree remove --force {scratch}")
        shutil.rmtree(scratch, ignore_errors=True)
    rc, o = sh(f"git -C /repo worktree add -q --detach {scratch} HEAD")
    assert rc == 0, o
    ran: list[str] = []
    try:
        rc, o = sh(f"git apply -3 {patch} || git apply {patch}", cwd=str(scratch))
        if rc != 0:
            print("PATCH DOES NOT APPLY to current HEAD:", o[:500])
            return 2
        rc, o = sh("/venv/bin/python -m pytest -q -p no:cacheprovider -n 8 2>&1 | tail -2", cwd=str(scratch), env={"PYTHONPATH": str(scratch)})
        suite = o.strip().splitlines()[-1] if o.strip() else ""
        ran.append(f"suite with patch: {suite}")
        if "passed" not in suite or "failed" in suite or "error" in suite:
            print("SUITE FAILS with patch:", o[-600:])
            return 3
        shutil.copy(demo, scratch / "demo_seed.py")
        rc1, o1 = sh("/venv/bin/python demo_seed.py", cwd=str(scratch), env={"PYTHONPATH": str(scratch)}, timeout=300)
        ran.append(f"demo with patch: exit {rc1}")
        # regenerate the patch against current HEAD
        rc, newpatch = sh("git diff HEAD -- liquid2", cwd=str(scratch))
        sh("git reset -q --hard HEAD", cwd=str(scratch))
        rc0, o0 = sh("/venv/bin/python demo_seed.py", cwd=str(scratch), env={"PYTHONPATH": str(scratch)}, timeout=300)
        ran.append(f"demo without patch: exit {rc0}")
        if rc1 == 0 or rc0 != 0:
            print(f"DEMO does not discriminate: with patch exit {rc1}, without exit {rc0}\n{o1[-400:]}\n---\n{o0[-400:]}")
            return 4
    finally:
        sh(f"git -C /repo worktree remove --force {scratch}")
        shutil.rmtree(scratch, ignore_errors=True)
    dest = VERIF / "seeded" / sid
    dest.mkdir(parents=True, exist_ok=True)
    (dest / "patch.diff").write_text(newpatch)
    shutil.copy(demo, dest / "demo.py")
    det = detect(dest / "patch.diff")
    meta = {
        "id": sid,
        "breaks_property": prop,
        "needs_to_manifest": needs,
        "source": "independent sub-agent given only the property text and a scratch worktree",
        "confirmed": ran,
        "commands": [
            "git -C <scratch worktree of /repo HEAD> apply patch.diff",
            "PYTHONPATH=<scratch> /venv/bin/python -m pytest -q -p no:cacheprovider -n 8",
            "PYTHONPATH=<scratch> /venv/bin/python demo.py  (non-zero with the patch, zero without)",
        ],
        "detected_by": det,
        "caught_by": sorted(p for p in det if not p.startswith("<")),
    }
    (dest / "meta.json").write_text(json.dumps(meta, indent=1))
    print(sid, "OK", "; ".join(ran))
    print("  detected by:", json.dumps(det, indent=1)[:1500] if det else "NOTHING")
    return 0


if __name__ == "__main__":
    sys.exit(main())
