#!/venv/bin/python
"""Re-run detection for seeded patches (after strengthening) and update meta.json. usage: seed_redetect.py [id ...]"""
import json, sys
from pathlib import Path
sys.path.insert(0, str(Path(__file__).resolve().parent)); sys.path.insert(0, str(Path(__file__).resolve().parent.parent))
import seed_eval
V = Path(__file__).resolve().parent.parent
ids = sys.argv[1:] or sorted(p.name for p in (V / "seeded").iterdir())
for sid in ids:
    p = V / "seeded" / sid
    det = seed_eval.detect(p / "patch.diff")
    m = json.loads((p / "meta.json").read_text())
    m["detected_by"] = det
    m["caught_by"] = sorted(k for k in det if not k.startswith("<"))
    (p / "meta.json").write_text(json.dumps(m, indent=1))
    own = m["breaks_property"]
    print(sid, own, "->", m["caught_by"], "OWN" if own in m["caught_by"] else "**MISSED**", [v[0][:100] for k, v in det.items() if k == own or k.startswith("<")])
