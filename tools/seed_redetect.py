#!/venv/bin/python
"""Re-run detection for seeded patches (after strengthening) and update meta.json. usage: seed_redetect.py [-j N] [id ...]"""
import json, sys
from concurrent.futures import ProcessPoolExecutor
from pathlib import Path
sys.path.insert(0, str(Path(__file__).resolve().parent)); sys.path.insert(0, str(Path(__file__).resolve().parent.parent))
import seed_eval
V = Path(__file__).resolve().parent.parent


def one(sid: str):
    p = V / "seeded" / sid
    det = seed_eval.detect(p / "patch.diff")
    m = json.loads((p / "meta.json").read_text())
    if m.get("retired"):
        return f"{sid} retired; still reported by: {sorted(det)} (anything listed here is a false alarm)"
    m["detected_by"] = det
    m["caught_by"] = sorted(k for k in det if not k.startswith("<"))
    (p / "meta.json").write_text(json.dumps(m, indent=1))
    own = m["breaks_property"]
    return f"{sid} {own} -> {m['caught_by']} {'OWN' if own in m['caught_by'] else '**MISSED**'} {[v[0][:100] for k, v in det.items() if k == own or k.startswith('<')]}"


if __name__ == "__main__":
    args = sys.argv[1:]
    jobs = 6
    if args[:1] == ["-j"]:
        jobs = int(args[1]); args = args[2:]
    ids = args or sorted(p.name for p in (V / "seeded").iterdir())
    if len(ids) == 1:
        print(one(ids[0]))
    else:
        with ProcessPoolExecutor(max_workers=jobs) as ex:
            for line in ex.map(one, ids):
                print(line, flush=True)
