#!/venv/bin/python
"""Re-validate every seeded change against the current /repo tree: the patch applies, the demo fails with it and
passes without it (the suite is not re-run here; tools/seed_eval.py did that when the seed was recorded/rebased).
usage: seed_revalidate.py [-j N] [id ...]"""
import os, shutil, subprocess, sys, tempfile
from concurrent.futures import ThreadPoolExecutor
from pathlib import Path
V = Path(__file__).resolve().parent.parent


def one(sid: str) -> str:
    d = V / "seeded" / sid
    import json
    if json.loads((d / "meta.json").read_text()).get("retired"):
        return f"{sid} ok (retired: no longer a violating change on the repaired tree)"
    tmp = Path(tempfile.mkdtemp(prefix="verif-reval-"))
    try:
        shutil.copytree("/repo/liquid2", tmp / "liquid2", ignore=shutil.ignore_patterns("__pycache__"))
        env = dict(os.environ, PYTHONPATH=str(tmp), PYTHONDONTWRITEBYTECODE="1")
        r0 = subprocess.run(["/venv/bin/python", str(d / "demo.py")], cwd=tmp, env=env, capture_output=True, text=True, timeout=300)
        r = subprocess.run(["patch", "-p1", "-s", "-f", "-i", str(d / "patch.diff")], cwd=tmp, capture_output=True, text=True)
        if r.returncode != 0:
            return f"{sid} PATCH-DOES-NOT-APPLY"
        r1 = subprocess.run(["/venv/bin/python", str(d / "demo.py")], cwd=tmp, env=env, capture_output=True, text=True, timeout=300)
        ok = r0.returncode == 0 and r1.returncode != 0
        return f"{sid} {'ok' if ok else '**STALE**'} demo without patch: {r0.returncode}, with patch: {r1.returncode}"
    except subprocess.TimeoutExpired:
        return f"{sid} TIMEOUT"
    finally:
        shutil.rmtree(tmp, ignore_errors=True)


if __name__ == "__main__":
    args = sys.argv[1:]
    jobs = 8
    if args[:1] == ["-j"]:
        jobs = int(args[1]); args = args[2:]
    ids = args or sorted(p.name for p in (V / "seeded").iterdir())
    with ThreadPoolExecutor(max_workers=jobs) as ex:
        for line in ex.map(one, ids):
            print(line, flush=True)
