#!/bin/sh
# Nothing to build: verify the interpreter can parse the repo and the framework imports.
cd "$(dirname "$0")/.." || exit 1
if [ -x /venv/bin/python ]; then PY=/venv/bin/python; else PY=python3; fi
"$PY" -B -c "
import sys; sys.path.insert(0, '.')
from sa.srcmodel import Program
p = Program()
print('setup ok:', len(p.modules), 'modules parsed with', sys.version.split()[0])
"
